#!/venv/bin/python
"""Verify the changes a sub-agent left in /tmp/wt_<prop>/SEED and import the confirmed ones into /verif/seeded/.

  selftest/import_seed.py C05 [C04 ...]
  SEED_WT_PREFIX=/tmp/wt2_ SEED_OFFSET=3 selftest/import_seed.py C05      (second round: stored as C05-4 .. C05-6)

For every patch<k>.diff: apply it in the scratch worktree, run the pinned test suite, run demo<k>.py with and without
the change, revert.  A change is kept only if the suite passes with it, the demo exits 0 without it and non-zero with it.
"""
import json
import os
import shutil
import subprocess
import sys

VERIF = os.path.dirname(os.path.dirname(os.path.abspath(__file__)))
PY = "/venv/bin/python"


def sh(cmd, cwd, env=None, timeout=1200):
    e = dict(os.environ)
    e.update(env or {})
    p = subprocess.run(cmd, cwd=cwd, shell=True, capture_output=True, text=True, env=e, timeout=timeout)
    return p.returncode, (p.stdout + p.stderr)


def main():
    for prop in sys.argv[1:]:
        wt = os.environ.get("SEED_WT_PREFIX", "/tmp/wt_") + prop
        seed = os.path.join(wt, "SEED")
        if not os.path.isdir(seed):
            print(prop, "no SEED dir")
            continue
        env = {"PYTHONPATH": wt, "SP_ROOT": wt}
        sh("git checkout -- . ", wt)
        k = 1
        while os.path.exists(os.path.join(seed, f"patch{k}.diff")):
            patch = os.path.join(seed, f"patch{k}.diff")
            demo = os.path.join(seed, f"demo{k}.py")
            meta = os.path.join(seed, f"meta{k}.json")
            rec = {"prop": prop, "k": k}
            touches_pyx = ".pyx" in open(patch).read()
            rc, out = sh(f"git apply --check {patch}", wt)
            if rc != 0:
                print(prop, k, "patch does not apply:", out[:200])
                k += 1
                continue
            rc0, out0 = sh(f"{PY} {demo}", wt, env, 600)
            sh(f"git apply {patch}", wt)
            if touches_pyx:
                sh(f"{PY} setup.py build_ext --inplace -q; rm -rf build", wt, env, 900)
            rct, outt = sh(f"{PY} -m pytest -q -p no:cacheprovider --timeout=900 -x 2>&1 | tail -1", wt, env)
            rc1, out1 = sh(f"{PY} {demo}", wt, env, 600)
            sh("git checkout -- .", wt)
            if touches_pyx:
                sh(f"{PY} setup.py build_ext --inplace -q; rm -rf build", wt, env, 900)
            tests_ok = "383 passed" in outt
            ok = tests_ok and rc0 == 0 and rc1 != 0
            print(prop, k, "KEEP" if ok else "DROP", f"tests='{outt.strip()[-40:]}' demo_unchanged={rc0} demo_changed={rc1}")
            if ok:
                dst = os.path.join(VERIF, "seeded", f"{prop}-{k + int(os.environ.get('SEED_OFFSET', '0'))}")
                os.makedirs(dst, exist_ok=True)
                shutil.copy(patch, os.path.join(dst, "patch.diff"))
                shutil.copy(demo, os.path.join(dst, "demo.py"))
                m = {}
                if os.path.exists(meta):
                    try:
                        m = json.load(open(meta))
                    except Exception:
                        m = {"raw": open(meta).read()[:2000]}
                m["property"] = prop
                m["confirmed_by_builder"] = {
                    "worktree": "scratch git worktree of /repo at the commit of import (removed afterwards)",
                    "ran": [f"git apply patch.diff", "pytest -q -p no:cacheprovider --timeout=900 -x  -> " + outt.strip()[-30:],
                            f"python demo.py (unchanged tree) -> exit {rc0}", f"python demo.py (change applied) -> exit {rc1}"],
                    "demo_output_with_change": out1.strip()[-400:],
                }
                json.dump(m, open(os.path.join(dst, "meta.json"), "w"), indent=1)
            k += 1


if __name__ == "__main__":
    main()
