#!/venv/bin/python
"""Self-test of the checkers, both ways.

  selftest/run.py [--jobs N] [--only SUBSTR]

mutants.py   MUTANTS: single-edit variants of /repo that break one property (must be reported by the named
             check: exit 1 with a VIOLATION line);  BENIGN: behaviour-preserving edits (must stay silent: exit 0)
seeded/*     changes produced by independent sub-agents (patch.diff + meta.json): run against all checks of
             the property they break; the outcome (caught / missed, by which rule) is printed, a miss is not a
             failure of this script (it is recorded in DESIGN.md).
Every variant is applied to a scratch copy of /repo's working tree under /tmp which is removed afterwards;
the registered evidence files are not touched (SPVERIF_EVIDENCE_DIR points into the scratch directory).
"""
import argparse
import concurrent.futures as cf
import json
import os
import shutil
import subprocess
import sys
import tempfile

HERE = os.path.dirname(os.path.abspath(__file__))
VERIF = os.path.dirname(HERE)
REPO = os.environ.get("SPVERIF_REPO", "/repo")
sys.path.insert(0, HERE)


def scratch_copy():
    d = tempfile.mkdtemp(prefix="spverif_st_")
    shutil.copytree(os.path.join(REPO, "scriptplan"), os.path.join(d, "scriptplan"),
                    ignore=shutil.ignore_patterns("__pycache__", "*.so", "*.c"))
    shutil.copy(os.path.join(REPO, "setup.py"), d)
    return d


def run_check(d, prop):
    env = dict(os.environ, SPVERIF_REPO=d, SPVERIF_EVIDENCE_DIR=os.path.join(d, "_evidence"))
    p = subprocess.run([os.path.join(VERIF, "check"), prop, "quick"], capture_output=True, text=True, env=env, timeout=600)
    rules = sorted({ln.split("rule=")[1].split()[0] for ln in p.stdout.splitlines() if ln.strip().startswith("rule=")})
    return p.returncode, rules, p.stdout


def apply_edits(d, edits):
    for rel, old, new in edits:
        path = os.path.join(d, rel)
        s = open(path).read()
        if old.startswith("ALL:"):
            old = old[4:]
            if s.count(old) < 1:
                return f"edit anchor does not occur in {rel}: {old[:60]!r}"
            open(path, "w").write(s.replace(old, new))
            continue
        if s.count(old) != 1:
            return f"edit anchor occurs {s.count(old)} times in {rel}: {old[:60]!r}"
        open(path, "w").write(s.replace(old, new))
    return None


def one(job):
    kind, name, prop, payload = job
    d = scratch_copy()
    try:
        if kind in ("mutant", "benign", "undecid"):
            err = apply_edits(d, payload)
            if err:
                return (kind, name, prop, "BROKEN-VARIANT", err)
        else:  # a patch file: a seeded change, or a behaviour-preserving change from /verif/benign ("benign-patch")
            # generated .c files are not part of the scratch copy (the checks read .py / .pyx only)
            r = subprocess.run(["git", "apply", "--exclude=*.c", "-p1", payload], cwd=d, capture_output=True, text=True,
                               env=dict(os.environ, GIT_CEILING_DIRECTORIES="/tmp", GIT_DIR="/nonexistent"))
            if r.returncode != 0:
                return (kind, name, prop, "BROKEN-VARIANT", (r.stdout + r.stderr)[:200])
        rc, rules, out = run_check(d, prop)
        return (kind, name, prop, rc, rules if rc == 1 else out.strip().splitlines()[-1][:200] if rc == 2 else "")
    finally:
        shutil.rmtree(d, ignore_errors=True)


def main():
    ap = argparse.ArgumentParser()
    ap.add_argument("--jobs", type=int, default=min(16, os.cpu_count() or 4))
    ap.add_argument("--only", default="")
    ap.add_argument("--json", default="")
    a = ap.parse_args()
    from mutants import BENIGN, MUTANTS, UNDECIDED
    jobs = []
    for name, prop, edits in MUTANTS:
        jobs.append(("mutant", name, prop, edits))
    for name, prop, edits in UNDECIDED:
        jobs.append(("undecid", name, prop, edits))
    for name, props, edits in BENIGN:
        for prop in props:
            jobs.append(("benign", name, prop, edits))
    sd = os.path.join(VERIF, "seeded")
    if os.path.isdir(sd):
        for s in sorted(os.listdir(sd)):
            meta = os.path.join(sd, s, "meta.json")
            patch = os.path.join(sd, s, "patch.diff")
            if os.path.exists(meta) and os.path.exists(patch):
                m = json.load(open(meta))
                if "retired" in m:
                    continue
                for prop in m.get("check_properties", [m["property"]]):
                    jobs.append(("seeded", s, prop, patch))
    if a.only:
        pats = a.only.split(",")
        jobs = [j for j in jobs if any(p_ in j[1] or p_ == j[2] for p_ in pats)]
    bad = 0
    results = []
    with cf.ThreadPoolExecutor(max_workers=a.jobs) as ex:
        for kind, name, prop, rc, info in ex.map(one, jobs):
            if kind == "mutant":
                ok = rc == 1
            elif kind == "benign":
                ok = rc == 0
            elif kind == "undecid":
                ok = rc in (1, 2)
            else:
                ok = True
            verdict = {1: "CAUGHT", 0: "silent", 2: "inconclusive"}.get(rc, rc)
            if not ok:
                bad += 1
            print(f"{'ok  ' if ok else 'FAIL'} {kind:7} {prop} {name:45} {verdict} {info}")
            results.append({"kind": kind, "name": name, "property": prop, "result": verdict, "info": info})
    if a.json:
        json.dump(results, open(a.json, "w"), indent=1)
    print(f"{len(jobs)} variants, {bad} unexpected")
    return 1 if bad else 0


if __name__ == "__main__":
    sys.exit(main())
