#!/venv/bin/python
"""Verify the behaviour-preserving changes a sub-agent left in /tmp/wt5_<prop>/SEED and import the confirmed ones into /verif/benign/.

  SEED_WT_PREFIX=/tmp/wt5_ [BENIGN_OFFSET=4] selftest/import_benign.py C05 [C04 ...]

For every patch<k>.diff: run demo<k>.py on the unchanged scratch worktree (digest = last line of stdout), apply the patch, run the
pinned test suite, run the demo again, revert.  A change is kept only if the suite passes with it, both demo runs exit 0 and the two
digests are identical.  Stored as /verif/benign/<prop>-b<k>/{patch.diff, demo.py, meta.json}.
"""
import json
import os
import shutil
import subprocess
import sys

VERIF = os.path.dirname(os.path.dirname(os.path.abspath(__file__)))
PY = "/venv/bin/python"


def sh(cmd, cwd, env=None, timeout=1800):
    e = dict(os.environ)
    e.update(env or {})
    p = subprocess.run(cmd, cwd=cwd, shell=True, capture_output=True, text=True, env=e, timeout=timeout)
    return p.returncode, p.stdout, p.stderr


def main():
    for prop in sys.argv[1:]:
        wt = os.environ.get("SEED_WT_PREFIX", "/tmp/wt5_") + prop
        seed = os.path.join(wt, "SEED")
        if not os.path.isdir(seed):
            print(prop, "no SEED dir")
            continue
        env = {"PYTHONPATH": wt, "SP_ROOT": wt}
        sh("git checkout -- .", wt)
        k = 1
        while os.path.exists(os.path.join(seed, f"patch{k}.diff")):
            patch = os.path.join(seed, f"patch{k}.diff")
            demo = os.path.join(seed, f"demo{k}.py")
            meta = os.path.join(seed, f"meta{k}.json")
            rc, out, err = sh(f"git apply --check {patch}", wt)
            if rc != 0 or not os.path.exists(demo) or ".pyx" in open(patch).read():
                print(prop, k, "DROP (does not apply / no demo / touches .pyx)")
                k += 1
                continue
            rc0, out0, _ = sh(f"{PY} {demo}", wt, env, 1200)
            sh(f"git apply {patch}", wt)
            rct, outt, _ = sh(f"{PY} -m pytest -q -p no:cacheprovider --timeout=900 -x 2>&1 | tail -1", wt, env)
            rc1, out1, _ = sh(f"{PY} {demo}", wt, env, 1200)
            sh("git checkout -- .", wt)
            d0 = (out0.strip().splitlines() or [""])[-1]
            d1 = (out1.strip().splitlines() or [""])[-1]
            ok = "383 passed" in outt and rc0 == 0 and rc1 == 0 and d0 == d1 and len(d0) >= 16
            print(prop, k, "KEEP" if ok else "DROP", f"tests='{outt.strip()[-30:]}' rc={rc0}/{rc1} digest_equal={d0 == d1}")
            if ok:
                dst = os.path.join(VERIF, "benign", f"{prop}-b{k + int(os.environ.get('BENIGN_OFFSET', '0'))}")
                os.makedirs(dst, exist_ok=True)
                shutil.copy(patch, os.path.join(dst, "patch.diff"))
                shutil.copy(demo, os.path.join(dst, "demo.py"))
                m = {}
                if os.path.exists(meta):
                    try:
                        m = json.load(open(meta))
                    except Exception:
                        m = {"raw": open(meta).read()[:2000]}
                m["property"] = prop
                m["confirmed_by_builder"] = {
                    "ran": ["git apply patch.diff", "pytest -> " + outt.strip()[-30:], f"demo.py unchanged -> exit {rc0}, digest {d0[:16]}...",
                            f"demo.py changed -> exit {rc1}, digest {d1[:16]}..."],
                    "note": "equal digests on the demo's inputs are evidence, not proof, of behaviour preservation; an alarm on this change is "
                            "triaged by reading the change",
                }
                json.dump(m, open(os.path.join(dst, "meta.json"), "w"), indent=1)
            k += 1


if __name__ == "__main__":
    main()
