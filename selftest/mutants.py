"""Single-edit variants of /repo used to test the checkers both ways.

MUTANTS: (name, property whose check must fire, [(file, old, new), ...])  — behaviour-changing edits
BENIGN : (name, [properties whose checks must stay silent], edits)        — behaviour-preserving edits
Anchors are exact source fragments that must occur once; a stale anchor is reported as BROKEN-VARIANT
(the self-test corpus needs maintenance, not the checker).
"""

RS = "scriptplan/core/resource_scenario.py"
TS = "scriptplan/core/task_scenario.py"
PJ = "scriptplan/core/project.py"
LM = "scriptplan/core/limits.py"
WH = "scriptplan/core/working_hours.py"
SB = "scriptplan/scheduler/scoreboard.py"
TP = "scriptplan/parser/tjp_parser.py"
PL = "scriptplan/cli/plan.py"
MN = "scriptplan/cli/main.py"
PR = "scriptplan/core/property.py"
RB = "scriptplan/report/report_base.py"
TR = "scriptplan/report/table_report.py"
TK = "scriptplan/report/task_report.py"
RP = "scriptplan/report/report.py"
WP = "scriptplan/_cython/working_hours_cy.pyx"
SP = "scriptplan/_cython/scoreboard_cy.pyx"
TU = "scriptplan/_cython/time_utils_cy.pyx"
MP = "scriptplan/parser/macro_processor.py"

MUTANTS = [
    # ------------------------------------------------------------------ revert of repaired defect F77 (C11)
    ("c11_backward_deadline_beyond_horizon_unchecked", "C11", [(TS, "                    if self.currentSlotIdx > self.project.dateToIdx(self.project[\"end\"]):\n                        self.isRunAway = True\n                        return False\n", "")]),
    # ------------------------------------------------------------------ revert of repaired defect F76 (C13)
    ("c13_index_times_resolution_in_c_int", "C13", [(TU, "    seconds = <long long>idx * granularity\n", "    seconds = idx * granularity\n")]),
    # ------------------------------------------------------------------ revert of repaired defect F75 (C04 / C07)
    ("c04_inherited_option_dict_cloned_whole", "C04", [(PR, "    if isinstance(value, dict):\n        return {key: deep_clone(item) for key, item in value.items()}\n", "")]),
    # ------------------------------------------------------------------ revert of repaired defect F74 (C11)
    ("c11_horizon_estimate_unguarded", "C11", [(PJ, "        try:\n            min_end_date = self.attributes[\"start\"] + timedelta(days=total_days_needed)\n        except OverflowError:\n            return\n", "        min_end_date = self.attributes[\"start\"] + timedelta(days=total_days_needed)\n")]),
    # ------------------------------------------------------------------ revert of repaired defect F73 (C09)
    ("c09_priority_zero_accepted", "C09", [(TP, "        if not 1 <= priority <= 1000:", "        if not 0 <= priority <= 1000:")]),
    # ------------------------------------------------------------------ revert of repaired defect F71 (C11)
    ("c11_scenario_duration_stored_as_text", "C11", [(TP, "                        if attr_key in (\"duration\", \"length\"):\n", "                        if attr_key in ():\n")]),
    # ------------------------------------------------------------------ revert of repaired defect F70 (C19)
    ("c19_stdin_empty_by_text_strip", "C19", [(PL, "            if not stdin_bytes.strip():", "            if not stdin_bytes.decode(\"utf-8\").strip():")]),
    ("c20_output_dir_env_first", "C20", [(MN, "        output_dir = self.args.output_dir or \"./\"", "        output_dir = os.environ.get(\"PLAN_OUTPUT_DIR\", self.args.output_dir or \"./\")")]),
    # ------------------------------------------------------------------ revert of repaired defect F69 (C12)
    ("c12_scenarios_scheduled_again", "C12", [(PJ, "            if scIdx in self._scheduledScenarios:\n                continue\n            self._scheduledScenarios.add(scIdx)\n", "")]),
    # ------------------------------------------------------------------ reverts of repaired defects F66, F67, F68 (C19)
    ("c19_file_name_quoted_in_temp_copy", "C19", [(PL, "            f.write(\"# Copy of the input with an auto-report added by plan CLI\\n\\n\")", "            f.write(f\"# Original file: {tjp_path}\\n\")\n            f.write(\"# Auto-report added by plan CLI\\n\\n\")")]),
    ("c19_probe_oserror_unmapped", "C19", [(PL, "    try:\n        exists = path.exists()\n        is_file = exists and path.is_file()\n    except OSError as e:\n        raise FileNotFoundError(f\"File not found: {tjp_path} ({e})\") from e\n", "    exists = path.exists()\n    is_file = exists and path.is_file()\n")]),
    ("c19_file_empty_by_size_only", "C19", [(PL, "        blank = not path.stat().st_size or not path.read_bytes().strip()", "        blank = not path.stat().st_size")]),
    # ------------------------------------------------------------------ revert of repaired defect F65 (C11)
    ("c11_inverted_pinned_dates_accepted", "C11", [(PJ, "                    if start <= end:\n                        task[(\"scheduled\", scIdx)] = True\n                    else:", "                    if True:\n                        task[(\"scheduled\", scIdx)] = True\n                    else:")]),
    # ------------------------------------------------------------------ revert of repaired defect F64 (C06)
    ("c06_fraction_of_a_second_rounds_to_zero", "C06", [(TS, "        seconds_rounded = max(1, round(seconds_into_slot))", "        seconds_rounded = round(seconds_into_slot)")]),
    # ------------------------------------------------------------------ revert of repaired defect F63 (C05)
    ("c05_limit_minutes_read_as_months", "C05", [(TP, "(\\d+(?:\\.\\d+)?)\\s*(min|[hdwmy])?\", str(duration_str))", "(\\d+(?:\\.\\d+)?)\\s*([hdwmy]?)\", str(duration_str))")]),
    # ------------------------------------------------------------------ round 3 (second batch)
    ("c02_day_range_sorted_ends", "C02", [(TP, "            if start_idx <= end_idx:\n                return day_order[start_idx : end_idx + 1]\n            else:\n                # Wrap around (unusual but supported)\n                return day_order[start_idx:] + day_order[: end_idx + 1]", "            if start_idx > end_idx:\n                start_idx, end_idx = end_idx, start_idx\n            return day_order[start_idx : end_idx + 1]")]),
    ("c02_day_range_no_wrap", "C02", [(TP, "                return day_order[start_idx:] + day_order[: end_idx + 1]", "                return day_order[start_idx : end_idx + 1]")]),
    ("c18_csv_drops_empty_rows", "C18", [(RP, "            writer.writerows(csv_data)", "            writer.writerows(row for row in csv_data if any(row))")]),
    ("c19_generate_skips_empty_table", "C19", [(RP, "        for fmt in formats:\n            if not self.name:", "        if getattr(self.content, \"table\", None) is not None and not self.content.table.body_lines:\n            return 0\n\n        for fmt in formats:\n            if not self.name:")]),
    ("c15_strip_shortcut_forgets_block_comments", "C15", [(MP, "    result = []\n    i = 0\n    n = len(text)\n\n    while i < n:\n        ch = text[i]\n        if ch in \"\\\"'\":", "    if \"#\" not in text and \"//\" not in text:\n        return text\n    result = []\n    i = 0\n    n = len(text)\n\n    while i < n:\n        ch = text[i]\n        if ch in \"\\\"'\":")]),
    ("c15_builder_kept_on_parser", "C15", [(TP, "        self.parser: Lark = Lark(self.grammar, start=\"start\", parser=\"lalr\")\n", "        self.parser: Lark = Lark(self.grammar, start=\"start\", parser=\"lalr\")\n        self._builder = ModelBuilder()\n"),
                                           (TP, "        builder = ModelBuilder()\n        project = builder.build(data)", "        project = self._builder.build(data)")]),
    ("c14_date_checked_against_month_table", "C14", [(TP, "        val = self._get_value(items[0])\n        try:\n            return datetime.strptime(val, \"%Y-%m-%d\")", "        val = self._get_value(items[0])\n        from scriptplan.utils.time import TjTime\n        if int(val[8:10]) > TjTime.MON_MAX[int(val[5:7])]:\n            raise ValueError(f\"Invalid date {val}\")\n        try:\n            return datetime.strptime(val, \"%Y-%m-%d\")")]),
    ("c17_idx_date_memo_not_cleared_by_resolution", "C17", [
        (PJ, "        self.scoreboardNoLeaves: Optional[Scoreboard] = None\n", "        self.scoreboardNoLeaves: Optional[Scoreboard] = None\n        self._idxDates: dict[int, Any] = {}\n"),
        (PJ, "        if _USE_CYTHON:\n            return project_idx_to_date(idx, self.attributes[\"start\"], self.attributes[\"scheduleGranularity\"])\n", "        kept = self._idxDates.get(idx)\n        if kept is not None:\n            return kept\n        if _USE_CYTHON:\n            kept = project_idx_to_date(idx, self.attributes[\"start\"], self.attributes[\"scheduleGranularity\"])\n            self._idxDates[idx] = kept\n            return kept\n"),
        (PJ, "        self.attributes[key] = value\n        # When timingresolution is set", "        self.attributes[key] = value\n        if key in (\"start\", \"scheduleGranularity\"):\n            self._idxDates.clear()\n        # When timingresolution is set")]),
    ("c11_date_to_idx_clamps_by_default", "C11", [(PJ, "        idx: int = math.floor(diff_seconds / self.attributes[\"scheduleGranularity\"])\n        return idx", "        idx: int = math.floor(diff_seconds / self.attributes[\"scheduleGranularity\"])\n        if forceIntoProject:\n            idx = min(max(idx, 0), self.scoreboardSize() - 1)\n        return idx")]),
    ("c09_inherited_value_not_passed_on", "C09", [(PR, "                    parent_attr = self.parent._get_scenario_attribute(attrDef.id, scenarioIdx)\n                    if parent_attr.provided or parent_attr.inherited:", "                    parent_attr = self.parent._get_scenario_attribute(attrDef.id, scenarioIdx)\n                    if parent_attr.provided:")]),
    ("c08_children_get_own_end_only", "C08", [(PJ, "                    propagate_end_to_children(child, effective_end)", "                    propagate_end_to_children(child, task_end)")]),
    ("c15_macro_calls_by_regex", "C15", [(MP, "    def _expand_once(self, content: str) -> str:\n        \"\"\"Perform one pass of macro expansion.\"\"\"\n", "    def _expand_once(self, content: str) -> str:\n        \"\"\"Perform one pass of macro expansion.\"\"\"\n        return re.sub(r\"\\$\\{([^{}]*)\\}\", lambda m: self._expand_macro_call(m.group(1).strip()), content)\n")]),
    # ------------------------------------------------------------------ reverts of repaired defects F61 (C13), F62 (C11)
    ("c13_fallback_uses_unimported_math", "C13", [(PJ, "from datetime import timedelta\nimport math\n", "from datetime import timedelta\n")]),
    ("c11_timing_resolution_zero_accepted", "C11", [(TP, "            if seconds <= 0:\n                raise ValueError(f\"timingresolution must be a positive duration, not '{duration}'\")\n", "")]),
    # ------------------------------------------------------------------ round 3: divisors, completeness must-facts, horizon as a date, interval loops
    ("c11_declared_efficiency_divides", "C11", [(TS, "        efficiency = resource.get(\"efficiency\", self.scenarioIdx) or 1.0\n\n        # Calculate required duration", "        efficiency = resource.get(\"efficiency\", self.scenarioIdx)\n        if efficiency is None:\n            efficiency = 1.0\n\n        # Calculate required duration")]),
    ("c10_flag_checked_for_leaves_only", "C10", [(TS, "            if not child.get(\"scheduled\", self.scenarioIdx):\n                return", "            if child.leaf() and not child.get(\"scheduled\", self.scenarioIdx):\n                return")]),
    ("c10_all_children_filtered", "C10", [(PJ, "all(child.get(\"scheduled\", scIdx) for child in children)", "all(child.get(\"scheduled\", scIdx) for child in children if child.leaf())")]),
    ("c09_root_bounded_by_horizon", "C09", [(PJ, "propagate_end_to_children(task, task.get(\"end\", scIdx))", "propagate_end_to_children(task, task.get(\"end\", scIdx) or self[\"end\"])")]),
    ("c08_global_leave_one_slot_more", "C08", [(RS, "                    end_idx = self.project.dateToIdx(leave.interval.end)\n                    for i in range(max(start_idx, 0), min(end_idx, size)):\n                        sb = self.scoreboard[i]\n                        val =", "                    end_idx = self.project.dateToIdx(leave.interval.end) + 1\n                    for i in range(max(start_idx, 0), min(end_idx, size)):\n                        sb = self.scoreboard[i]\n                        val =")]),
    ("c02_own_leave_starts_one_slot_late", "C02", [(RS, "                    start_idx = self.project.dateToIdx(leave.interval.start)\n                    end_idx = self.project.dateToIdx(leave.interval.end)\n                    for i in range(max(start_idx, 0), min(end_idx, size)):\n                        sb = self.scoreboard[i]\n                        if sb is not None:", "                    start_idx = self.project.dateToIdx(leave.interval.start) + 1\n                    end_idx = self.project.dateToIdx(leave.interval.end)\n                    for i in range(max(start_idx, 0), min(end_idx, size)):\n                        sb = self.scoreboard[i]\n                        if sb is not None:")]),
    ("c03_unbooked_slot_credited_whole", "C03", [(RS, "        available_seconds = self.getAvailableSecondsInSlot(sb_idx)\n        efficiency", "        available_seconds = self.getAvailableSecondsInSlot(sb_idx) if self.scoreboard[sb_idx] is not None else float(self.project.attributes.get(\"scheduleGranularity\", 3600))\n        efficiency")]),
    ("c16_limits_chain_kept_on_task", "C16", [(TS, "        all_limits = []\n        task: Optional[Any] = self.property\n        while task is not None:\n            limits = task.get(\"limits\", self.scenarioIdx)\n            if limits:\n                all_limits.append(limits)\n            task = task.parent\n        return all_limits", "        all_limits = getattr(self.property, \"_limitsChain\", None)\n        if all_limits is not None:\n            return all_limits\n        all_limits = []\n        task: Optional[Any] = self.property\n        while task is not None:\n            limits = task.get(\"limits\", self.scenarioIdx)\n            if limits:\n                all_limits.append(limits)\n            task = task.parent\n        self.property._limitsChain = all_limits\n        return all_limits")]),
    # ------------------------------------------------------------------ revert of repaired defect F60 (C06)
    ("c06_alap_milestone_slot_start", "C06", [(TS, "                    date = self.backwardBound or self.project.idxToDate(slot_idx)", "                    date = self.project.idxToDate(slot_idx)")]),
    # ------------------------------------------------------------------ revert of repaired defect F59 (C19)
    ("c19_stdin_read_as_text", "C19", [(PL, "            stdin_bytes = sys.stdin.buffer.read()\n            try:\n                stdin_bytes.decode(\"utf-8\")\n            except UnicodeDecodeError as e:\n                raise FileNotFoundError(f\"Cannot read stdin: {e}\") from e\n",
                                         "            stdin_content = sys.stdin.read()\n            stdin_bytes = stdin_content.encode(\"utf-8\", \"surrogateescape\")\n")]),
    # ------------------------------------------------------------------ revert of repaired defect F58 (C18)
    ("c18_cost_ignores_allocation_options", "C18", [(TS, "                candidates = list(res.get(\"resources\", [])) + list(res.get(\"options\", {}).get(\"alternative\", []))", "                candidates = [res]")]),
    # ------------------------------------------------------------------ revert of repaired defect F56 (C16)
    ("c16_nested_scenario_ignores_parent_override", "C16", [(TP, "                        while pending_scenarios:\n                            nested = pending_scenarios.pop()\n                            nested_idx = all_scenarios.index(nested)\n                            if (id(obj), attr_key, nested_idx) not in explicit:\n                                obj[(attr_key, nested_idx)] = attr_value\n                                pending_scenarios.extend(nested.children)\n", "")]),
    # ------------------------------------------------------------------ revert of repaired defect F54 (C15)
    ("c15_macros_scan_comments", "C15", [(MP, "        content = strip_comments(content)\n\n", "")]),
    # ------------------------------------------------------------------ reverts of repaired defects F52, F53 (C17)
    ("c17_date_to_idx_truncates", "C17", [(SB, "        idx = math.floor(diff / self.resolution)", "        idx = int(diff / self.resolution)")]),
    ("c17_zero_length_interval_reported", "C17", [(SB, "                        if start < current_idx:\n                            intervals.append(", "                        if True:\n                            intervals.append(")]),
    # ------------------------------------------------------------------ revert of repaired defect F51 (C11)
    ("c11_macro_size_unbounded", "C11", [(MP, "            if len(content) > max_size:\n", "            if False:\n")]),
    # ------------------------------------------------------------------ revert of repaired defect F50 (C09)
    ("c09_alap_anchor_follows_horizon", "C09", [(TS, "                    latest_end = getattr(self.project, \"declaredEnd\", None) or self.project[\"end\"]", "                    latest_end = self.project[\"end\"]")]),
    # ------------------------------------------------------------------ reverts of repaired defect F48 (C02)
    ("c02_shift_leaves_not_consulted", "C02", [(RS, "            for leave in shift.get(\"leaves\", self.scenarioIdx) or []:\n                if hasattr(leave, \"interval\") and leave.interval and leave.interval.start <= date < leave.interval.end:\n                    return False\n\n", "")]),
    # ------------------------------------------------------------------ revert of repaired defect F47 (C02)
    ("c02_booking_weeks_as_hours", "C02", [(TP, "                            elif unit == \"w\":\n                                delta = timedelta(weeks=num)\n", "")]),
    # ------------------------------------------------------------------ reverts of repaired defect F45 (C02)
    ("c02_wrapping_shift_covers_own_morning", "C02", [(WH, "                if slot_minutes >= start_minutes:\n                    return True", "                if slot_minutes >= start_minutes or slot_minutes < end_minutes:\n                    return True")]),
    ("c02_no_hours_day_returns_early", "C02", [(WH, "        slot_minutes = dt.hour * 60 + dt.minute\n", "        if weekday not in self._hours or not self._hours[weekday]:\n            return False\n\n        slot_minutes = dt.hour * 60 + dt.minute\n")]),
    # ------------------------------------------------------------------ revert of repaired defect F44 (C03)
    ("c03_all_alternatives_as_team", "C03", [(TS, "        alternative_resources = [best_alternative]\n", "        alternative_resources = list(alternative_resources)\n")]),
    # ------------------------------------------------------------------ revert of repaired defect F42 (C03)
    ("c03_only_last_member_trimmed", "C03", [(TS, "        for member in getattr(self, \"_selectedResources\", None) or []:\n            if member is resource:\n                continue", "        for member in []:\n            if member is resource:\n                continue")]),
    # ------------------------------------------------------------------ revert of repaired defect F41 (C06)
    ("c06_alap_single_slot_end", "C06", [(TS, "            if first_booked_slot is None and self.doneEffort > previous_effort:\n                first_booked_slot = self.currentSlotIdx\n\n", "")]),
    # ------------------------------------------------------------------ reverts of repaired defects F36-F40
    ("c04_milestone_slot_start", "C04", [(TS, "                    if date is not None and self.slotStartOffset > 0:\n                        from datetime import timedelta\n\n                        date = date + timedelta(seconds=self.slotStartOffset)\n", "")]),
    ("c08_offset_carried_along", "C08", [(TS, "            self.slotStartOffset = 0.0\n            if self.currentSlotIdx < lowerLimit", "            if self.currentSlotIdx < lowerLimit")]),
    ("c04_successor_own_edge_only", "C04", [(TS, "                if self._dependsOnMe(pred):\n                    successors.append(task)", "                if pred is self.property:\n                    successors.append(task)")]),
    ("c04_terminal_own_depends_only", "C04", [(PJ, "            task_scenario = task.data[scIdx] if task.data else None\n            if task_scenario is not None:\n                deps = task_scenario.getAllDependencies()\n            else:\n                deps = task.get(\"depends\", scIdx) or []\n            for dep in deps:\n                if isinstance(dep, dict):\n                    pred = dep.get(\"task\")\n                    onstart = dep.get(\"onstart\", False)",
                                                "            deps = task.get(\"depends\", scIdx) or []\n            for dep in deps:\n                if isinstance(dep, dict):\n                    pred = dep.get(\"task\")\n                    onstart = dep.get(\"onstart\", False)")]),
    ("c08_container_end_only_from_dated_roots", "C08", [(PJ, "                propagate_end_to_children(task, task.get(\"end\", scIdx))", "                if task.get(\"end\", scIdx):\n                    propagate_end_to_children(task, task.get(\"end\", scIdx))")]),
    # ------------------------------------------------------------------ reverts of repaired defects F33, F34 (C04)
    ("c04_gaplength_one_hour_slots", "C04", [(TS, "gap_slots = int(round(gap_hours * 3600 / granularity))", "gap_slots = int(gap_hours)")]),
    ("c04_gapduration_working_units", "C04", [(TS, "ALL:self._parse_duration(gapduration, calendar=True)", "self._parse_duration(gapduration)")]),
    # ------------------------------------------------------------------ revert of repaired defect F32 (C02)
    ("c02_marker_slot_reoffered", "C02", [(RS, "        if isinstance(self.scoreboard[sb_idx], int):\n            return False\n\n", "")]),
    # ------------------------------------------------------------------ reverts of repaired defect F31 (C10, C07)
    ("c10_rollup_parents_first", "C07", [(PJ, "        for task in reversed(list(self.tasks)):\n            if task.leaf():\n                continue  # Skip leaf tasks",
                                          "        for task in self.tasks:\n            if task.leaf():\n                continue  # Skip leaf tasks")]),
    ("c10_no_rollup_before_first_scan", "C07", [(PJ, "        self._updateContainerTaskStatus(scIdx)\n\n        while tasks:", "        while tasks:")]),
    ("c07_no_rollup_before_first_scan", "C07", [(PJ, "        self._updateContainerTaskStatus(scIdx)\n\n        while tasks:", "        while tasks:")]),
    # ------------------------------------------------------------------ reverts of repaired defects F28-F30 (C11)
    ("c11_leave_before_start_unclipped", "C11", [(RS, "ALL:range(max(start_idx, 0), min(end_idx, size))", "range(start_idx, min(end_idx, size))")]),
    ("c11_header_without_end_accepted", "C11", [(TP, "        if project.attributes.get(\"end\") is None:\n            raise ValueError(",
                                                 "        if False:\n            raise ValueError(")]),
    ("c11_walk_begins_outside_window", "C11", [(TS, "        if self.currentSlotIdx < lowerLimit or self.currentSlotIdx > upperLimit:\n            self.isRunAway = True\n            return False\n\n        previous_effort",
                                                "        previous_effort")]),
    ("c11_prepass_ignores_frame", "C11", [(PJ, "                if any(d and not (self[\"start\"] <= d <= self[\"end\"]) for d in (start, end)):\n                    continue\n", "")]),
    # ------------------------------------------------------------------ C01
    ("c01_book_unguarded", "C01", [(RS, "        if not force and not self.available(sb_idx):\n            return 0.0\n\n        # Make sure task is in duties list",
                                    "        # Make sure task is in duties list")]),
    ("c01_book_full_slot", "C01", [(RS, "        available_seconds = self.getAvailableSecondsInSlot(sb_idx)\n        efficiency = self.property.get(\"efficiency\"",
                                    "        available_seconds = float(self.project.attributes.get(\"scheduleGranularity\", 3600))\n        efficiency = self.property.get(\"efficiency\"")]),
    ("c01_remaining_ignores_used", "C01", [(RS, "        return float(max(0.0, slot_duration - seconds_used))", "        return float(max(0.0, slot_duration))")]),
    ("c01_available_le_flipped", "C01", [(RS, "        if available_seconds <= 0:\n            return False", "        if available_seconds < 0:\n            return False")]),
    ("c01_release_full_slot_again", "C01", [(TS, "res_scenario.slotSecondsUsed[self.currentSlotIdx] = old_total - booked_seconds + seconds_into_slot",
                                             "res_scenario.slotSecondsUsed[self.currentSlotIdx] = old_total - slot_duration_seconds + seconds_into_slot")]),
    ("c01_offset_write_unguarded", "C01", [(TS, "            if current_used < self.slotStartOffset:\n                res_scenario.slotSecondsUsed[self.currentSlotIdx] = self.slotStartOffset",
                                            "            if current_used > self.slotStartOffset:\n                res_scenario.slotSecondsUsed[self.currentSlotIdx] = self.slotStartOffset")]),
    ("c01_occupied_slot_reoffered", "C01", [(RS, "        elif self.scoreboard[sb_idx] is not None:\n            return False\n\n        limits = self.property.get",
                                             "        limits = self.property.get")]),
    ("c01_forced_booking", "C01", [(TS, "res_scenario.book(slot_idx, self.property)", "res_scenario.book(slot_idx, self.property, True)")]),
    # ------------------------------------------------------------------ C02
    ("c02_leave_end_inclusive", "C02", [(RS, "ALL:leave.interval.start <= date < leave.interval.end", "leave.interval.start < date < leave.interval.end")]),
    ("c02_weekend_gt5", "C02", [(PJ, "        if weekday >= 5:  # Saturday or Sunday", "        if weekday > 5:  # Saturday or Sunday")]),
    ("c02_hours_le17", "C02", [(PJ, "        result: bool = 9 <= hour < 17  # Within 9am-5pm", "        result: bool = 9 <= hour <= 17  # Within 9am-5pm")]),
    ("c02_tz_not_passed_own_hours", "C02", [(RS, "            result2: bool = workinghours.onShift(sb_idx, timezone=resource_tz)", "            result2: bool = workinghours.onShift(sb_idx)")]),
    ("c02_single_day_vacation_empty", "C02", [(TP, "                    start_date = value.get(\"start\")\n                    end_date = value.get(\"end\", start_date)\n                    # A single date means that whole day (same rule as the global vacation)\n                    if start_date and (end_date is None or end_date == start_date):\n                        from datetime import timedelta\n\n                        end_date = start_date + timedelta(days=1)\n\n                    if start_date and end_date:\n                        interval = TimeInterval(start_date, end_date)\n                        type_idx = Leave.Types.get(\"annual\", 5)  # Vacation",
                                               "                    start_date = value.get(\"start\")\n                    end_date = value.get(\"end\", start_date)\n\n                    if start_date and end_date:\n                        interval = TimeInterval(start_date, end_date)\n                        type_idx = Leave.Types.get(\"annual\", 5)  # Vacation")]),
    ("c02_cross_midnight_and", "C02", [(WH, "                if slot_minutes >= start_minutes:\n                    return True", "                if slot_minutes >= start_minutes and slot_minutes < end_minutes:\n                    return True")]),
    ("c02_weekday_before_tz", "C02", [(WH, "        weekday = dt.weekday()\n\n        slot_minutes = dt.hour", "        weekday = self.project.idxToDate(slot_idx).weekday()\n\n        slot_minutes = dt.hour")]),
    ("c02_vacations_ignored", "C02", [(RS, "        vacations = self.project.attributes.get(\"vacations\", [])\n        if vacations:\n            for vac in vacations:\n                if hasattr(vac, \"interval\") and vac.interval and vac.interval.start <= date < vac.interval.end:\n                    return False\n",
                                       ""),
                                      (PJ, "        vacations = self.attributes.get(\"vacations\", [])\n        for vac in vacations:", "        vacations = []\n        for vac in vacations:")]),
    # ------------------------------------------------------------------ C03
    ("c03_gate_removed", "C03", [(TS, "            if not all_available:\n                # Can't book - one or more resources unavailable\n                return\n", "")]),
    ("c03_reselect_every_slot", "C03", [(TS, "        if not hasattr(self, \"_selectedResources\") or self._selectedResources is None:\n            self._selectedResources = self._selectBestResources(",
                                         "        if True:\n            self._selectedResources = self._selectBestResources(")]),
    ("c03_effort_credited_per_member", "C03", [(TS, "                total_effort_this_slot = max(total_effort_this_slot, effort_gained)\n", "                total_effort_this_slot = max(total_effort_this_slot, effort_gained)\n                self.doneEffort += effort_gained\n")]),
    ("c03_select_both_lists", "C03", [(TS, "            if not hasattr(self, \"_selectedAlternative\"):\n                self._selectedAlternative = False\n            return primary_resources",
                                       "            if not hasattr(self, \"_selectedAlternative\"):\n                self._selectedAlternative = False\n            return primary_resources + alternative_resources")]),
    ("c03_book_without_limit_check", "C03", [(TS, "        if not self.limitsOk(slot_idx, resource):\n            return 0.0\n\n        # Book the resource", "        # Book the resource")]),
    ("c03_completion_test_skipped", "C03", [(TS, "            self.bookResources()\n\n            # doneEffort is a sum", "            self.bookResources()\n            if forward is None:\n                return True\n\n            # doneEffort is a sum")]),
    # ------------------------------------------------------------------ C04
    ("c04_own_deps_only", "C04", [(TS, "            parent_deps = parent.get(\"depends\", self.scenarioIdx) or []\n            all_deps.extend(parent_deps)\n", "            parent_deps = []\n")]),
    ("c04_gap_subtracted_forward", "C04", [(TS, "                                dep_time = dep_time + timedelta(hours=gap_hours)", "                                dep_time = dep_time - timedelta(hours=gap_hours)")]),
    ("c04_min_accumulator_forward", "C04", [(TS, "                            if dep_time > earliest_start:\n                                earliest_start = dep_time", "                            if dep_time < earliest_start:\n                                earliest_start = dep_time")]),
    ("c04_onstart_swapped", "C04", [(TS, "dep_time = t.get(\"start\", self.scenarioIdx) if onstart else t.get(\"end\", self.scenarioIdx)", "dep_time = t.get(\"end\", self.scenarioIdx) if onstart else t.get(\"start\", self.scenarioIdx)")]),
    ("c04_alap_gap_dropped", "C04", [(TS, "                            gap_hours = self._gapToSuccessor(successor)\n", "                            gap_hours = 0\n")]),
    ("c04_ready_ignores_unscheduled", "C04", [(TS, "            if t and not t.get(\"scheduled\", self.scenarioIdx):\n                return False\n", "            if t and not t.get(\"scheduled\", self.scenarioIdx):\n                pass\n")]),
    ("c04_end_inherited", "C04", [(PJ, "            [\"end\", \"End\", DateAttribute, False, False, True, None],\n            [\"flags\"", "            [\"end\", \"End\", DateAttribute, True, False, True, None],\n            [\"flags\"")]),
    ("c04_precedes_drops_gap", "C04", [(TP, "                                    \"gapduration\": prec_item.get(\"gapduration\"),\n", "")]),
    ("c04_successors_own_only", "C04", [(TS, "            if task_scenario is not None:\n                deps = task_scenario.getAllDependencies()\n            else:\n                deps = task.get(\"depends\", self.scenarioIdx) or []\n            for dep in deps:\n                if isinstance(dep, dict):\n                    pred = dep.get(\"task\")\n                elif hasattr(dep, \"task\"):\n                    pred = dep.task\n                else:\n                    pred = dep\n\n                if self._dependsOnMe(pred):\n                    successors.append(task)",
                                         "            deps = task.get(\"depends\", self.scenarioIdx) or []\n            for dep in deps:\n                if isinstance(dep, dict):\n                    pred = dep.get(\"task\")\n                elif hasattr(dep, \"task\"):\n                    pred = dep.task\n                else:\n                    pred = dep\n\n                if self._dependsOnMe(pred):\n                    successors.append(task)")]),
    # ------------------------------------------------------------------ C05
    ("c05_limit_le", "C05", [(LM, "            if self.upper:\n                return count < self.value\n            else:\n                return count >= self.value", "            if self.upper:\n                return count <= self.value\n            else:\n                return count >= self.value")]),
    ("c05_parent_limits_not_checked", "C05", [(RS, "            if parent_limits and hasattr(parent_limits, \"ok\") and not parent_limits.ok(sb_idx):\n                return False\n", "            if parent_limits and hasattr(parent_limits, \"ok\") and not parent_limits.ok(sb_idx):\n                pass\n")]),
    ("c05_parent_limits_not_incremented", "C05", [(RS, "            if parent_limits and hasattr(parent_limits, \"inc\"):\n                parent_limits.inc(sb_idx)\n", "            if parent_limits and hasattr(parent_limits, \"inc\"):\n                pass\n")]),
    ("c05_fail_open_beyond_end", "C05", [(LM, "                if not self.open_ended:\n                    return True  # Outside interval, OK\n                count = 0  # Nothing booked yet in a period beyond the original end", "                return True  # Outside interval, OK")]),
    ("c05_task_inc_wrong_resource", "C05", [(TS, "            limits.inc(sbIdx, resource=resource.id if resource else None)", "            limits.inc(sbIdx, resource=None)")]),
    ("c05_tasklimits_parent_chain_cut", "C05", [(TS, "                all_limits.append(limits)\n            task = task.parent", "                all_limits.append(limits)\n            task = None")]),
    ("c05_no_reset", "C05", [(TS, "        if limits:\n            limits.reset()\n", "        if limits:\n            pass\n")]),
    ("c05_weekly_period_8days", "C05", [(LM, "        elif name == \"weeklymax\":\n            period = 60 * 60 * 24 * 7  # 1 week in seconds", "        elif name == \"weeklymax\":\n            period = 60 * 60 * 24 * 8  # 1 week in seconds")]),
    # ------------------------------------------------------------------ C06
    ("c06_end_from_slot_start", "C06", [(TS, "precise_end = slot_start + timedelta(seconds=seconds_taken_before) + timedelta(seconds=seconds_rounded)", "precise_end = slot_start + timedelta(seconds=seconds_rounded)")]),
    ("c06_start_without_offset", "C06", [(TS, "                    if start_date is not None and hasattr(self, \"slotStartOffset\") and self.slotStartOffset > 0:\n                        start_date = start_date + timedelta(seconds=self.slotStartOffset)\n", "")]),
    ("c06_alap_end_plus0", "C06", [(TS, "            actual_end = self.project.idxToDate(end_slot + 1)", "            actual_end = self.project.idxToDate(end_slot)")]),
    ("c06_milestone_end_differs", "C06", [(TS, "                        date = date + timedelta(seconds=self.slotStartOffset)\n                    self.property[(\"start\", self.scenarioIdx)] = date\n                    self.property[(\"end\", self.scenarioIdx)] = date\n            else:",
                                           "                        date = date + timedelta(seconds=self.slotStartOffset)\n                    self.property[(\"start\", self.scenarioIdx)] = date\n                    self.property[(\"end\", self.scenarioIdx)] = self.project.idxToDate(slot_idx + 1)\n            else:")]),
    ("c06_completion_gt", "C06", [(TS, "            if self.doneEffort >= effort - 1e-9:", "            if self.doneEffort > effort:")]),
    ("c06_start_on_failed_booking", "C06", [(TS, "            if effort_gained > 0:\n                booked_any = True", "            if effort_gained >= 0:\n                booked_any = True")]),
    # ------------------------------------------------------------------ C07 / C08 / C09
    ("c07_priority_ascending", "C07", [(PJ, "            return (-prio, -crit, seq)", "            return (prio, -crit, seq)")]),
    ("c07_tiebreak_reversed", "C07", [(PJ, "            return (-prio, -crit, seq)", "            return (-prio, -crit, -seq)")]),
    ("c07_no_restart", "C07", [(PJ, "                taskToRemove = task\n                break\n", "                taskToRemove = task\n")]),
    ("c07_cursor_step2", "C07", [(TS, "        delta = 1 if forward else -1", "        delta = 2 if forward else -1")]),
    ("c07_cursor_starts_after_bound", "C07", [(TS, "                    self.currentSlotIdx = slot_idx\n            else:", "                    self.currentSlotIdx = slot_idx + 1\n            else:")]),
    ("c07_sorted_reverse", "C07", [(PJ, "        tasks.sort(key=sort_key)", "        tasks.sort(key=sort_key, reverse=True)")]),
    ("c08_skip_slot_without_booking", "C08", [(TS, "            effort_before = self.doneEffort\n            self.bookResources()", "            effort_before = self.doneEffort\n            if self.currentSlotIdx is not None and self.currentSlotIdx % 24 == 9:\n                return True\n            self.bookResources()")]),
    ("c08_alap_cursor_minus2", "C08", [(TS, "                    self.currentSlotIdx = self.project.dateToIdx(end_date) - 1", "                    self.currentSlotIdx = self.project.dateToIdx(end_date) - 2")]),
    ("c08_week_index_isocalendar", "C08", [(LM, "            return (slot_monday - start_monday).days // 7", "            return slot_datetime.isocalendar()[1] - self.interval_start.isocalendar()[1]")]),
    ("c09_horizon_shrinks", "C09", [(PJ, "        if min_end_date > self.attributes[\"end\"]:\n            self.attributes[\"end\"] = min_end_date", "        if min_end_date < self.attributes[\"end\"]:\n            self.attributes[\"end\"] = min_end_date")]),
    ("c09_priority_ascending", "C09", [(PJ, "            return (-prio, -crit, seq)", "            return (prio, -crit, seq)")]),
    ("c09_successor_by_name", "C09", [(TS, "                if self._dependsOnMe(pred):\n                    successors.append(task)", "                if pred is not None:\n                    successors.append(task)")]),
    # ------------------------------------------------------------------ C10
    ("c10_containers_on_worklist", "C10", [(PJ, "tasks: list[Any] = [t for t in all_tasks if t.leaf() and not t.get(\"scheduled\", scIdx) and t not in inverted]", "tasks: list[Any] = [t for t in all_tasks if not t.get(\"scheduled\", scIdx) and t not in inverted]")]),
    ("c10_rollup_max_start", "C04", [(PJ, "                if child_start and (min_start is None or child_start < min_start):", "                if child_start and (min_start is None or child_start > min_start):")]),
    ("c10_container_scheduled_early", "C10", [(PJ, "            if not all_scheduled:\n                continue\n", "")]),
    ("c10_group_gets_scoreboard", "C10", [(RS, "        self._effort = 0.0\n        if self.property.leaf():\n            self.initScoreboard()", "        self._effort = 0.0\n        self.initScoreboard()")]),
    ("c10_schedulecontainer_min_end", "C10", [(TS, "            if n_end is None or child_end > n_end:", "            if n_end is None or child_end < n_end:")]),
    # ------------------------------------------------------------------ C11
    ("c11_unbounded_gap_loop", "C11", [(TS, "                                while working_slots < gap_slots and dep_time_idx <= horizon_idx:", "                                while working_slots < gap_slots:")]),
    ("c11_recursion_on_deps", "C11", [(PJ, "            pending.extend(reversed(preds))\n", "            for pred in preds:\n                self._markTaskALAP(pred, scIdx, processed, reverse_deps)\n")]),
    ("c11_negative_index_wraps", "C11", [(SB, "        if idx < 0:\n            # A negative slot index is outside the table; do not wrap around to its end\n            raise IndexError(f\"Index {idx} is out of scoreboard range ({self.size - 1})\")\n        return self.sb[idx]", "        return self.sb[idx]")]),
    ("c11_isworkingtime_unchecked", "C11", [(PJ, "        if sbIdx < 0 or sbIdx >= self.scoreboard.size:\n            # Outside the scheduling horizon nothing is working time\n            return False\n", "")]),
    ("c11_macro_cap_removed", "C11", [(MP, "        while \"${\" in content and iteration < max_iterations:", "        while \"${\" in content:")]),
    # ------------------------------------------------------------------ C12
    ("c12_mode_not_reset", "C12", [(PJ, "        if hasattr(AttributeBase, \"setMode\"):\n            AttributeBase.setMode(0)\n", "")]),
    ("c12_default_shared", "C12", [(PR, "            self._value = deep_clone(self._type.default)", "            self._value = self._type.default")]),
    ("c12_random_tiebreak", "C12", [(PJ, "            seq = t.get(\"seqno\") or 0\n            return (-prio, -crit, seq)", "            seq = t.get(\"seqno\") or 0\n            import random\n\n            return (-prio, -crit, seq + random.random() * 0)")]),
    ("c12_set_iteration", "C12", [(PJ, "        for anchor in alap_anchors:\n            anchor_id =", "        for anchor in set(alap_anchors):\n            anchor_id =")]),
    ("c12_reschedule_guard_removed", "C12", [(PJ, "tasks: list[Any] = [t for t in all_tasks if t.leaf() and not t.get(\"scheduled\", scIdx) and t not in inverted]", "tasks: list[Any] = [t for t in all_tasks if t.leaf() and t not in inverted]")]),
    ("c12_clock_in_schedule", "C12", [(PJ, "    def schedule(self) -> bool:\n        # Extend project end if tasks require more time", "    def schedule(self) -> bool:\n        import time as _t\n\n        self.attributes[\"stamp\"] = _t.time()\n        # Extend project end if tasks require more time")]),
    # ------------------------------------------------------------------ C13
    ("c13_pyx_clamp_off_by_one", "C13", [(SP, "        if idx >= size:\n            return size - 1\n\n    return idx", "        if idx >= size:\n            return size\n\n    return idx")]),
    ("c13_fallback_clamp_off_by_one", "C13", [(SB, "            if idx >= self.size:\n                return self.size - 1\n        elif idx < 0 or idx >= self.size:\n            raise IndexError(f\"Date", "            if idx > self.size:\n                return self.size - 1\n        elif idx < 0 or idx >= self.size:\n            raise IndexError(f\"Date")]),
    ("c13_fallback_cross_midnight", "C13", [(WH, "                if end_minutes <= start_minutes and slot_minutes < end_minutes:", "                if end_minutes <= start_minutes and slot_minutes <= end_minutes:")]),
    ("c13_unguarded_fast_call", "C13", [(WH, "        if _USE_CYTHON:\n            return float(calculate_daily_hours(self._hours[weekday]))\n", "        return float(calculate_daily_hours(self._hours[weekday]))\n")]),
    ("c13_pyx_mod_negative", "C13", [(WP, "        prev_weekday = (weekday + 6) % 7", "        prev_weekday = (weekday - 1) % 7")]),
    ("c13_pyx_float_return", "C13", [(WP, "cpdef double calculate_daily_hours(list intervals):", "cpdef float calculate_daily_hours(list intervals):")]),
    ("c13_project_idx_rounding", "C13", [(PJ, "        idx: int = math.floor(diff_seconds / self.attributes[\"scheduleGranularity\"])\n        return idx", "        idx: int = round(diff_seconds / self.attributes[\"scheduleGranularity\"])\n        return idx")]),
    ("c13_collect_min_duration_gt", "C13", [(SP, "            if duration >= min_duration_slots:", "            if duration > min_duration_slots:")]),
    ("c13_setup_directive", "C13", [("setup.py", "                \"cdivision\": True,", "                \"cdivision\": False,")]),
    # ------------------------------------------------------------------ C14
    ("c14_week_index_isocalendar", "C14", [(LM, "            return (slot_monday - start_monday).days // 7", "            iso = slot_datetime.isocalendar()\n            return (iso[0] - self.interval_start.year) * 52 + iso[1]")]),
    ("c14_default_calendar_month", "C14", [(PJ, "        weekday: int = date.weekday()\n        if weekday >= 5:", "        weekday: int = date.weekday()\n        if date.month == 12 and date.day == 25:\n            return False\n        if weekday >= 5:")]),
    ("c14_horizon_branch_on_year", "C14", [(PJ, "        if task_count == 0:\n            return\n", "        if task_count == 0 or self.attributes[\"start\"].year < 2000:\n            return\n")]),
    # ------------------------------------------------------------------ C15
    ("c15_lowercase_lookup", "C15", [(TS, "                    if res.id == alloc:\n                        return res\n            return resource", "                    if res.id.lower() == alloc.lower():\n                        return res\n            return resource")]),
    ("c15_precedes_drops_onstart", "C15", [(TP, "                                    \"onstart\": prec_item.get(\"onstart\", False),\n", "")]),
    ("c15_transformer_method_removed", "C15", [(TP, "    def dep_gaplength(self, items: list[Any]) -> dict[str, str]:\n        return {\"gaplength\": self._get_value(items[0])}\n\n", "")]),
    ("c15_relative_level_off_by_one", "C15", [(TP, "            for _ in range(level - 1):", "            for _ in range(level):")]),
    # ------------------------------------------------------------------ C16
    ("c16_limits_shared", "C16", [(TP, "                        obj[(\"limits\", scIdx)] = limits_obj.copy()", "                        obj[(\"limits\", scIdx)] = limits_obj")]),
    ("c16_literal_scenario_in_schedule", "C16", [(TS, "        effort = self.property.get(\"effort\", self.scenarioIdx) or 0\n        allocations = self.property.get(\"allocate\", self.scenarioIdx)\n\n        if self.currentSlotIdx is None:",
                                                  "        effort = self.property.get(\"effort\", 0) or 0\n        allocations = self.property.get(\"allocate\", self.scenarioIdx)\n\n        if self.currentSlotIdx is None:")]),
    ("c16_horizon_first_scenario_only", "C16", [(PJ, "                    for other_scenario in range(1, self.scenarioCount()):", "                    for other_scenario in range(0):")]),
    ("c16_finish_wrong_scenario", "C16", [(PJ, "            self.finishScenario(scIdx)", "            self.finishScenario(0)")]),
    ("c16_resources_not_prepared", "C16", [(PJ, "        for resource in self.resources:\n            resource.prepareScheduling(scIdx)  # type: ignore[attr-defined]", "        for resource in self.resources:\n            pass")]),
    # ------------------------------------------------------------------ C17
    ("c17_size_without_plus1", "C17", [(SB, "        self.size = math.ceil(diff / granularity) + 1", "        self.size = math.ceil(diff / granularity)")]),
    ("c17_sentinel_zero_again", "C17", [(SB, "                if start < 0:\n                    start = idx", "                if start == 0:\n                    start = idx"),
                                        (SB, "        start = -1  # -1 = no run open (slot 0 is a valid run start)", "        start = 0"),
                                        (SB, "                    duration = 0\n                    start = -1\n", "                    duration = 0\n                    start = 0\n")]),
    ("c17_no_reject_out_of_range", "C17", [(SB, "        elif idx < 0 or idx >= self.size:\n            raise IndexError(f\"Index {idx} is out of scoreboard range ({self.size - 1})\")\n\n        return self.startDate", "        return self.startDate")]),
    ("c17_pyx_idx_to_date_resolution", "C17", [(SP, "    seconds = <long long>idx * resolution\n    return start_date + timedelta(seconds=seconds)", "    seconds = <long long>(idx + 1) * resolution\n    return start_date + timedelta(seconds=seconds)")]),
    ("c17_clip_wrong_bound", "C17", [(SB, "                        if current_idx > eIdx:\n                            current_idx = eIdx", "                        if current_idx > eIdx:\n                            current_idx = sIdx")]),
    # ------------------------------------------------------------------ C18
    ("c18_csv_other_field", "C18", [(TR, "        for line in self.body_lines:\n            rows.append([cell.text for cell in line.cells])", "        for line in self.body_lines:\n            rows.append([cell.tooltip or cell.text for cell in line.cells])")]),
    ("c18_report_marks_scheduled", "C18", [(TK, "            task_line = self._generate_task_line(task, columns, scenario_idx)", "            task[(\"scheduled\", scenario_idx)] = True\n            task_line = self._generate_task_line(task, columns, scenario_idx)")]),
    ("c18_cost_ignores_rate", "C18", [(TS, "            total_cost += allocated_hours * rate", "            total_cost += allocated_hours")]),
    ("c18_start_not_scenario_specific", "C18", [(TR, "        \"start\": (\"Start\", True, Alignment.RIGHT, True),", "        \"start\": (\"Start\", True, Alignment.RIGHT, False),")]),
    ("c18_none_filter_truthy", "C18", [(RB, "            if text == \"@none\":\n                return False\n", "")]),
    ("c18_leaf_filter_always", "C18", [(TK, "        if self.a(\"leafTasksOnly\"):\n            leaf_tasks", "        if True:\n            leaf_tasks")]),
    # ------------------------------------------------------------------ C19
    ("c19_processing_to_stdout", "C19", [(PL, "            click.echo(f\"Processing: {tjp_path.name}\", err=True)", "            click.echo(f\"Processing: {tjp_path.name}\")")]),
    ("c19_exit_code_generation_1", "C19", [(PL, "        if temp_output_dir and temp_output_dir.exists():\n            shutil.rmtree(temp_output_dir)\n\n        sys.exit(2)\n\n    except Exception as e:", "        if temp_output_dir and temp_output_dir.exists():\n            shutil.rmtree(temp_output_dir)\n\n        sys.exit(1)\n\n    except Exception as e:")]),
    ("c19_first_glob_match", "C19", [(PL, "        primary_output = temp_output_dir / f\"{auto_report_id}.{output_format}\"\n        if primary_output not in output_files:", "        primary_output = output_files[0]\n        if primary_output not in output_files:")]),
    ("c19_report_id_not_hash", "C19", [(PL, "                report_data[\"report_id\"] = file_hash", "                report_data[\"report_id\"] = auto_report_id")]),
    ("c19_systemexit_escapes", "C19", [(MN, "    except SystemExit as e:\n        # Library code reports some errors with sys.exit(); a programmatic caller must get a\n        # result back (with the captured message) instead of losing control of the process.\n        error_output = stderr_capture.getvalue()\n        return (False, error_output or f\"Report generation aborted (exit status {e.code})\")\n\n", "")]),
    ("c19_engine_print", "C19", [(MN, "        # Generate reports\n        if not self.args.no_reports and not self.generate_reports():", "        print(\"Generating reports\")\n        # Generate reports\n        if not self.args.no_reports and not self.generate_reports():")]),
    ("c19_empty_file_exit2", "C19", [(PL, "    if blank:\n        raise FileNotFoundError(f\"File is empty: {tjp_path}\")", "    if blank:\n        raise ReportGenerationError(f\"File is empty: {tjp_path}\")")]),
    # ------------------------------------------------------------------ C20
    ("c20_mkstemp_before_read", "C20", [(PL, "    try:\n        with open(tjp_path) as f:\n            original_content = f.read()\n    except (OSError, UnicodeDecodeError) as e:\n        raise FileNotFoundError(f\"Cannot read file: {tjp_path} ({e})\") from e\n\n    # Create temporary file with random suffix (safe for concurrent execution)\n    temp_fd, temp_path = tempfile.mkstemp(suffix=\".tjp\", prefix=\"plan_auto_\")\n    temp_file = Path(temp_path)\n",
                                         "    # Create temporary file with random suffix (safe for concurrent execution)\n    temp_fd, temp_path = tempfile.mkstemp(suffix=\".tjp\", prefix=\"plan_auto_\")\n    temp_file = Path(temp_path)\n    try:\n        with open(tjp_path) as f:\n            original_content = f.read()\n    except (OSError, UnicodeDecodeError) as e:\n        raise FileNotFoundError(f\"Cannot read file: {tjp_path} ({e})\") from e\n")]),
    ("c20_handler_forgets_outdir", "C20", [(PL, "        if stdin_temp_file and stdin_temp_file.exists():\n            stdin_temp_file.unlink()\n        if temp_output_dir and temp_output_dir.exists():\n            shutil.rmtree(temp_output_dir)\n\n        sys.exit(2)\n\n    except Exception as e:",
                                            "        if stdin_temp_file and stdin_temp_file.exists():\n            stdin_temp_file.unlink()\n\n        sys.exit(2)\n\n    except Exception as e:")]),
    ("c20_fixed_report_id", "C20", [(PL, "    random_suffix = secrets.token_hex(8)\n    report_id = f\"plan_auto_{random_suffix}\"", "    random_suffix = secrets.token_hex(8)\n    report_id = \"plan_auto_report\"")]),
    ("c20_output_dir_not_passed", "C20", [(PL, "success, error_msg = run_scriptplan(str(temp_file), str(temp_output_dir))", "success, error_msg = run_scriptplan(str(temp_file))")]),
    ("c20_write_in_cwd", "C20", [(RP, "        output_dir = self.project.outputDir or \"./\"\n        base_name = self.name or self.id", "        output_dir = \"./\"\n        base_name = self.name or self.id")]),
    ("c20_success_path_keeps_stdin_copy", "C20", [(PL, "        if stdin_temp_file and stdin_temp_file.exists():\n            stdin_temp_file.unlink()\n            if verbose:\n                logger.debug(\"Cleaned up stdin temporary file: %s\", stdin_temp_file)\n", "")]),
]

# behaviour-changing edits that the analysis cannot decide: the check must NOT pass silently (exit 1 or exit 2)
UNDECIDED = [
    ("c11_scan_without_progress", "C11", [(MP, "                    result.append(expansion)\n                    i = j\n                    continue", "                    result.append(expansion)\n                    continue")]),
]

# behaviour-preserving edits: the checks named must stay silent
BENIGN = [
    ("b_output_dir_env_as_fallback", ["C20", "C19"], [(MN, "        output_dir = self.args.output_dir or \"./\"", "        output_dir = self.args.output_dir or os.environ.get(\"PLAN_OUTPUT_DIR\") or \"./\"")]),
    # ------------------------------------------------------------------ former mutants that later repairs made behaviour-preserving
    ("b_ledger_emptied_when_slot_table_is_built", ["C01", "C12"], [(RS, "        self.scoreboard = Scoreboard(start, end, granularity, 2)\n        size = self.project.scoreboardSize()\n", "        self.scoreboard = Scoreboard(start, end, granularity, 2)\n        size = self.project.scoreboardSize()\n        self.slotSecondsUsed = {}\n        self.slotTaskUsage = {}\n")]),
    ("b_available_relies_on_slot_table_markers", ["C02", "C08"], [(RS, "        if not self.onShift(sb_idx):\n            return False\n\n        # Check if slot has any available time",
                                             "        # Check if slot has any available time")]),
    ("b_seconds_rounded_up", ["C06", "C01", "C03"], [(TS, "        seconds_rounded = max(1, round(seconds_into_slot))", "        seconds_rounded = max(1, int(round(seconds_into_slot)))")]),
    # ------------------------------------------------------------------ round 3 (second batch)
    ("b_day_range_branches_swapped", ["C02"], [(TP, "            if start_idx <= end_idx:\n                return day_order[start_idx : end_idx + 1]\n            else:\n                # Wrap around (unusual but supported)\n                return day_order[start_idx:] + day_order[: end_idx + 1]", "            if start_idx > end_idx:\n                return day_order[start_idx:] + day_order[: end_idx + 1]\n            return day_order[start_idx : end_idx + 1]")]),
    ("b_csv_rows_as_list", ["C18", "C19"], [(RP, "            writer.writerows(csv_data)", "            writer.writerows(list(csv_data))")]),
    ("b_strip_shortcut_covers_all_kinds", ["C15"], [(MP, "    result = []\n    i = 0\n    n = len(text)\n\n    while i < n:\n        ch = text[i]\n        if ch in \"\\\"'\":", "    if \"#\" not in text and \"/\" not in text:\n        return text\n    result = []\n    i = 0\n    n = len(text)\n\n    while i < n:\n        ch = text[i]\n        if ch in \"\\\"'\":")]),
    ("b_builder_kept_and_reset", ["C15", "C12"], [
        (TP, "        self.parser: Lark = Lark(self.grammar, start=\"start\", parser=\"lalr\")\n", "        self.parser: Lark = Lark(self.grammar, start=\"start\", parser=\"lalr\")\n        self._builder = ModelBuilder()\n"),
        (TP, "        builder = ModelBuilder()\n        project = builder.build(data)", "        project = self._builder.build(data)"),
        (TP, "        if not data or not data.get(\"project\"):\n            raise ValueError(\"No project definition found\")\n", "        self._explicit_scenario_attrs = set()\n        self._pending_depends = []\n        self._pending_precedes = []\n        self._scenarios_cleared = False\n        if not data or not data.get(\"project\"):\n            raise ValueError(\"No project definition found\")\n"),
        (TP, "        if parent is None and not hasattr(self, \"_scenarios_cleared\"):", "        if parent is None and not getattr(self, \"_scenarios_cleared\", False):")]),
    ("b_idx_date_memo_cleared_by_every_writer", ["C17", "C13", "C12"], [
        (PJ, "        self.scoreboardNoLeaves: Optional[Scoreboard] = None\n", "        self.scoreboardNoLeaves: Optional[Scoreboard] = None\n        self._idxDates: dict[int, Any] = {}\n"),
        (PJ, "        if _USE_CYTHON:\n            return project_idx_to_date(idx, self.attributes[\"start\"], self.attributes[\"scheduleGranularity\"])\n\n        # Assuming idx is integer steps of scheduleGranularity from start\n        seconds: int = idx * self.attributes[\"scheduleGranularity\"]\n        return self.attributes[\"start\"] + timedelta(seconds=seconds)\n",
             "        kept = self._idxDates.get(idx)\n        if kept is not None:\n            return kept\n        if _USE_CYTHON:\n            kept = project_idx_to_date(idx, self.attributes[\"start\"], self.attributes[\"scheduleGranularity\"])\n        else:\n            seconds: int = idx * self.attributes[\"scheduleGranularity\"]\n            kept = self.attributes[\"start\"] + timedelta(seconds=seconds)\n        self._idxDates[idx] = kept\n        return kept\n"),
        (PJ, "        self.attributes[key] = value\n        # When timingresolution is set, also update scheduleGranularity\n        if key == \"timingresolution\":\n            self.attributes[\"scheduleGranularity\"] = value\n", "        self.attributes[key] = value\n        # When timingresolution is set, also update scheduleGranularity\n        if key == \"timingresolution\":\n            self.attributes[\"scheduleGranularity\"] = value\n        self._idxDates.clear()\n")]),
    ("b_children_end_selected_inline", ["C08"], [(PJ, "                    propagate_end_to_children(child, effective_end)", "                    propagate_end_to_children(child, task_end if task_end else container_end)")]),
    ("b_date_to_idx_clamp_on_request", ["C11", "C17", "C13"], [(PJ, "    def dateToIdx(self, date: Any, forceIntoProject: bool = True) -> int:", "    def dateToIdx(self, date: Any, forceIntoProject: bool = True, clamp: bool = False) -> int:"),
        (PJ, "            return int(project_date_to_idx(date, self.attributes[\"start\"], self.attributes[\"scheduleGranularity\"]))\n", "            fast_idx = int(project_date_to_idx(date, self.attributes[\"start\"], self.attributes[\"scheduleGranularity\"]))\n            return min(max(fast_idx, 0), self.scoreboardSize() - 1) if clamp else fast_idx\n"),
        (PJ, "        idx: int = math.floor(diff_seconds / self.attributes[\"scheduleGranularity\"])\n        return idx", "        idx: int = math.floor(diff_seconds / self.attributes[\"scheduleGranularity\"])\n        return min(max(idx, 0), self.scoreboardSize() - 1) if clamp else idx")]),
    # ------------------------------------------------------------------ round 3
    ("b_limits_chain_kept_per_scenario", ["C16", "C05", "C07", "C12"], [(TS, "        all_limits = []\n        task: Optional[Any] = self.property\n        while task is not None:\n            limits = task.get(\"limits\", self.scenarioIdx)\n            if limits:\n                all_limits.append(limits)\n            task = task.parent\n        return all_limits", "        all_limits = getattr(self, \"_limitsChain\", None)\n        if all_limits is not None:\n            return all_limits\n        all_limits = []\n        task: Optional[Any] = self.property\n        while task is not None:\n            limits = task.get(\"limits\", self.scenarioIdx)\n            if limits:\n                all_limits.append(limits)\n            task = task.parent\n        self._limitsChain = all_limits\n        return all_limits")]),
    ("b_zero_efficiency_repaired_by_if", ["C11"], [(TS, "        efficiency = resource.get(\"efficiency\", self.scenarioIdx) or 1.0\n\n        # Calculate required duration", "        efficiency = resource.get(\"efficiency\", self.scenarioIdx)\n        if not efficiency:\n            efficiency = 1.0\n\n        # Calculate required duration")]),
    ("b_leave_loop_bounds_named", ["C02", "C08"], [(RS, "                    for i in range(max(start_idx, 0), min(end_idx, size)):\n                        sb = self.scoreboard[i]\n                        val =", "                    lo = max(start_idx, 0)\n                    hi = min(end_idx, size)\n                    for i in range(lo, hi):\n                        sb = self.scoreboard[i]\n                        val =")]),
    ("b_abort_test_with_extra_disjunct", ["C10"], [(TS, "            if not child.get(\"scheduled\", self.scenarioIdx):\n                return", "            if not child.get(\"scheduled\", self.scenarioIdx) or child_scenario.isRunAway:\n                return")]),
    ("b_root_end_named", ["C09"], [(PJ, "                propagate_end_to_children(task, task.get(\"end\", scIdx))", "                own_end = task.get(\"end\", scIdx)\n                propagate_end_to_children(task, own_end)")]),
    ("b_rollup_named_reversed_list", ["C10", "C07"], [(PJ, "        for task in reversed(list(self.tasks)):\n            if task.leaf():\n                continue  # Skip leaf tasks", "        bottom_up = list(self.tasks)\n        bottom_up.reverse()\n        for task in bottom_up:\n            if task.leaf():\n                continue  # Skip leaf tasks")]),
    ("b_floor_division_instead_of_math_floor", ["C13", "C17"], [(SB, "        idx = math.floor(diff / self.resolution)", "        idx = int(diff // self.resolution)")]),
    ("b_priority_range_guard_inclusive", ["C09"], [(TP, "                elif key == \"priority\":\n                    # Set for all scenarios\n", "                elif key == \"priority\":\n                    if not 1 <= value <= 1000:\n                        continue\n                    # Set for all scenarios\n")]),
    ("b_stop_tolerance_smaller", ["C03", "C06"], [(TS, "            if self.doneEffort >= effort - 1e-9:", "            if self.doneEffort >= effort - 1e-12:")]),
    ("b_gap_slots_plain_round", ["C04"], [(TS, "gap_slots = int(round(gap_hours * 3600 / granularity))", "gap_slots = round(gap_hours * 3600 / granularity)")]),
    ("b_marker_test_on_local", ["C01", "C02"], [(RS, "        if isinstance(self.scoreboard[sb_idx], int):\n            return False\n", "        entry = self.scoreboard[sb_idx]\n        if isinstance(entry, int):\n            return False\n")]),
    ("b_first_booking_guard_reordered", ["C06"], [(TS, "            if first_booked_slot is None and self.doneEffort > previous_effort:", "            if self.doneEffort > previous_effort and first_booked_slot is None:")]),
    ("b_comment_stripper_via_local", ["C15", "C11"], [(MP, "        content = strip_comments(content)\n", "        without_comments = strip_comments(content)\n        content = without_comments\n")]),
    ("b_offset_cleared_before_step", ["C07", "C08"], [(TS, "            self.currentSlotIdx += delta\n            # The mid-slot offset of the dependency bound belongs to the slot the walk began in\n            self.slotStartOffset = 0.0\n",
                                                        "            # The mid-slot offset of the dependency bound belongs to the slot the walk began in\n            self.slotStartOffset = 0.0\n            self.currentSlotIdx += delta\n")]),
    ("b_sound_memo_of_pure_conversion", ["C01", "C02", "C03", "C04", "C05", "C06", "C07", "C08", "C09", "C10", "C12", "C14", "C16"], [
        (WH, "class WorkingHours:\n", "_LOCAL_TIMES: dict = {}\n\n\nclass WorkingHours:\n"),
        (WH, "                utc_dt = dt.replace(tzinfo=dt_timezone.utc)\n                tz = zoneinfo.ZoneInfo(timezone_str)\n                return utc_dt.astimezone(tz)",
             "                key = (timezone_str, dt)\n                if key not in _LOCAL_TIMES:\n                    utc_dt = dt.replace(tzinfo=dt_timezone.utc)\n                    _LOCAL_TIMES[key] = utc_dt.astimezone(zoneinfo.ZoneInfo(timezone_str))\n                return _LOCAL_TIMES[key]")]),
    ("b_rename_local_available_seconds", ["C01", "C03"], [(RS, "        available_seconds = self.getAvailableSecondsInSlot(sb_idx)\n        efficiency", "        free_secs = self.getAvailableSecondsInSlot(sb_idx)\n        available_seconds = free_secs\n        efficiency")]),
    ("b_book_guard_as_nested_if", ["C01"], [(RS, "        if not force and not self.available(sb_idx):\n            return 0.0", "        if not force:\n            if not self.available(sb_idx):\n                return 0.0")]),
    ("b_min_builtin_in_rollup", ["C10"], [(PJ, "                if child_start and (min_start is None or child_start < min_start):\n                    min_start = child_start", "                if child_start and (min_start is None or min_start > child_start):\n                    min_start = child_start")]),
    ("b_sort_key_variable_names", ["C07", "C09"], [(PJ, "            return (-prio, -crit, seq)", "            key = (-prio, -crit, seq)\n            return key")]),
    ("b_comment_and_docstring", ["C04", "C06", "C11"], [(TS, "        # Determine start slot\n        forward = self.property.get(\"forward\", self.scenarioIdx)", "        # Determine the start slot (comment changed)\n        forward = self.property.get(\"forward\", self.scenarioIdx)")]),
    ("b_limit_compare_swapped_operands", ["C05"], [(LM, "            if self.upper:\n                return count < self.value\n            else:\n                return count >= self.value", "            if self.upper:\n                return self.value > count\n            else:\n                return count >= self.value")]),
    ("b_echo_err_reordered_kw", ["C19"], [(PL, "click.secho(\"✓ Report generation completed successfully\", fg=\"green\", err=True)", "click.secho(\"✓ Report generation completed successfully\", err=True, fg=\"green\")")]),
    ("b_extra_stderr_message", ["C19", "C20"], [(PL, "        # Determine output format\n        output_format = \"csv\" if output_csv else \"json\"", "        # Determine output format\n        output_format = \"csv\" if output_csv else \"json\"\n        logger.debug(\"format %s\", output_format)")]),
    ("b_pyx_local_renamed", ["C13", "C17"], [(SP, "    cdef double diff_seconds\n    cdef int idx\n\n    # Calculate difference in seconds\n    diff_seconds = _total_seconds(date - start_date)\n\n    # Integer division for index\n    idx = <int>floor(diff_seconds / <double>resolution)",
                                              "    cdef double delta_s\n    cdef int idx\n\n    # Calculate difference in seconds\n    delta_s = _total_seconds(date - start_date)\n\n    # Integer division for index\n    idx = <int>floor(delta_s / <double>resolution)")]),
    ("b_fallback_reordered_tests", ["C13", "C17"], [(SB, "        if forceIntoProject:\n            if idx < 0:\n                return 0\n            if idx >= self.size:\n                return self.size - 1\n        elif idx < 0 or idx >= self.size:\n            raise IndexError(f\"Date",
                                                     "        if forceIntoProject:\n            if idx >= self.size:\n                return self.size - 1\n            if idx < 0:\n                return 0\n        elif idx < 0 or idx >= self.size:\n            raise IndexError(f\"Date")]),
    ("b_week_index_floor_div_variant", ["C08", "C14", "C05"], [(LM, "            return (slot_monday - start_monday).days // 7", "            weeks = (slot_monday - start_monday).days // 7\n            return weeks")]),
    ("b_while_to_equivalent_cursor", ["C11"], [(TS, "        while current_idx >= start_idx and working_slots < effort:", "        while working_slots < effort and current_idx >= start_idx:")]),
]
