#!/venv/bin/python
"""Run EVERY check against every seeded change: which rule of which property reports it.
   selftest/matrix.py [--jobs N] [--only SEED]  -> prints a table, writes selftest/matrix.json"""
import argparse
import concurrent.futures as cf
import json
import os
import sys

HERE = os.path.dirname(os.path.abspath(__file__))
sys.path.insert(0, HERE)
import run as R  # noqa: E402

PROPS = [f"C{i:02d}" for i in range(1, 21)]


def main():
    ap = argparse.ArgumentParser()
    ap.add_argument("--jobs", type=int, default=12)
    ap.add_argument("--only", default="")
    ap.add_argument("--props", default="")
    ap.add_argument("--dir", default="seeded", help="seeded (changes that break a property) or benign (behaviour-preserving changes)")
    a = ap.parse_args()
    sd = os.path.join(R.VERIF, a.dir)
    props = a.props.split(",") if a.props else PROPS
    jobs = []
    for s in sorted(os.listdir(sd)):
        if a.only and a.only not in s:
            continue
        patch = os.path.join(sd, s, "patch.diff")
        meta = os.path.join(sd, s, "meta.json")
        if os.path.exists(meta) and "retired" in json.load(open(meta)):
            continue
        if os.path.exists(patch):
            for p in props:
                jobs.append(("seeded", s, p, patch))
    out = {}
    with cf.ThreadPoolExecutor(max_workers=a.jobs) as ex:
        for kind, name, prop, rc, info in ex.map(R.one, jobs):
            out.setdefault(name, {})[prop] = {"rc": rc, "info": info}
    path = os.path.join(HERE, "matrix.json" if a.dir == "seeded" else f"{a.dir}_matrix.json")
    old = {}
    if os.path.exists(path) and (a.only or a.props):
        old = json.load(open(path))
    for k, v in out.items():
        old.setdefault(k, {}).update(v)
    json.dump(old, open(path, "w"), indent=1, sort_keys=True)
    if a.dir != "seeded":
        # behaviour-preserving changes: every check must exit 0 on every one of them
        for name in sorted(out):
            alarms = {p: (v["rc"], v["info"]) for p, v in out[name].items() if v["rc"] != 0}
            print(f"{name:9} {'silent' if not alarms else 'ALARM ' + str(alarms)[:400]}")
        return
    for name in sorted(out):
        own = name.split("-")[0]
        caught = {p: v["info"] for p, v in out[name].items() if v["rc"] == 1}
        incon = [p for p, v in out[name].items() if v["rc"] == 2]
        broken = [p for p, v in out[name].items() if v["rc"] not in (0, 1, 2)]
        if broken:
            print(f"{name:8} BROKEN-VARIANT for {broken[:3]}: {out[name][broken[0]]['info']}")
        print(f"{name:8} own={'CAUGHT' if own in caught else 'missed':7} caught_by={caught} inconclusive={incon}")


if __name__ == "__main__":
    main()
