"""Call resolution over the ast model (class-hierarchy analysis by name, deliberately
over-approximating), with local typing of receivers that are stdlib / third-party objects.

resolve_call(fn, call)  -> list[Func]   possible repo callees of one call site
callees(fn)             -> {Func}       all possible callees (calls, property reads, callbacks)
reach(fn)               -> {Func}       transitive closure
"""
from __future__ import annotations

import ast
from typing import Optional

from .model import Func, Repo, dotted, own_nodes

BUILTIN_TYPES = {"str", "int", "float", "bool", "bytes", "dict", "list", "set", "tuple", "frozenset",
                 "Path", "datetime", "timedelta", "date", "Optional", "Union", "Any"}
FOREIGN_ANN = {"str", "int", "float", "bool", "bytes", "dict", "list", "set", "tuple", "frozenset", "Path",
               "datetime", "timedelta", "date", "argparse.Namespace", "Namespace", "click.Context", "Context",
               "Token", "Tree", "Lark", "re.Pattern", "Callable"}


class CallGraph:
    def __init__(self, repo: Repo, dunder: bool = False):
        self.repo = repo
        self.dunder = dunder
        self._callees: dict = {}
        self._sites: dict = {}
        self._reach: dict = {}
        self._foreign_fields: dict = {}
        self._callers: Optional[dict] = None
        self.properties = {}
        for f in repo.all_funcs():
            if f.cls is not None and f.parent is None and "property" in f.decorators:
                self.properties.setdefault(f.name, []).append(f)
        self.unresolved = 0
        self.resolved = 0
        self._attr_tab = None

    # ----------------------------------------------------------- attribute-name typing
    def _ann_classes(self, fn: Func, ann) -> tuple:
        """(set of repo ClassInfo named by the annotation, is_foreign_builtin)"""
        names = []
        if ann is None:
            return set(), False
        if isinstance(ann, ast.Constant) and isinstance(ann.value, str):
            try:
                ann = ast.parse(ann.value, mode="eval").body
            except SyntaxError:
                return set(), False
        # outermost container => builtin container object, whatever it holds
        outer = ann
        while isinstance(outer, ast.Subscript) and dotted(outer.value) in ("Optional", "typing.Optional", "ClassVar"):
            outer = outer.slice
        if isinstance(outer, ast.Subscript) and dotted(outer.value) in ("list", "dict", "set", "tuple", "frozenset",
                                                                          "List", "Dict", "Set", "Tuple"):
            return set(), True
        for n in ast.walk(ann):
            if isinstance(n, ast.Name):
                names.append(n.id)
            elif isinstance(n, ast.Attribute):
                names.append(n.attr)
            elif isinstance(n, ast.Constant) and isinstance(n.value, str):
                names.append(n.value.split(".")[-1].strip())
        cls = set()
        for nm in names:
            for ci in self.repo.classes.get(nm, []):
                cls.add(ci)
        foreign = (not cls) and any(nm in ("dict", "list", "set", "tuple", "str", "int", "float", "bool", "bytes",
                                             "Path", "datetime", "timedelta", "Callable", "Lock") for nm in names) \
            and "Any" not in names
        return cls, foreign

    def attr_table(self) -> dict:
        """attr name -> {'classes': set[ClassInfo], 'foreign': bool, 'unknown': bool} from every
        `self.<attr> = v` / `self.<attr>: T = v` in the package."""
        if self._attr_tab is not None:
            return self._attr_tab
        tab: dict = {}
        for fn in self.repo.all_funcs():
            if fn.cls is None:
                continue
            for n in own_nodes(fn):
                pairs = []
                if isinstance(n, ast.Assign):
                    pairs = [(t, n.value, None) for t in n.targets]
                elif isinstance(n, ast.AnnAssign):
                    pairs = [(n.target, n.value, n.annotation)]
                for t, v, ann in pairs:
                    if not (isinstance(t, ast.Attribute) and isinstance(t.value, ast.Name) and t.value.id == "self"):
                        continue
                    e = tab.setdefault(t.attr, {"classes": set(), "foreign": 0, "unknown": 0, "ann": False})
                    if ann is not None:
                        cls, fgn = self._ann_classes(fn, ann)
                        if cls:
                            e["classes"] |= cls
                            e["ann"] = True
                            continue
                        if fgn:
                            e["foreign"] += 1
                            continue
                    if v is None or (isinstance(v, ast.Constant) and v.value is None):
                        continue
                    if isinstance(v, ast.Call):
                        d = dotted(v.func)
                        if d and isinstance(v.func, ast.Name):
                            cl = self.resolve_class(fn, d)
                            if cl:
                                e["classes"] |= set(cl)
                                continue
                    if self._is_foreign_value(fn, v):
                        e["foreign"] += 1
                    else:
                        e["unknown"] += 1
        self._attr_tab = tab
        return tab

    def attr_type(self, attr: str):
        """('foreign', None) | ('classes', set) | ('unknown', None)"""
        e = self.attr_table().get(attr)
        if not e:
            return ("unknown", None)
        if e["classes"] and (e["ann"] or not e["unknown"]) and not e["foreign"]:
            return ("classes", e["classes"])
        if e["foreign"] and not e["unknown"] and not e["classes"]:
            return ("foreign", None)
        return ("unknown", None)

    # ----------------------------------------------------------- receiver typing
    def _is_foreign_value(self, fn: Func, v: ast.AST) -> bool:
        """True if the value is certainly not an instance of a repo class."""
        if isinstance(v, (ast.Constant, ast.Dict, ast.List, ast.Set, ast.Tuple, ast.JoinedStr, ast.ListComp,
                          ast.DictComp, ast.SetComp, ast.GeneratorExp, ast.Compare, ast.BinOp)):
            if isinstance(v, ast.Constant) and v.value is None:
                return False
            return True
        if isinstance(v, ast.Call):
            d = dotted(v.func)
            if d is None:
                return False
            head = d.split(".")[0]
            m = fn.module
            if head in ("str", "int", "float", "list", "dict", "set", "tuple", "sorted", "open", "len", "range",
                        "enumerate", "zip", "bool", "bytes", "frozenset", "reversed", "iter", "map", "filter",
                        "min", "max", "sum", "round", "abs", "repr", "format", "type", "id", "hash", "print"):
                return True
            if head in m.imports:
                mod, attr = m.imports[head]
                root = (mod or "").split(".")[0]
                if root != self.repo.pkg:
                    return True
        return False

    def _name_assignments(self, fn: Func, name: str) -> list:
        out = []
        for n in own_nodes(fn):
            if isinstance(n, ast.Assign):
                for t in n.targets:
                    for tt in (t.elts if isinstance(t, (ast.Tuple, ast.List)) else [t]):
                        if isinstance(tt, ast.Name) and tt.id == name:
                            out.append(n.value if not isinstance(t, (ast.Tuple, ast.List)) else None)
            elif isinstance(n, ast.AnnAssign) and isinstance(n.target, ast.Name) and n.target.id == name:
                out.append(n.value)
            elif isinstance(n, (ast.For, ast.comprehension)):
                for tt in ast.walk(n.target):
                    if isinstance(tt, ast.Name) and tt.id == name:
                        out.append(None)
            elif isinstance(n, ast.With):
                for it in n.items:
                    if isinstance(it.optional_vars, ast.Name) and it.optional_vars.id == name:
                        out.append(it.context_expr)
            elif isinstance(n, ast.NamedExpr) and n.target.id == name:
                out.append(n.value)
        return out

    def receiver_foreign(self, fn: Func, recv: ast.AST) -> bool:
        if isinstance(recv, (ast.Constant, ast.Dict, ast.List, ast.Set, ast.Tuple, ast.JoinedStr)):
            return True
        if isinstance(recv, ast.Call):
            return self._is_foreign_value(fn, recv)
        if isinstance(recv, ast.Name):
            name = recv.id
            m = fn.module
            if name in m.imports:
                mod, attr = m.imports[name]
                return (mod or "").split(".")[0] != self.repo.pkg
            # parameter annotation
            f: Optional[Func] = fn
            while f is not None:
                if name in f.params and not isinstance(f.node, ast.Lambda):
                    a = f.node.args
                    for arg in a.posonlyargs + a.args + a.kwonlyargs:
                        if arg.arg == name and arg.annotation is not None:
                            ann = dotted(arg.annotation) if not isinstance(arg.annotation, ast.Subscript) else dotted(arg.annotation.value)
                            if isinstance(arg.annotation, ast.Constant):
                                ann = None
                            if ann in FOREIGN_ANN:
                                return True
                    return False
                vals = self._name_assignments(f, name)
                if vals:
                    return all(v is not None and self._is_foreign_value(f, v) for v in vals)
                f = f.parent
            # module global
            asg = m.globals_assigned.get(name)
            if asg:
                return all(getattr(a, "value", None) is not None and self._is_foreign_value(fn, a.value) for a in asg)
            return False
        if isinstance(recv, ast.Attribute) and isinstance(recv.value, ast.Name) and recv.value.id == "self" and fn.cls:
            return self._field_foreign(fn, recv.attr)
        if isinstance(recv, ast.Attribute):
            d = dotted(recv)
            if d:
                head = d.split(".")[0]
                if head in fn.module.imports and (fn.module.imports[head][0] or "").split(".")[0] != self.repo.pkg:
                    return True
            if self.attr_type(recv.attr)[0] == "foreign":
                return True
        if isinstance(recv, ast.Subscript):
            return False
        return False

    def _field_foreign(self, fn: Func, attr: str) -> bool:
        key = (fn.cls.name, attr)
        if key in self._foreign_fields:
            return self._foreign_fields[key]
        vals = []
        for c in fn.cls.mro() + fn.cls.all_subclasses():
            for meth in c.methods.values():
                for n in own_nodes(meth):
                    tgts = []
                    if isinstance(n, ast.Assign):
                        tgts = [(t, n.value) for t in n.targets]
                    elif isinstance(n, ast.AnnAssign) and n.value is not None:
                        tgts = [(n.target, n.value)]
                    for t, v in tgts:
                        if isinstance(t, ast.Attribute) and t.attr == attr and isinstance(t.value, ast.Name) and t.value.id == "self":
                            vals.append((meth, v))
        res = bool(vals) and all(self._is_foreign_value(m_, v) for m_, v in vals)
        self._foreign_fields[key] = res
        return res

    # ----------------------------------------------------------- resolution
    def resolve_name(self, fn: Func, name: str) -> list:
        """A bare name used as a callable."""
        f: Optional[Func] = fn
        while f is not None:
            if name in f.nested:
                return [f.nested[name]]
            f = f.parent
        m = fn.module
        if name in m.funcs:
            return [m.funcs[name]]
        if name in m.classes:
            return self._ctor(m.classes[name])
        if name in m.imports:
            mod, attr = m.imports[name]
            tm = self.repo.modules.get(mod)
            if tm is not None and attr:
                if attr in tm.funcs:
                    return [tm.funcs[attr]]
                if attr in tm.classes:
                    return self._ctor(tm.classes[attr])
                # re-export through a package __init__
                if attr in tm.imports:
                    mod2, attr2 = tm.imports[attr]
                    tm2 = self.repo.modules.get(mod2)
                    if tm2 is not None:
                        if attr2 in tm2.funcs:
                            return [tm2.funcs[attr2]]
                        if attr2 in tm2.classes:
                            return self._ctor(tm2.classes[attr2])
            return []
        # class defined elsewhere but referenced by local import inside function
        for n in own_nodes(fn):
            if isinstance(n, ast.ImportFrom):
                for a in n.names:
                    if (a.asname or a.name) == name:
                        tm = self.repo.modules.get(n.module or "")
                        if tm is not None:
                            if a.name in tm.funcs:
                                return [tm.funcs[a.name]]
                            if a.name in tm.classes:
                                return self._ctor(tm.classes[a.name])
                            if a.name in tm.imports:
                                mod2, attr2 = tm.imports[a.name]
                                tm2 = self.repo.modules.get(mod2)
                                if tm2 is not None and attr2 in tm2.classes:
                                    return self._ctor(tm2.classes[attr2])
                                if tm2 is not None and attr2 in tm2.funcs:
                                    return [tm2.funcs[attr2]]
                        return []
        return []

    def _ctor(self, ci) -> list:
        out = []
        for nm in ("__init__", "__new__"):
            f = ci.lookup(nm)
            if f is not None:
                out.append(f)
        return out

    def resolve_method(self, fn: Func, recv: ast.AST, meth: str) -> list:
        # self.m / cls.m / super().m
        if isinstance(recv, ast.Name) and recv.id in ("self", "cls") and fn.cls is not None:
            top = fn
            while top.parent is not None:
                top = top.parent
            if top.cls is not None:
                out = []
                f = top.cls.lookup(meth)
                if f is not None:
                    out.append(f)
                for sc in top.cls.all_subclasses():
                    if meth in sc.methods:
                        out.append(sc.methods[meth])
                if out:
                    return out
                if self._field_foreign(fn, meth):
                    return []
                # dynamic attribute on self (e.g. callable stored in a field) -> by name
        if isinstance(recv, ast.Call) and isinstance(recv.func, ast.Name) and recv.func.id == "super" and fn.cls is not None:
            out = []
            for b in fn.cls.bases:
                f = b.lookup(meth)
                if f is not None:
                    out.append(f)
            return out
        # ClassName.m(...)
        if isinstance(recv, ast.Name):
            targets = self.resolve_class(fn, recv.id)
            if targets:
                out = []
                for ci in targets:
                    f = ci.lookup(meth)
                    if f is not None:
                        out.append(f)
                return out
        if self.receiver_foreign(fn, recv):
            return []
        if isinstance(recv, ast.Attribute):
            kind, classes = self.attr_type(recv.attr)
            if kind == "classes":
                out = []
                dyn = False
                for ci in classes:
                    f = ci.lookup(meth)
                    if f is not None and f not in out:
                        out.append(f)
                    for sc in ci.all_subclasses():
                        if meth in sc.methods and sc.methods[meth] not in out:
                            out.append(sc.methods[meth])
                    if any("__getattr__" in c.methods for c in ci.mro() + ci.all_subclasses()):
                        dyn = True
                if out and not dyn:
                    return out
        # module.func
        d = dotted(recv)
        if d:
            head = d.split(".")[0]
            if head in fn.module.imports:
                mod, attr = fn.module.imports[head]
                full = mod if attr is None else f"{mod}.{attr}"
                tm = self.repo.modules.get(full)
                if tm is not None:
                    if meth in tm.funcs:
                        return [tm.funcs[meth]]
                    if meth in tm.classes:
                        return self._ctor(tm.classes[meth])
                    return []
        # unknown receiver: every repo method of that name
        return list(self.repo.methods_named(meth))

    def resolve_class(self, fn: Func, name: str) -> list:
        m = fn.module
        if name in m.classes:
            return [m.classes[name]]
        if name in m.imports:
            mod, attr = m.imports[name]
            tm = self.repo.modules.get(mod)
            if tm is not None and attr in tm.classes:
                return [tm.classes[attr]]
        # function-local import
        for n in own_nodes(fn):
            if isinstance(n, ast.ImportFrom):
                for a in n.names:
                    if (a.asname or a.name) == name:
                        tm = self.repo.modules.get(n.module or "")
                        if tm is not None and a.name in tm.classes:
                            return [tm.classes[a.name]]
        return []

    def resolve_call(self, fn: Func, call: ast.Call) -> list:
        f = call.func
        if isinstance(f, ast.Name):
            if f.id == "getattr":
                return []
            r = self.resolve_name(fn, f.id)
            if r:
                return r
            # calling a local variable / parameter holding a callable: by closure analysis
            return self._callable_values(fn, f.id)
        if isinstance(f, ast.Attribute):
            return self.resolve_method(fn, f.value, f.attr)
        if isinstance(f, ast.Lambda):
            return [f._func] if hasattr(f, "_func") else []
        if isinstance(f, ast.Call) and isinstance(f.func, ast.Name) and f.func.id == "getattr" and len(f.args) >= 2:
            # getattr(obj, name)(..): a literal name is an ordinary method call; a computed name may be any method whose name is
            # written as a string literal in this module (dispatch tables)
            obj, nm = f.args[0], f.args[1]
            if isinstance(nm, ast.Constant) and isinstance(nm.value, str):
                return self.resolve_method(fn, obj, nm.value)
            lits = getattr(fn.module, "_str_lits", None)
            if lits is None:
                lits = {x.value for x in ast.walk(fn.module.tree) if isinstance(x, ast.Constant) and isinstance(x.value, str) and x.value.isidentifier()}
                fn.module._str_lits = lits
            out = []
            for s_ in sorted(lits):
                if self.repo.methods_named(s_):
                    out += self.resolve_method(fn, obj, s_)
            return out
        return []

    def _callable_values(self, fn: Func, name: str) -> list:
        """Callables that flow into parameter `name` of fn from its call sites (one level)."""
        out = []
        if name in fn.params:
            idx = fn.params.index(name)
            for caller, call in self.callers(fn):
                args = list(call.args)
                off = 1 if (fn.cls is not None and fn.parent is None and not fn.is_static
                            and isinstance(call.func, ast.Attribute)) else 0
                cand = None
                if idx - off < len(args) and idx - off >= 0:
                    cand = args[idx - off]
                for kw in call.keywords:
                    if kw.arg == name:
                        cand = kw.value
                if cand is not None:
                    out += self.callable_expr(caller, cand)
        return out

    def callable_expr(self, fn: Func, e: ast.AST) -> list:
        if isinstance(e, ast.Lambda) and hasattr(e, "_func"):
            return [e._func]
        if isinstance(e, ast.Name):
            return self.resolve_name(fn, e.id)
        if isinstance(e, ast.Attribute):
            return self.resolve_method(fn, e.value, e.attr)
        return []

    # ----------------------------------------------------------- whole-function
    def sites(self, fn: Func) -> list:
        """[(ast node, [Func])] for calls, property reads and callback arguments."""
        if fn in self._sites:
            return self._sites[fn]
        self._sites[fn] = []      # recursion guard for _callable_values
        out = []
        for n in own_nodes(fn):
            if isinstance(n, ast.Call):
                tg = self.resolve_call(fn, n)
                if tg:
                    self.resolved += 1
                else:
                    self.unresolved += 1
                out.append((n, tg))
                # callbacks passed as arguments
                for a in list(n.args) + [k.value for k in n.keywords]:
                    if isinstance(a, ast.Lambda) and hasattr(a, "_func"):
                        out.append((a, [a._func]))
                    elif isinstance(a, ast.Name):
                        f: Optional[Func] = fn
                        while f is not None:
                            if a.id in f.nested:
                                out.append((a, [f.nested[a.id]]))
                                break
                            f = f.parent
                        else:
                            if a.id in fn.module.funcs:
                                out.append((a, [fn.module.funcs[a.id]]))
                    elif isinstance(a, ast.Attribute) and isinstance(a.value, ast.Name) and a.value.id == "self" and fn.cls:
                        f2 = fn.cls.lookup(a.attr)
                        if f2 is not None and not f2.is_property:
                            out.append((a, [f2]))
            elif isinstance(n, ast.Attribute) and isinstance(n.ctx, ast.Load) and n.attr in self.properties:
                par = getattr(n, "_parent", None)
                if isinstance(par, ast.Call) and par.func is n:
                    continue
                if self.receiver_foreign(fn, n.value):
                    continue
                props = self.properties[n.attr]
                if isinstance(n.value, ast.Name) and n.value.id == "self" and fn.cls is not None:
                    own = fn.cls.lookup(n.attr)
                    if own is not None and own.is_property:
                        props = [own]
                    elif own is None and not any(p.cls in fn.cls.all_subclasses() for p in props):
                        continue
                out.append((n, list(props)))
            elif isinstance(n, (ast.FunctionDef, ast.AsyncFunctionDef)) and hasattr(n, "_func"):
                pass
            elif self.dunder:
                dn = None
                if isinstance(n, ast.Subscript):
                    dn = "__getitem__" if isinstance(n.ctx, ast.Load) else "__setitem__"
                    if self.receiver_foreign(fn, n.value):
                        dn = None
                elif isinstance(n, (ast.For, ast.comprehension)):
                    dn = "__iter__"
                    if self.receiver_foreign(fn, n.iter):
                        dn = None
                if dn:
                    out.append((n, list(self.repo.methods_named(dn))))
        self._sites[fn] = out
        return out

    def callees(self, fn: Func) -> set:
        if fn not in self._callees:
            s = set()
            for _n, tg in self.sites(fn):
                s.update(tg)
            self._callees[fn] = s
        return self._callees[fn]

    def callers(self, target: Func) -> list:
        """[(caller Func, ast.Call)] — computed from direct/self/by-name resolution only
        (no callback flow, to stay non-recursive)."""
        if self._callers is None:
            self._callers = {}
            for f in self.repo.all_funcs():
                for n in own_nodes(f):
                    if not isinstance(n, ast.Call):
                        continue
                    fx = n.func
                    if isinstance(fx, ast.Name):
                        tg = self.resolve_name(f, fx.id)
                    elif isinstance(fx, ast.Attribute):
                        tg = self.resolve_method(f, fx.value, fx.attr)
                    else:
                        tg = []
                    for t in tg:
                        self._callers.setdefault(t, []).append((f, n))
        return self._callers.get(target, [])

    def reach(self, roots, stop=None) -> set:
        """Functions reachable from roots (iterable of Func); `stop(fn)` prunes expansion."""
        seen = set()
        todo = list(roots)
        while todo:
            f = todo.pop()
            if f in seen:
                continue
            seen.add(f)
            if stop is not None and stop(f):
                continue
            for c in self.callees(f):
                if c not in seen:
                    todo.append(c)
        return seen

    def path(self, src: Func, pred, stop=None) -> Optional[list]:
        """Shortest call chain from src to a function satisfying pred (BFS)."""
        from collections import deque
        prev = {src: None}
        dq = deque([src])
        while dq:
            f = dq.popleft()
            if pred(f):
                out = []
                while f is not None:
                    out.append(f)
                    f = prev[f]
                return list(reversed(out))
            if stop is not None and stop(f) and f is not src:
                continue
            for c in sorted(self.callees(f), key=lambda x: x.key):
                if c not in prev:
                    prev[c] = f
                    dq.append(c)
        return None
