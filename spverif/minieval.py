"""Finite decision tables read off a function's syntax tree.

A small evaluator for the statement and expression forms that decision code uses (assignments, if / for / return, comparisons,
boolean connectives, integer arithmetic, tuple unpacking, dict / list lookups).  It never imports or runs anything of the repository:
the rule that uses it supplies every input as a model value, and any construct outside the supported forms raises `Unknown`, upon which
the rule falls back to its pattern form.

It is used where a function's answer depends on its inputs only through a FINITE case split:
  * a finite input domain that is enumerated completely (day of week x hour of day), or
  * a few quantities that are touched through comparisons only, for which every weak ordering is enumerated (three values drawn from a
    three-element set realise all 13 weak orderings of three quantities), together with the presence / absence of table entries.
The table obtained is therefore the function's complete decision table over that split, not a sample of runs."""
from __future__ import annotations

import ast

from .model import norm


class Unknown(Exception):
    pass


class _Return(Exception):
    def __init__(self, v):
        self.v = v


class _Break(Exception):
    pass


class _Continue(Exception):
    pass


class Model:
    """Base class of model objects the rule hands in; attribute reads and method calls on them are allowed."""


_CMP = {ast.Lt: lambda a, b: a < b, ast.LtE: lambda a, b: a <= b, ast.Gt: lambda a, b: a > b, ast.GtE: lambda a, b: a >= b,
        ast.Eq: lambda a, b: a == b, ast.NotEq: lambda a, b: a != b, ast.Is: lambda a, b: a is b, ast.IsNot: lambda a, b: a is not b,
        ast.In: lambda a, b: a in b, ast.NotIn: lambda a, b: a not in b}
_BIN = {ast.Add: lambda a, b: a + b, ast.Sub: lambda a, b: a - b, ast.Mult: lambda a, b: a * b, ast.FloorDiv: lambda a, b: a // b,
        ast.Mod: lambda a, b: a % b}
_PLAIN = (int, bool, type(None), tuple, list, dict, str)


class Interp:
    def __init__(self, env: dict, calls: dict | None = None, max_steps: int = 20000):
        self.env = dict(env)                 # names, and dotted texts such as "self._hours"
        self.calls = calls or {}             # norm(call.func) -> python callable over evaluated arguments
        self.steps = 0
        self.max_steps = max_steps

    # ------------------------------------------------------------------ expressions
    def ev(self, e):
        self.steps += 1
        if self.steps > self.max_steps:
            raise Unknown("step budget")
        if isinstance(e, ast.Constant):
            if isinstance(e.value, (int, bool, str)) or e.value is None:
                return e.value
            raise Unknown(norm(e))
        if isinstance(e, ast.Name):
            if e.id in self.env:
                return self.env[e.id]
            raise Unknown(f"name {e.id}")
        if isinstance(e, ast.Attribute):
            t = norm(e)
            if t in self.env:
                return self.env[t]
            base = self.ev(e.value)
            if isinstance(base, Model) and not e.attr.startswith("_"):
                return getattr(base, e.attr)
            raise Unknown(t)
        if isinstance(e, (ast.Tuple, ast.List)):
            vals = [self.ev(x) for x in e.elts]
            return tuple(vals) if isinstance(e, ast.Tuple) else vals
        if isinstance(e, ast.Subscript):
            base, key = self.ev(e.value), self.ev(e.slice)
            if isinstance(base, (tuple, list, dict)):
                try:
                    return base[key]
                except (KeyError, IndexError, TypeError):
                    raise Unknown(f"lookup {norm(e)}")
            raise Unknown(norm(e))
        if isinstance(e, ast.UnaryOp):
            v = self.ev(e.operand)
            if isinstance(e.op, ast.Not):
                return not v
            if isinstance(e.op, ast.USub) and isinstance(v, int):
                return -v
            raise Unknown(norm(e))
        if isinstance(e, ast.BoolOp):
            r = None
            for x in e.values:
                r = self.ev(x)
                if isinstance(e.op, ast.And) and not r:
                    return r
                if isinstance(e.op, ast.Or) and r:
                    return r
            return r
        if isinstance(e, ast.Compare):
            left = self.ev(e.left)
            for op, c in zip(e.ops, e.comparators):
                right = self.ev(c)
                f = _CMP.get(type(op))
                if f is None:
                    raise Unknown(norm(e))
                try:
                    if not f(left, right):
                        return False
                except TypeError:
                    raise Unknown(norm(e))
                left = right
            return True
        if isinstance(e, ast.BinOp):
            f = _BIN.get(type(e.op))
            a, b = self.ev(e.left), self.ev(e.right)
            if f is None or not isinstance(a, int) or not isinstance(b, int):
                if isinstance(e.op, ast.Add) and isinstance(a, list) and isinstance(b, list):
                    return a + b
                raise Unknown(norm(e))
            try:
                return f(a, b)
            except ZeroDivisionError:
                raise Unknown(norm(e))
        if isinstance(e, ast.IfExp):
            return self.ev(e.body) if self.ev(e.test) else self.ev(e.orelse)
        if isinstance(e, ast.Call) and isinstance(e.func, ast.Name) and e.func.id in ("any", "all", "sum", "list", "tuple") and len(e.args) == 1 \
                and isinstance(e.args[0], (ast.GeneratorExp, ast.ListComp)) and not e.keywords:
            vals = self.comprehension(e.args[0])
            return {"any": any, "all": all, "sum": sum, "list": list, "tuple": tuple}[e.func.id](vals)
        if isinstance(e, ast.ListComp):
            return self.comprehension(e)
        if isinstance(e, ast.Call):
            return self.call(e)
        raise Unknown(type(e).__name__)

    def comprehension(self, c) -> list:
        """values of a generator expression / list comprehension (its variables are local to it)"""
        out = []
        saved = dict(self.env)

        def level(k):
            if k == len(c.generators):
                out.append(self.ev(c.elt))
                return
            g = c.generators[k]
            seq = self.ev(g.iter)
            if not isinstance(seq, (list, tuple)):
                raise Unknown(f"iteration over {norm(g.iter)}")
            for x in seq:
                self.bind(g.target, x)
                if all(self.ev(t) for t in g.ifs):
                    level(k + 1)
        try:
            level(0)
        finally:
            self.env = saved
        return out

    def call(self, e: ast.Call):
        if e.keywords and any(k.arg is None for k in e.keywords):
            raise Unknown(norm(e))
        f = norm(e.func)
        if f in self.calls:
            return self.calls[f](*[self.ev(a) for a in e.args], **{k.arg: self.ev(k.value) for k in e.keywords})
        if f in ("bool", "int", "len", "min", "max", "abs", "list", "tuple") and not e.keywords:
            args = [self.ev(a) for a in e.args]
            if not all(isinstance(a, _PLAIN) for a in args):
                raise Unknown(norm(e))
            return {"bool": bool, "int": int, "len": len, "min": min, "max": max, "abs": abs, "list": list, "tuple": tuple}[f](*args)
        if isinstance(e.func, ast.Attribute):
            base = self.ev(e.func.value)
            args = [self.ev(a) for a in e.args]
            if isinstance(base, dict) and e.func.attr == "get" and 1 <= len(args) <= 2 and not e.keywords:
                return base.get(*args)
            if isinstance(base, Model) and not e.func.attr.startswith("_") and not e.keywords:
                return getattr(base, e.func.attr)(*args)
        raise Unknown(f"call {f}")

    # ------------------------------------------------------------------ statements
    def bind(self, tgt, v):
        if isinstance(tgt, ast.Name):
            self.env[tgt.id] = v
        elif isinstance(tgt, (ast.Tuple, ast.List)):
            if not isinstance(v, (tuple, list)) or len(v) != len(tgt.elts):
                raise Unknown("unpack")
            for t, x in zip(tgt.elts, v):
                self.bind(t, x)
        else:
            raise Unknown(f"store {norm(tgt)}")

    def run(self, stmts):
        for st in stmts:
            self.steps += 1
            if self.steps > self.max_steps:
                raise Unknown("step budget")
            if isinstance(st, ast.Expr) and isinstance(st.value, ast.Constant):
                continue
            if isinstance(st, (ast.Pass, ast.Import, ast.ImportFrom)):
                continue
            if isinstance(st, ast.Assign):
                v = self.ev(st.value)
                for t in st.targets:
                    self.bind(t, v)
            elif isinstance(st, ast.AnnAssign):
                if st.value is not None:
                    self.bind(st.target, self.ev(st.value))
            elif isinstance(st, ast.AugAssign) and isinstance(st.target, ast.Name):
                f = _BIN.get(type(st.op))
                if f is None:
                    raise Unknown("augassign")
                self.env[st.target.id] = f(self.ev(ast.Name(id=st.target.id, ctx=ast.Load())), self.ev(st.value))
            elif isinstance(st, ast.If):
                self.run(st.body if self.ev(st.test) else st.orelse)
            elif isinstance(st, ast.For):
                seq = self.ev(st.iter)
                if not isinstance(seq, (list, tuple)):
                    raise Unknown(f"iteration over {norm(st.iter)}")
                broke = False
                for x in seq:
                    self.bind(st.target, x)
                    try:
                        self.run(st.body)
                    except _Continue:
                        continue
                    except _Break:
                        broke = True
                        break
                if not broke:
                    self.run(st.orelse)
            elif isinstance(st, ast.Return):
                raise _Return(self.ev(st.value) if st.value is not None else None)
            elif isinstance(st, ast.Continue):
                raise _Continue()
            elif isinstance(st, ast.Break):
                raise _Break()
            else:
                raise Unknown(type(st).__name__)

    def result(self, stmts):
        """value returned by the statement list (None when it falls off the end)"""
        try:
            self.run(stmts)
        except _Return as r:
            return r.v
        return None
