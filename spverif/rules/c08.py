"""C08 — no eligible working time is left idle (earliest / latest fit) — thin structural clauses.

Decided:
  R08.1  every visited slot of an effort task attempts a booking: in scheduleSlot's effort branch every
         path calls bookResources() except the contiguous-block skip
  R08.2  period indexing of limit counters is tied to calendar periods in a shift-invariant way (no two
         distinct weeks can share a counter): EQV typing of Limit._idx_to_sb_idx (shared with C14)
  R08.3  cursor discipline (shared with C07: unit stride, no other writer, start offsets 0 / -1, horizon stop)
  R08.4  backward walk: before booking, the cursor is moved back to the last slot in which a resource of
         the task is on shift (or the project works), never past the project start
  R08.5  bookings are never withdrawn: no function reachable from Project.schedule clears a task from a
         resource scoreboard or decrements the ledgers except the partial release of the final slot
Not decided: that no free slot is skipped for value reasons (a universally quantified runtime statement).
"""
from __future__ import annotations

import ast

from ..cfg import cfg_of
from ..core import Ctx, key_of
from ..model import AnchorMissing, dotted, norm, own_nodes
from .c07 import cursor_rules
from .c14 import eqv_function
from .common import calls_named, enclosing_ifs, heap_writes

META = {
    "level": "other",
    "technique": "static analysis: must-pass-through on the slot CFG, cursor offset/stride rules, equivariance typing of the period index, write census",
    "explanation": "Necessary structural conditions of 'as soon / as late as possible': a booking attempt in every visited "
                   "slot, unit cursor stride, injective shift-invariant period index for limit counters, a backward cursor "
                   "that backs up only over non-working slots. The universally quantified statement about all free slots "
                   "is NOT decided."
                   " Also: C04's backward-bound rules, the selection table of the container end handed down the tree and its start at every root, memo-key soundness of the calendar code, task identity by local id, and the handling of a deadline inside a slot (known finding F49)."
                   " Round 3: what a container hands down to its children is a selection between own and inherited end wherever it is computed, leave loops half-open, process-state rule with census."
                   " Round 4: backward mode is propagated through tasks that are backward themselves (must-facts at every exit of the walk), successor edge set.",
    "assumptions": [],
}


def alap_propagation_rule(ctx: Ctx, rid: str):
    """Backward mode reaches every predecessor of an anchored task: the walk of Project._markTaskALAP never stops AT a task that is
    backward (by its own `scheduling alap` or by an earlier step of the walk) without pushing that task's predecessors.  Each
    `continue` of the walk is examined under its must-facts: leaving under `forward is False` (and not under "already visited")
    cuts the chain behind a task that says `scheduling alap` itself."""
    from .common import facts_of
    fn = ctx.repo.func("Project._markTaskALAP")
    g = cfg_of(fn)
    facts = facts_of(fn)
    loops = [w for w in own_nodes(fn) if isinstance(w, (ast.While, ast.For))]
    if not loops:
        raise AnchorMissing("_markTaskALAP: no work loop (recursive form is not interpreted)")
    pushes = [c for c in own_nodes(fn) if isinstance(c, ast.Call) and isinstance(c.func, ast.Attribute) and c.func.attr in ("extend", "append", "appendleft")
              and norm(c.func.value) in {norm(l.test) for l in loops if isinstance(l, ast.While)}]
    if not pushes:
        raise AnchorMissing("_markTaskALAP: the push of the predecessors onto the work list was not found")
    n = 0
    for node in g.nodes:
        if not (node.kind == "stmt" and isinstance(node.ast, (ast.Continue, ast.Return))):
            continue
        units = {tuple(cl)[0] for cl in facts.at(node) if len(cl) == 1}
        visited = any(" in processed" in t and p for (t, p) in units)
        backward = any((t.replace(" ", "") in ("forwardisFalse", "forward==False") and p) or (t == "forward" and p is False) or (t == "not forward" and p)
                       for (t, p) in units)
        n += 1
        ok = not backward or visited
        ctx.ob(rid, f"{fn.qual}: leaves the step at line {node.ast.lineno} under {sorted(t for t, p in units if 'forward' in t or 'processed' in t or 'leaf' in t)}",
               (fn, node.ast), ok,
               "the walk stops only at tasks it has visited or does not turn backward" if ok else
               "the walk leaves a task that IS backward without pushing its predecessors: backward mode does not propagate through a task "
               "that says `scheduling alap` itself, its predecessors stay forward and leave the time before their deadline idle",
               key=key_of(rid, fn, None, f"stop at backward task {n}"))
    ctx.floor(rid, 2)


def run_extra(ctx: Ctx):
    alap_propagation_rule(ctx, "R08.14")
    # ---------------------------------------------------------------- R08.15 a dependant on a container starts when the container's children are done: the
    # roll-up that runs while leaves are placed spans the children's dates only (= C10 R10.2 / C04 R04.14)
    from .c10 import rollup_accumulator_rule
    rollup_accumulator_rule(ctx, "R08.15", which=("upd",))
    # ---------------------------------------------------------------- R08.16 a backward predecessor keeps the gap of ITS edge, not the largest of any (= C04 R04.16)
    from .c04 import gap_of_own_edge_rule
    gap_of_own_edge_rule(ctx, "R08.16")
    # ---------------------------------------------------------------- R08.13 an ALAP task's deadline is the earliest start of ALL its successors, including those that depend on it through their container (= C04 R04.1)
    from .c04 import edge_set_rule
    edge_set_rule(ctx, "R08.13", only={"TaskScenario._getSuccessors", "TaskScenario._gapToSuccessor", "TaskScenario._alapReadyForScheduling"})
    # ---------------------------------------------------------------- R08.12 answers never come from state that outlives the question
    from .common import process_state_rule
    process_state_rule(ctx, "R08.12", [ctx.repo.func("Project.schedule")],
                       "a readiness, successor or calendar answer is taken from another slot, scenario or project", census=True)


def run(ctx: Ctx):
    repo = ctx.repo
    slot = repo.func("TaskScenario.scheduleSlot")
    sched = repo.func("TaskScenario.schedule")
    g = cfg_of(slot)
    # ---------------------------------------------------------------- R08.1
    eff = [n for n in own_nodes(slot) if isinstance(n, ast.If) and norm(n.test) == "effort > 0"]
    if not eff:
        raise AnchorMissing("scheduleSlot: effort branch not found")
    hdr = g.node_of(eff[0])
    first = g.node_of(eff[0].body[0])

    def is_booking(n):
        return n.ast is not None and n.kind == "stmt" and any(
            isinstance(c, ast.Call) and (dotted(c.func) or "").endswith("bookResources") for c in ast.walk(n.ast))

    def is_skip(n):
        # `return True` under the contiguous test
        if n.kind == "stmt" and isinstance(n.ast, ast.Return):
            return any("contiguous" in norm(i.test) for (i, b) in enclosing_ifs(n.ast, slot.node))
        return False

    ok = g.all_paths_pass(first, g.exit, lambda n: is_booking(n) or is_skip(n))
    ctx.ob("R08.1", f"{slot.qual}: effort branch always attempts a booking", (slot, eff[0]), ok,
           "every path through the effort branch calls bookResources() (or is the contiguous-block skip)" if ok else
           "a visited slot of an effort task can be passed without a booking attempt: working time is left idle",
           key="R08.1|scheduleSlot|must book")
    # the contiguous skip is only taken before any effort was booked
    for (i, b) in [(n, None) for n in own_nodes(slot) if isinstance(n, ast.If) and "contiguous" in norm(n.test)]:
        t = norm(i.test)
        ok = "self.doneEffort == 0" in t and "not self._hasContiguousBlock" in t
        ctx.ob("R08.1", f"{slot.qual}: skip condition {t[:80]}", (slot, i), ok,
               "slot skipped only while nothing is booked and no block fits" if ok else "contiguous skip condition changed",
               key="R08.1|scheduleSlot|skip condition")
    # ---------------------------------------------------------------- R08.2
    eqv_function(ctx, "R08.2", "Limit._idx_to_sb_idx")
    # ---------------------------------------------------------------- R08.3
    cursor_rules(ctx, "R08.3")
    # ---------------------------------------------------------------- R08.4
    backs = [w for w in own_nodes(sched) if isinstance(w, ast.While) and "self.currentSlotIdx > lowerLimit" in norm(w.test)]
    kinds_ = {("res" if "_isResourceAvailable" in norm(w.test) else "cal" if "isWorkingTime" in norm(w.test) else "?") for w in backs}
    if len(backs) < 2 or not {"res", "cal"} <= kinds_:
        raise AnchorMissing(f"backward start adjustment loops: {len(backs)} found ({sorted(kinds_)}); one per calendar kind expected at least")
    for w in backs:
        t = norm(w.test)
        step_ok = len(w.body) == 1 and isinstance(w.body[0], ast.AugAssign) and isinstance(w.body[0].op, ast.Sub) \
            and isinstance(w.body[0].value, ast.Constant) and w.body[0].value.value == 1
        pred_ok = ("not self._isResourceAvailable(self.currentSlotIdx)" in t) or ("not self.isWorkingTime(self.currentSlotIdx)" in t)
        ctx.ob("R08.4", f"{sched.qual}: {t[:90]}", (sched, w), step_ok and pred_ok,
               "backs up one slot at a time, only over slots in which nothing can work, never below the project start" if step_ok and pred_ok else
               "the backward start adjustment skips slots that could be worked", key=key_of("R08.4", sched, None, t[:60]))
    # which predicate: resource calendar for allocated effort tasks
    from ..order import nearest_resolver as _nres

    def _selects_allocated(i):
        """the test is `effort > 0 and allocations`, in place or through a flag defined as that (possibly under bool())"""
        t_ = i.test
        for _ in range(3):
            if isinstance(t_, ast.Call) and isinstance(t_.func, ast.Name) and t_.func.id == "bool" and len(t_.args) == 1:
                t_ = t_.args[0]
            elif isinstance(t_, ast.Name):
                ds = _nres(sched.node, i)(t_)
                if len(ds) != 1:
                    return False
                t_ = ds[0]
            else:
                break
        return norm(t_) == "effort > 0 and allocations"
    for i in [n for n in own_nodes(sched) if isinstance(n, ast.If) and _selects_allocated(n)]:
        a = any("_isResourceAvailable" in norm(x.test) for x in i.body if isinstance(x, ast.While))
        b = any("isWorkingTime" in norm(x.test) for x in i.orelse if isinstance(x, ast.While))
        ctx.ob("R08.4", f"{sched.qual}: calendar used for the backward start", (sched, i), a and b,
               "allocated effort tasks use their resources' calendar, others the project calendar" if a and b else
               "backward start adjustment uses the wrong calendar", key=key_of("R08.4", sched, None, f"calendar@{'pinned' if 'end_date' in norm(getattr(i, '_parent', i)) else 'default'}"),
               nontrivial=False)
    # ---------------------------------------------------------------- R08.5
    reach = ctx.cg.reach([repo.func("Project.schedule")])
    bad = []
    for fn in reach:
        for (_a, n_, tgt) in heap_writes(ctx, fn, "scoreboard"):
            v = getattr(n_.ast, "value", None)
            if isinstance(tgt, ast.Subscript) and isinstance(v, ast.Constant) and v.value is None and fn.name not in ("initScoreboard", "initScoreboards"):
                bad.append(f"{fn.qual}:{n_.lineno}")
        for c in own_nodes(fn):
            if isinstance(c, ast.Call) and isinstance(c.func, ast.Attribute) and c.func.attr == "dec" and "limit" in norm(c.func.value).lower():
                bad.append(f"{fn.qual}:{c.lineno}")
    ctx.ob("R08.5", "no booking is withdrawn under Project.schedule", repo.func("Project.schedule"), not bad,
           "free slots stay free for good, booked slots stay booked" if not bad else f"bookings can be withdrawn: {bad}",
           key="R08.5|schedule|withdraw")
    # ---------------------------------------------------------------- R08.7 deadline from successors (shared with C04 R04.2 backward)
    from .c04 import backward_bound_rules
    backward_bound_rules(ctx, "R08.7")
    ctx.floor("R08.7", 6)
    # ---------------------------------------------------------------- R08.8 deadline from enclosing containers
    # the end constraint handed down the tree is the task's own end when it has one, else the container's
    pce = repo.func("Project._propagateContainerEndDates")
    inner = next((f for f in pce.nested.values() if f.name == "propagate_end_to_children"), None)
    if inner is None:
        raise AnchorMissing("_propagateContainerEndDates: nested propagate_end_to_children not found")
    from ..order import local_resolver
    res_in = local_resolver(inner.node)

    def sel(e, env, d=0):
        if isinstance(e, ast.Name):
            if e.id in env:
                return env[e.id]
            vals = res_in(e)
            return sel(vals[0], env, d + 1) if len(vals) == 1 and d < 4 else "?"
        if isinstance(e, ast.Constant) and e.value is None:
            return None
        if isinstance(e, ast.IfExp):
            t = sel(e.test, env, d)
            if t == "?":
                return "?"
            return sel(e.body if t not in (None, False) else e.orelse, env, d)
        if isinstance(e, ast.BoolOp):
            vals = [sel(v, env, d) for v in e.values]
            if "?" in vals:
                return "?"
            if isinstance(e.op, ast.Or):
                return next((v for v in vals if v not in (None, False)), vals[-1])
            return next((v for v in vals if v in (None, False)), vals[-1])
        if isinstance(e, ast.Compare) and len(e.ops) == 1 and isinstance(e.ops[0], (ast.Is, ast.IsNot)) \
                and isinstance(e.comparators[0], ast.Constant) and e.comparators[0].value is None:
            v = sel(e.left, env, d)
            if v == "?":
                return "?"
            return (v is None) if isinstance(e.ops[0], ast.Is) else (v is not None)
        if isinstance(e, ast.Call) and norm(e.func) == "min" and len(e.args) == 2:
            a, b = sel(e.args[0], env, d), sel(e.args[1], env, d)
            if "?" in (a, b):
                return "?"
            return "min" if (a is not None and b is not None) else "?"
        return "?"
    own = [n for n in own_nodes(inner) if isinstance(n, ast.Assign) and isinstance(n.value, ast.Call) and "'end'" in norm(n.value).replace('"', "'")
           and isinstance(n.targets[0], ast.Name)]
    cparam = inner.params[1] if len(inner.params) > 1 else None
    # what the walk hands down to the children: the second argument of the recursive call (a local name is followed to its
    # single definition)
    recs = [c for c in own_nodes(inner) if isinstance(c, ast.Call) and norm(c.func) == inner.name and len(c.args) == 2]
    if not recs or not own or cparam is None:
        raise AnchorMissing("propagate_end_to_children: recursive call / own end / container parameter not found")
    handed = recs[0].args[1]
    effs = []
    if isinstance(handed, ast.Name) and handed.id not in (own[0].targets[0].id, cparam):
        effs = [n for n in own_nodes(inner) if isinstance(n, ast.Assign) and norm(n.targets[0]) == handed.id]
        if len(effs) != 1:
            raise AnchorMissing(f"propagate_end_to_children: {len(effs)} definitions of {handed.id}")
    else:
        effs = [ast.Assign(targets=[ast.Name(id="<handed down>", ctx=ast.Store())], value=handed, lineno=recs[0].lineno, col_offset=0)]
        effs[0]._synthetic = True
    ownv = own[0].targets[0].id
    want = {("T", "C"): ("T", "min"), (None, "C"): ("C",), ("T", None): ("T",)}
    got = {k: sel(effs[0].value, {ownv: k[0], cparam: k[1]}) for k in want}
    if "?" in got.values():
        from ..model import Inconclusive
        raise Inconclusive(f"propagate_end_to_children: {norm(effs[0].value)} is not a selection between the task's own end and the container's")
    ok = all(got[k] in want[k] for k in want)
    # the walk starts at every root, whether or not the root has an end of its own
    from .common import enclosing_ifs as _encl
    starts = [c for c in own_nodes(pce) if isinstance(c, ast.Call) and norm(c.func) == "propagate_end_to_children"]
    for c in starts:
        conds = [norm(i.test) for (i, b) in _encl(c, pce.node) if "end" in norm(i.test).lower() and "parent" not in norm(i.test)]
        ctx.ob("R08.8", f"{pce.qual}: {norm(c)[:60]} for every root", (pce, c), not conds,
               "nested containers are reached even below a root without an end" if not conds else
               f"propagation starts only under {conds}: an end on a container nested below an undated root is ignored and its tasks are "
               "anchored at the project end, after their container's deadline",
               key="R08.8|_propagateContainerEndDates|start at every root")
    if not starts:
        raise AnchorMissing("_propagateContainerEndDates: top-level propagate call not found")
    ctx.ob("R08.8", f"{inner.qual}: children receive {norm(effs[0].value)[:60]}", (inner, recs[0] if getattr(effs[0], "_synthetic", False) else effs[0]), ok,
           "a task's own end wins over the end inherited from its container; without one the container's applies" if ok else
           f"selection table (own end, container end) -> handed down: {got}: either a nested container's own (earlier) end is overridden by the "
           "outer container's, or a container without an end of its own hands down nothing and the tasks below it lose the outer deadline",
           key="R08.8|propagate_end_to_children|effective end")
    # ---------------------------------------------------------------- R08.9 calendar answers are not remembered under a lossy key
    from .c02 import memo_rule
    memo_rule(ctx, "R08.9")
    # ---------------------------------------------------------------- R08.11 no slot outside a leave is blocked (= C02 R02.13)
    from .c02 import blocked_interval_rule
    blocked_interval_rule(ctx, "R08.11")
    # ---------------------------------------------------------------- R08.10 a deadline inside a slot (known finding F49)
    # forward mode keeps the offset of a mid-slot bound (slotStartOffset: `earliest_start > slot_start`); the backward walk
    # starts at dateToIdx(deadline) - 1 whatever the position of the deadline inside its slot, so the part of the deadline's
    # slot before the deadline is never offered to the task
    from .common import branch_of as _bof
    bwd_inits = [n for n in own_nodes(sched) if isinstance(n, ast.Assign) and norm(n.targets[0]) == "self.currentSlotIdx"
                 and _bof(sched, n, "forward") == "F"
                 and "dateToIdx" in norm(n.value)]
    if not bwd_inits:
        raise AnchorMissing("TaskScenario.schedule: backward cursor initialisations not found")
    aligned_aware = [c for c in own_nodes(sched) if isinstance(c, ast.Compare) and "idxToDate" in norm(c)
                     and _bof(sched, c, "forward") == "F"
                     and any(w in norm(c) for w in ("latest_end", "end_date"))]
    ctx.ob("R08.10", f"{sched.qual}: backward walk distinguishes a deadline inside a slot ({len(bwd_inits)} cursor initialisations)", (sched, bwd_inits[0]),
           bool(aligned_aware),
           "the slot that contains the deadline is offered up to the deadline" if aligned_aware else
           "the backward cursor always starts one slot before the slot that contains the deadline: when the deadline lies inside a slot "
           "(successor starting at 15:30) the free part of that slot before the deadline stays unused",
           key="R08.10|TaskScenario.schedule|backward mid-slot deadline")
    # ---------------------------------------------------------------- R08.6 task identity
    from .common import local_id_identity_rule
    local_id_identity_rule(ctx, "R08.6", ("core/project.py", "core/task_scenario.py", "core/task.py"),
                           "the backward pass then treats one as having the other's successors / deadline")
    ctx.floor("R08.1", 2)
    ctx.floor("R08.3", 7)
    ctx.floor("R08.4", 3)      # one loop per calendar kind and the selecting test
