"""C03 — a scheduled task receives exactly its effort.

Decided:
  R03.1  team gate: every member booking in bookResources is control dependent on the availability
         and task-limit predicates evaluated over the same collection, and the failing gate returns
  R03.2  the choice between primary and alternative resources is made once (guarded by "not chosen
         yet"), reset only by prepareScheduling/__init__, and returns exactly one of the two lists
  R03.3  effort is credited once per slot, outside the member loop, from the bookings' results
  R03.4  after bookResources() every path of the effort branch reaches the completion test
  R03.5  gate stability: state read by the gate through a loop-invariant root must not be written by
         the booking loop before the last member is booked
  R03.6  bookResource books only under the availability and task-limit facts for the same slot
  R03.7  the stop condition is exactly doneEffort >= effort (tolerance of at most half a second accepted)
  R03.8  the effort credited for a slot is pure arithmetic over the booked seconds and the efficiency:
         no rounding / truncation call on the way from book() to doneEffort
  R03.9  the unused part of the final slot is released in both scheduling directions
  R03.10 the amount booked per team member is bounded by a team-wide quantity (known finding F43)
Not decided: sum = effort to one second (float rounding).
"""
from __future__ import annotations

import ast

from ..cfg import cfg_of
from ..core import Ctx, key_of
from ..dep import data, full
from ..model import AnchorMissing, dotted, norm, own_nodes
from .common import calls_named, ctl_only, facts_of, heap_writes, returns

META = {
    "level": "other",
    "technique": "static analysis: control dependence, must-fact dominance, post-dominance and transitive field effects over the booking loop",
    "explanation": "Rule instances over TaskScenario.bookResources/bookResource/scheduleSlot/_selectBestResources: control "
                   "dependence of each member booking on the team gate, one-time selection guard, single effort credit per "
                   "slot, post-dominance of the completion test, and an effect analysis of what the booking loop writes "
                   "versus what the gate reads."
                   " Also: per-member limit test inside the gate, order table of the stop condition (tolerance bounded by half a second), absence of rounding calls on the credited value path, release of the final slot in both directions and for every team member, single alternative candidate, and a team-wide bound on the amount booked per member (known finding F43)."
                   " Round 3: the booked and credited amount derives from the ledger on every path and arm; process-state rule under Project.schedule."
                   " Round 4: booking records identify the task by identity, seconds needed in the final slot (shared with C06), reservation for every member of a team.",
    "assumptions": [],
}


def team_gate_rules(ctx: Ctx, rid: str):
    """bookResources: all-members gate of a team (shared by C03 R03.1 / C07 R07.5)."""
    brs = ctx.repo.func("TaskScenario.bookResources")
    fd = ctx.dep.of(brs)
    g = cfg_of(brs)
    calls = calls_named(brs, "bookResource")
    if not calls:
        raise AnchorMissing("bookResources does not call bookResource")
    loops = [n for n in own_nodes(brs) if isinstance(n, ast.For)]
    for c in calls:
        node = g.node_containing(c)
        c_atoms = ctl_only(fd.ctl_atoms(node))
        ok = "call:available" in c_atoms and "call:limitsOk" in c_atoms
        ctx.ob(rid, f"{brs.qual}: {norm(c)}", (brs, c), ok,
               "member booking is control dependent on available() and limitsOk() of the team gate" if ok else
               "a team member can be booked although the all-members-available gate was not evaluated",
               key=key_of(rid, brs, c))
        # the booking loop and the gate loop iterate over the same collection
        bl = next((l for l in loops if any(x is c for x in ast.walk(l))), None)
        gates = [l for l in loops if l is not bl and any(isinstance(x, ast.Call) and isinstance(x.func, ast.Attribute)
                                                          and x.func.attr == "available" for x in ast.walk(l))]
        ok = bl is not None and any(norm(gl.iter) == norm(bl.iter) for gl in gates)
        ctx.ob(rid, f"{brs.qual}: gate and booking iterate {norm(bl.iter) if bl is not None else '?'}", (brs, bl or c), ok,
               "gate loop and booking loop run over the same members" if ok else "the gate does not examine the same members that are booked",
               key=key_of(rid, brs, None, "same collection"))
        # the gate applies to teams of effort tasks
        for gl in gates:
            encl = getattr(gl, "_parent", None)
            t = norm(encl.test) if isinstance(encl, ast.If) else ""
            ok = "effort > 0" in t and "len(" in t and "> 1" in t
            ctx.ob(rid, f"{brs.qual}: gate condition {t}", (brs, gl), ok,
                   "gate runs for effort tasks with more than one member" if ok else "gate condition no longer covers every team of an effort task",
                   key=key_of(rid, brs, None, "gate condition"))
        # the gate asks, for EVERY member, both questions for the same slot: available(slot) and limitsOk(slot, member)
        for gl in gates:
            lv = gl.target.id if isinstance(gl.target, ast.Name) else None
            av = [x for x in ast.walk(gl) if isinstance(x, ast.Call) and isinstance(x.func, ast.Attribute) and x.func.attr == "available"]
            lim = [x for x in ast.walk(gl) if isinstance(x, ast.Call) and isinstance(x.func, ast.Attribute) and x.func.attr == "limitsOk"]
            per_member = [x for x in lim if len(x.args) >= 2 and isinstance(x.args[1], ast.Name) and x.args[1].id == lv
                          or any(k.arg == "resource" and isinstance(k.value, ast.Name) and k.value.id == lv for k in x.keywords)]
            same_slot = bool(per_member) and bool(av) and all(
                x.args and norm(x.args[0]) == norm(av[0].args[0]) for x in per_member + av if x.args)
            ok = bool(per_member) and same_slot
            ctx.ob(rid, f"{brs.qual}: gate loop asks limitsOk(slot, {lv}) per member", (brs, gl), ok,
                   "the gate evaluates the task limits for every member (limits restricted to one resource are seen) and for the "
                   "slot it tested for availability" if ok else
                   "the team gate does not call limitsOk(slot, member) for each member inside the gate loop: a task limit "
                   "restricted to one member does not hold the whole team back, so members are booked for different instants",
                   key=key_of(rid, brs, None, "gate per-member limits"))
    # failing gate leaves the function: from the branch taken when a member is unavailable (or over its limits) no member booking
    # is reachable -- whether the gate returns at once, or sets a flag, leaves the loop and returns on the flag
    from .common import feasible_reach
    book_nodes = {g.node_containing(c).id for c in calls if g.node_containing(c) is not None}
    n_gate = 0
    all_gate_loops = [l for l in loops if any(isinstance(x, ast.Call) and isinstance(x.func, ast.Attribute) and x.func.attr == "available" for x in ast.walk(l))
                      and not any(any(x is c for x in ast.walk(l)) for c in calls)]
    for gl in all_gate_loops:
        for i in ast.walk(gl):
            if not isinstance(i, ast.If):
                continue
            t = norm(i.test)
            if not (("available(" in t or "limitsOk(" in t or "is None" in t) and ("not " in t or "is None" in t)):
                continue
            if not i.body:
                continue
            # a test that gives the member up: its branch leaves the gate (break / return) or lowers a flag
            if not any(isinstance(x, (ast.Break, ast.Return)) or (isinstance(x, ast.Assign) and isinstance(x.value, ast.Constant) and x.value.value is False)
                       for st_ in i.body for x in ast.walk(st_)):
                continue
            start = g.node_of(i.body[0]) or g.node_containing(i.body[0])
            if start is None:
                continue
            n_gate += 1
            leaks = start.id in book_nodes or feasible_reach(g, start, book_nodes)
            ctx.ob(rid, f"{brs.qual}: failing gate test `{t[:50]}` leaves without booking", (brs, i), not leaks,
                   "nobody is booked when a member is unavailable" if not leaks else "a failing gate does not stop the booking",
                   key=key_of(rid, brs, None, f"gate return {t[:40]}"))
    if not n_gate:
        raise AnchorMissing("bookResources: no failing-member test found in the team gate")



def booking_guard_rule(ctx: Ctx, rid: str):
    """bookResource books only under the availability and task-limit facts for the same slot (C03 R03.6 / C05 R05.8 / C07)."""
    br = ctx.repo.func("TaskScenario.bookResource")
    fb = facts_of(br)
    gb = cfg_of(br)
    n = 0
    for c in own_nodes(br):
        if isinstance(c, ast.Call) and isinstance(c.func, ast.Attribute) and c.func.attr == "book" and c.args:
            node = gb.node_containing(c)
            slot_txt = norm(c.args[0])
            recv = norm(c.func.value)
            a = fb.holds(node, lambda t, p: p and t == f"{recv}.available({slot_txt})")
            b = fb.holds(node, lambda t, p: p and t.startswith(f"self.limitsOk({slot_txt}, resource"))
            n += 1
            ctx.ob(rid, f"{br.qual}: {norm(c)}", (br, c), a is not None and b is not None,
                   "booked only when the resource is available and the task limits allow the slot for this resource" if (a and b) else
                   f"book() is reached without the availability fact ({a is not None}) or the task-limit fact for this slot and "
                   f"resource ({b is not None})",
                   key=key_of(rid, br, c))
    if not n:
        raise AnchorMissing("bookResource: call of ResourceScenario.book not found")


def run_extra(ctx: Ctx):
    # ---------------------------------------------------------------- R03.15 the head of the start slot is set aside for every resource the task books
    from .c01 import offset_reservation_rule
    offset_reservation_rule(ctx, "R03.15")
    # ---------------------------------------------------------------- R03.13 booking records identify the task by identity
    from .common import local_id_identity_rule
    local_id_identity_rule(ctx, "R03.13", ("core/resource_scenario.py", "core/task_scenario.py"),
                           "the time recorded for one task is then overwritten by (or credited to) a same-named task of another container")
    # ---------------------------------------------------------------- R03.14 seconds needed in the final slot (= C06 R06.1 / C01 R01.6)
    from .c06 import precise_end_rules
    precise_end_rules(ctx, "R03.14")
    # ---------------------------------------------------------------- R03.12 answers never come from state that outlives the question
    from .common import process_state_rule
    process_state_rule(ctx, "R03.12", [ctx.repo.func("Project.schedule")],
                       "the effort credited or the work still open is answered from another task's, slot's or run's value")


def _one_candidate_list(sel, v, seen):
    """v is one of the candidate lists handed in, the empty list, or a list of one member -- never a union of candidates"""
    if isinstance(v, ast.IfExp):
        return _one_candidate_list(sel, v.body, seen) and _one_candidate_list(sel, v.orelse, seen)
    if isinstance(v, ast.List):
        return len(v.elts) <= 1 and not any(isinstance(e, ast.Starred) for e in v.elts)
    if isinstance(v, ast.Name):
        if v.id in seen:
            return True
        seen = seen | {v.id}
        defs = []
        for n in own_nodes(sel):
            if isinstance(n, ast.Assign) and any(isinstance(t, ast.Name) and t.id == v.id for t in n.targets):
                defs.append(n.value)
            elif isinstance(n, ast.AnnAssign) and isinstance(n.target, ast.Name) and n.target.id == v.id and n.value is not None:
                defs.append(n.value)
            elif isinstance(n, (ast.Assign, ast.AugAssign, ast.For, ast.NamedExpr, ast.With, ast.comprehension)):
                tg = n.targets if isinstance(n, ast.Assign) else ([n.target] if hasattr(n, "target") else [])
                for t in tg:
                    if not isinstance(t, ast.Name) and any(isinstance(x, ast.Name) and x.id == v.id and isinstance(x.ctx, ast.Store) for x in ast.walk(t)):
                        return False
                if isinstance(n, (ast.AugAssign, ast.For, ast.NamedExpr)) and isinstance(n.target, ast.Name) and n.target.id == v.id:
                    return False
        grown = any(isinstance(n, ast.Call) and isinstance(n.func, ast.Attribute) and isinstance(n.func.value, ast.Name) and n.func.value.id == v.id
                    and n.func.attr in ("append", "extend", "insert", "__iadd__") for n in own_nodes(sel))
        if grown:
            return False
        if v.id in sel.params:
            return all(_one_candidate_list(sel, d, seen) for d in defs)
        return bool(defs) and all(_one_candidate_list(sel, d, seen) for d in defs)
    return False


def run(ctx: Ctx):
    repo = ctx.repo
    brs = repo.func("TaskScenario.bookResources")
    br = repo.func("TaskScenario.bookResource")
    slot = repo.func("TaskScenario.scheduleSlot")
    sel = repo.func("TaskScenario._selectBestResources")
    fd = ctx.dep.of(brs)
    g = cfg_of(brs)

    # ---------------------------------------------------------------- R03.1
    team_gate_rules(ctx, "R03.1")
    calls = calls_named(brs, "bookResource")
    loops = [n for n in own_nodes(brs) if isinstance(n, ast.For)]

    # ---------------------------------------------------------------- R03.2
    facts = facts_of(brs)
    for fn in repo.all_funcs():
        for atoms, node, tgt in heap_writes(ctx, fn, "_selectedResources"):
            val = node.ast.value if isinstance(node.ast, (ast.Assign, ast.AnnAssign)) else None
            is_reset = isinstance(val, ast.Constant) and val.value is None
            if is_reset:
                ok = fn.name in ("prepareScheduling", "__init__")
                ctx.ob("R03.2", f"{fn.qual}: reset _selectedResources", (fn, node.ast), ok,
                       "selection is reset only before a scheduling run" if ok else
                       "the resource selection is reset in the middle of scheduling: a task may switch between alternatives",
                       key=key_of("R03.2", fn, node.ast))
            else:
                cl = facts_of(fn).holds(node, lambda t, p: "_selectedResources" in t and ((p and "is None" in t) or (not p and t.startswith("hasattr("))))
                ctx.ob("R03.2", f"{fn.qual}: {norm(node.ast)[:70]}", (fn, node.ast), cl is not None,
                       "selection happens only while nothing is selected yet" if cl else
                       "the selection can be recomputed after bookings were made: more than one candidate may be booked",
                       key=key_of("R03.2", fn, node.ast))
    for r in returns(sel):
        v = r.value
        ok = _one_candidate_list(sel, v, set())
        ctx.ob("R03.2", f"{sel.qual}: return {norm(v)}", (sel, r), ok,
               "returns exactly one of the candidate lists" if ok else "selection returns something other than one candidate list",
               key=key_of("R03.2", sel, r))
    # booking uses the stored selection
    for l in loops:
        if any(isinstance(x, ast.Call) and (dotted(x.func) or "").endswith("bookResource") for x in ast.walk(l)):
            ok = "field:_selectedResources" in data(fd.deps_of(l.iter))
            ctx.ob("R03.2", f"{brs.qual}: booking loop over stored selection", (brs, l), ok,
                   "members booked are the stored selection" if ok else "booking loop does not iterate the stored selection",
                   key=key_of("R03.2", brs, None, "loop source"))

    # alternatives are candidates: whenever the alternative list is returned it has been narrowed to ONE candidate
    gsel = cfg_of(sel)

    def narrows(n):
        return n.kind == "stmt" and isinstance(n.ast, ast.Assign) and norm(n.ast.targets[0]) == "alternative_resources" \
            and isinstance(n.ast.value, ast.List) and len(n.ast.value.elts) == 1
    for r in returns(sel):
        if r.value is None or norm(r.value) != "alternative_resources":
            continue
        ok = gsel.all_paths_pass(gsel.entry, gsel.node_of(r), narrows)
        ctx.ob("R03.2", f"{sel.qual}: return alternative_resources is a single candidate", (sel, r), ok,
               "the alternatives are narrowed to the one candidate that completes the task first before they can be returned" if ok else
               "the whole list of alternatives is returned and booked as a team: with `alternative r2, r3` both are booked for every "
               "slot of the task instead of exactly one candidate",
               key=key_of("R03.2", sel, None, "one alternative"))
    # ---------------------------------------------------------------- R03.3
    ws = heap_writes(ctx, brs, "doneEffort")
    for atoms, node, tgt in ws:
        in_loop = any(any(x is node.ast for x in ast.walk(l)) for l in loops)
        d = data(atoms)
        ok = (not in_loop) and "call:bookResource" in d and isinstance(node.ast, ast.AugAssign) and isinstance(node.ast.op, ast.Add)
        ctx.ob("R03.3", f"{brs.qual}: {norm(node.ast)}", (brs, node.ast), ok,
               "effort credited once per slot from the booking results" if ok else
               "doneEffort is not increased exactly once per slot from what bookResource returned",
               key=key_of("R03.3", brs, node.ast))
    if len(ws) != 1:
        ctx.ob("R03.3", f"{brs.qual}: {len(ws)} writes of doneEffort", brs, False, "expected exactly one effort credit per slot",
               key="R03.3|bookResources|count")

    # ---------------------------------------------------------------- R03.4
    gs = cfg_of(slot)
    pdom = gs.postdominators()
    tests = [n for n in gs.nodes if n.kind == "if" and "doneEffort" in norm(n.ast) and "effort" in norm(n.ast)]
    done = 0
    for c in calls_named(slot, "bookResources"):
        node = gs.node_containing(c)
        # only the call in the effort branch
        from .common import enclosing_ifs
        encl = [(i, b) for (i, b) in enclosing_ifs(c, slot.node) if norm(i.test) == "effort > 0" and b == "T"]
        if not encl:
            continue
        done += 1
        ok = any(t.id in pdom.get(node.id, ()) for t in tests)
        ctx.ob("R03.4", f"{slot.qual}: completion test after {norm(c)}", (slot, c), ok,
               "every path from the booking reaches the doneEffort >= effort test" if ok else
               "after booking a slot the task can continue without testing whether the effort is complete (a further slot is booked)",
               key=key_of("R03.4", slot, None, "postdom"))
    if not done:
        raise AnchorMissing("scheduleSlot: bookResources() call in the effort branch not found")

    # ---------------------------------------------------------------- R03.5 gate stability
    lim_ok = repo.func("TaskScenario.limitsOk")
    inc = repo.func("TaskScenario.incLimits")
    reads = _fields_read(ctx, lim_ok)
    writes = _fields_written(ctx, inc)
    # is incLimits reachable from the per-member booking, and limitsOk re-evaluated per member?
    reach_br = ctx.cg.reach([br])
    shared = sorted((reads & writes) - {"_dirty"})
    recheck = bool(calls_named(br, "limitsOk"))
    unstable = bool(shared) and inc in reach_br and recheck
    ctx.ob("R03.5", f"{brs.qual}: gate reads {shared} through self.getAllLimits(); booking loop writes them via {inc.qual}", brs,
           not unstable,
           "the gate's facts are not invalidated by the booking loop" if not unstable else
           "the task-limit counters are read by the gate and by the per-member re-check through the task (loop-invariant root) and "
           "incremented by every member's booking: with one unit left the first member consumes it and the second member's "
           "limitsOk() fails after the gate passed, so the team is booked partially",
           witness={"gate_reads": shared, "writer": inc.qual, "recheck_in": br.qual},
           key="R03.5|TaskScenario.bookResources|task-limit counters")

    # ---------------------------------------------------------------- R03.6
    booking_guard_rule(ctx, "R03.6")
    # ---------------------------------------------------------------- R03.10 a team books the same amount on every member
    # book() takes whatever is left in the member's slot; members whose slots are differently full (one shares its slot with
    # another task) are then booked for different amounts while the maximum is credited.  Necessary for "all members for
    # exactly the same instants": the amount booked per member is bounded by a quantity computed over the whole team.
    for c in calls_named(brs, "bookResource"):
        extra = [a for a in list(c.args[1:]) + [k.value for k in c.keywords]]
        common = any("call:getAvailableSecondsInSlot" in full(fd.deps_of(a)) for a in extra)
        ctx.ob("R03.10", f"{brs.qual}: {norm(c)} books a team-wide amount", (brs, c), common,
               "the member bookings are bounded by the time all members have left in the slot" if common else
               "each member books whatever is left in its own slot: when one member shares the slot with another task the members of a team "
               "work different amounts in that slot, and the larger one is credited",
               key="R03.10|TaskScenario.bookResources|team amount")
    ctx.floor("R03.10", 1)
    # ---------------------------------------------------------------- R03.8 credited effort is not rounded
    ROUNDERS = {"round", "int", "floor", "ceil", "trunc", "quantize", "rint", "divmod"}
    chain = [brs, br, repo.func("ResourceScenario.book"), repo.func("ResourceScenario.getAvailableSecondsInSlot")]
    for fn in chain:
        if fn is brs:
            atoms = set()
            for a, _n, _t in heap_writes(ctx, brs, "doneEffort"):
                atoms |= data(a)
        else:
            atoms = data(ctx.dep.summary(fn).ret)
        bad = sorted(a[5:] for a in atoms if a.startswith("call:") and a[5:] in ROUNDERS)
        ctx.ob("R03.8", f"{fn.qual}: effort value passes through {bad or 'no rounding call'}", fn, not bad,
               "the credited effort is seconds / 3600 x efficiency, unrounded" if not bad else
               f"the effort credited per slot passes through {', '.join(bad)}(): the per-slot rounding error accumulates over the "
               "slots of a long task, so the booked time no longer adds up to the requested effort",
               key=key_of("R03.8", fn, None, "rounding " + ",".join(bad)))
    ctx.floor("R03.8", 4)
    # ---------------------------------------------------------------- R03.7 completion test (shared with C06 R06.5)
    from .c06 import completion_test_rule
    completion_test_rule(ctx, "R03.7")
    ctx.floor("R03.7", 1)
    from .c06 import release_rules
    release_rules(ctx, "R03.9")
    ctx.floor("R03.9", 2)
    # ---------------------------------------------------------------- R03.11 the booked (and credited) amount is what is left in the slot
    from .c01 import slot_increment_rule
    slot_increment_rule(ctx, "R03.11")
    ctx.floor("R03.11", 1)
    ctx.floor("R03.1", 5)
    ctx.floor("R03.2", 7)
    ctx.floor("R03.3", 1)
    ctx.floor("R03.6", 1)


def _ancestors(n):
    p = getattr(n, "_parent", None)
    while p is not None:
        yield p
        p = getattr(p, "_parent", None)


def _fields_read(ctx, fn) -> set:
    out = set()
    for f in ctx.cg.reach([fn]):
        if f.module.rel != "scriptplan/core/limits.py":
            continue
        for n in own_nodes(f):
            if isinstance(n, ast.Attribute) and isinstance(n.ctx, ast.Load):
                out.add(n.attr)
    return out


def _fields_written(ctx, fn) -> set:
    out = set()
    for f in ctx.cg.reach([fn]):
        if f.module.rel != "scriptplan/core/limits.py":
            continue
        sm = ctx.dep.summary(f)
        out |= set(sm.writes)
    return out
