"""C19 — the plan CLI honours its output contract.

Decided:
  R19.1  exactly the report reaches stdout: every stdout-writing call reachable from `plan report`
         (argparse flags left at their defaults are constant-propagated, dead branches cut) is the one
         write of the content read back from the generated file; all other echo sites are err=True
  R19.2  exit-code table: handler class -> exit code, success -> 0, input-validation raises use the
         class mapped to 1; no SystemExit raised by library code may bypass the table; reads of the input
         file inside the command map OSError/UnicodeDecodeError to the "unreadable input" code
  R19.3  the file echoed is selected by the auto report id; JSON report_id := sha256(input bytes)
  R19.5  the JSON rendering returns the keys data / columns
  R19.6  the JSON and the CSV writer give up under the same conditions (sibling agreement)
Not decided: JSON well-formedness of arbitrary content (json.dumps is trusted), byte equality of two runs.
"""
from __future__ import annotations

import ast

from ..cfg import build_cfg
from ..core import Ctx, key_of
from ..dep import data, full
from ..effects import sink_of
from ..model import AnchorMissing, const_str, dotted, norm, own_nodes
from ..typestate import make_sysexit_reach
from .c20 import plan_env

META = {
    "level": "other",
    "explanation": "Effect and path analysis of the `plan report` command: call-graph reachability with constant "
                   "propagation of argparse defaults enumerates every stdout-writing call; the except-clauses are "
                   "read as an exit-code table and checked against the raises that feed them; dataflow ties the "
                   "echoed file and the report_id to their required origins. Necessary conditions only."
                   " Also: Path.read_text/read_bytes as input reads, decoding failures of stdin mapped to the unreadable-input class, the stdin spool as a verbatim single write, and sibling agreement of the early returns of the JSON and CSV writers."
                   " Round 3: the per-format dispatch dominates every normal return of Report.generate, SHA-256 never over re-encoded text anywhere in the module, nothing of the input's name in the temporary project, probes of the input path mapped to exit 1, file and stdin agree on what is empty."
                   " Round 4: memo rules under report generation (rows shared between reports), emptiness agreement compares what is stripped.",
    "assumptions": ["click.echo(..., err=True), logging and print(file=sys.stderr) write to stderr",
                    "json.dumps/json.loads produce/accept well-formed JSON"],
}

EXPECTED_CODES = {"FileNotFoundError": 1, "ReportGenerationError": 2, "Exception": 2}


def _exit_code(call: ast.Call):
    if call.args and isinstance(call.args[0], ast.Constant):
        return call.args[0].value
    if not call.args:
        return 0
    return None


def r19_1(ctx: Ctx, entry, pr, prev):
    fd = ctx.dep.of(entry)
    n = 0
    for fn in sorted(prev, key=lambda f: f.key):
        for c in pr.live_calls(fn):
            s = sink_of(fn, c)
            if not s:
                continue
            if s[0] == "stdout":
                n += 1
                legit = False
                why = ""
                if fn is entry and c.args:
                    atoms = full(fd.deps_of(c.args[0]))
                    legit = "call:read" in atoms and "call:open" in atoms
                    why = "writes the content read back from the generated report file" if legit else \
                        "stdout write in the command whose argument is not the report content"
                else:
                    why = "stdout write reachable from `plan report`: " + " > ".join(pr.chain(prev, fn)[-5:])
                ctx.ob("R19.1", f"{fn.qual}: {norm(c)[:70]}", (fn, c), legit, why, key=key_of("R19.1", fn, c))
            elif s[0] == "stderr" and fn.module.rel == "scriptplan/cli/plan.py":
                n += 1
                ctx.ob("R19.1", f"{fn.qual}: {norm(c)[:70]}", (fn, c), True, "diagnostic goes to stderr", nontrivial=False)
    return n


def r19_2(ctx: Ctx, entry, pr, prev, class_table):
    g = build_cfg(entry, exc_everywhere=True, class_table=class_table)
    # the outermost try of the command
    tries = [st for st in entry.node.body if isinstance(st, ast.Try)]
    if not tries:
        raise AnchorMissing("plan.report has no top-level try statement")
    tr = tries[-1]
    # (a) handler table
    for h in tr.handlers:
        names = [dotted(e) for e in (h.type.elts if isinstance(h.type, ast.Tuple) else [h.type])] if h.type is not None else ["<bare>"]
        hn = g.stmt_node.get(id(h))
        # all normal paths from the handler entry end in sys.exit(<code>)
        codes, falls = set(), False
        seen, todo = {hn.id}, [hn.id]
        while todo:
            a = todo.pop()
            node = g.nodes[a]
            term = False
            if node.kind == "stmt" and node.ast is not None:
                for c in ast.walk(node.ast):
                    if isinstance(c, ast.Call):
                        s = sink_of(entry, c)
                        if s and s[0] == "exit":
                            codes.add(_exit_code(c))
                            term = True
            if term:
                continue
            if node is g.exit:
                falls = True
                continue
            for (b, l) in g.succ[a]:
                if l in ("exc", "excb"):
                    continue
                if b not in seen:
                    seen.add(b)
                    todo.append(b)
        for nm in names:
            exp = EXPECTED_CODES.get(nm)
            ok = (not falls) and len(codes) == 1 and (exp is None or codes == {exp})
            if exp is None and nm not in ("<bare>",):
                # a new handler class: must still end in exactly one exit code
                ok = (not falls) and len(codes) == 1
            ctx.ob("R19.2", f"{entry.qual}: except {nm} -> exit {sorted(codes, key=str)}", (entry, h), ok,
                   f"handler for {nm} ends every path in sys.exit({exp})" if ok else
                   f"handler for {nm}: exit codes {sorted(codes, key=str)}, falls through={falls}, contract says {exp}",
                   key=key_of("R19.2", entry, None, f"except {nm}"))
    for nm, code in EXPECTED_CODES.items():
        if not any(nm in [dotted(e) for e in ((h.type.elts if isinstance(h.type, ast.Tuple) else [h.type]) if h.type is not None else [])]
                   for h in tr.handlers):
            ctx.ob("R19.2", f"{entry.qual}: except {nm} missing", (entry, tr), False,
                   f"no handler maps {nm} to exit code {code}", key=key_of("R19.2", entry, None, f"missing {nm}"))
    # (b) success path: try body's normal end is sys.exit(0)
    last = tr.body[-1] if tr.body else None
    ok = False
    if isinstance(last, ast.Expr) and isinstance(last.value, ast.Call):
        s = sink_of(entry, last.value)
        ok = bool(s and s[0] == "exit" and _exit_code(last.value) == 0)
    if not ok:
        # or: falls out of the try and the function returns normally (click exits 0)
        ok = not any(isinstance(n, ast.Call) and (sink_of(entry, n) or ("", ""))[0] == "exit" and _exit_code(n) not in (0,)
                     for st in tr.body for n in ast.walk(st))
    ctx.ob("R19.2", f"{entry.qual}: success -> exit 0", (entry, last or tr), ok,
           "normal completion leaves with status 0" if ok else "success path does not end with status 0",
           key=key_of("R19.2", entry, None, "success"))
    # (c) input-validation raises use the class mapped to 1
    fnf = [nm for nm, c in EXPECTED_CODES.items() if c == 1]
    vt = ctx.repo.func("validate_tjp_file")
    raises = [n for n in own_nodes(vt) if isinstance(n, ast.Raise)]
    for r in raises:
        cls = dotted(r.exc) if r.exc is not None else None
        ok = cls in fnf
        ctx.ob("R19.2", f"{vt.qual}: {norm(r)[:60]}", (vt, r), ok,
               "input validation failure raises the exit-1 class" if ok else f"input validation raises {cls}, which is not mapped to exit 1",
               key=key_of("R19.2", vt, r))
    # validation covers: missing, not-a-file, empty
    # (the probes may be bound to names first: the tests are followed through local assignments)
    from ..order import local_resolver as _lr19
    _res = _lr19(vt.node)

    def _expand(e, depth=0):
        t = norm(e)
        if depth < 4:
            for x in ast.walk(e):
                if isinstance(x, ast.Name):
                    for v in _res(x):
                        t += " " + _expand(v, depth + 1)
        return t
    tests = " ".join(_expand(n.test) for n in own_nodes(vt) if isinstance(n, ast.If))
    for need, what in (("exists", "missing file"), ("is_file", "directory / non-file"), ("st_size", "empty file")):
        ok = need in tests and len(raises) >= 1
        ctx.ob("R19.2", f"{vt.qual}: checks {what}", vt, ok,
               f"validate_tjp_file tests {need}" if ok else f"validate_tjp_file no longer tests {need} ({what} would not exit 1)",
               key=f"R19.2|validate_tjp_file|{need}")
    # stdin: empty input -> exit-1 class
    for n in own_nodes(entry):
        if isinstance(n, ast.If) and "stdin" in norm(n.test) and "strip" in norm(n.test):
            rr = [x for b in n.body for x in ast.walk(b) if isinstance(x, ast.Raise)]
            ok = bool(rr) and all(dotted(x.exc) in fnf for x in rr)
            ctx.ob("R19.2", f"{entry.qual}: empty stdin", (entry, n), ok,
                   "empty stdin raises the exit-1 class" if ok else "empty stdin is not mapped to exit 1",
                   key=key_of("R19.2", entry, None, "empty stdin"))
    # engine failure -> ReportGenerationError
    for n in own_nodes(entry):
        if isinstance(n, ast.If) and norm(n.test) in ("not success",):
            rr = [x for b in n.body for x in ast.walk(b) if isinstance(x, ast.Raise)]
            ok = bool(rr) and all(EXPECTED_CODES.get(dotted(x.exc)) == 2 for x in rr)
            ctx.ob("R19.2", f"{entry.qual}: engine failure", (entry, n), ok,
                   "engine failure raises a class mapped to exit 2" if ok else "engine failure is not mapped to exit 2",
                   key=key_of("R19.2", entry, None, "engine failure"))
    # (d) no other way out: SystemExit from callees inside the try
    sx = make_sysexit_reach(ctx, pr, entry)
    for st in tr.body:
        for c in ast.walk(st):
            if isinstance(c, ast.Call):
                ch = sx(entry, c)
                if ch:
                    ctx.ob("R19.2x", f"{entry.qual}: {norm(c)[:60]}", (entry, c), False,
                           "library code reachable from this call can call sys.exit(); SystemExit is not an Exception, so the "
                           "command leaves with the library's status, bypassing the exit-code table (and the error text is "
                           "swallowed by the stderr capture): " + " > ".join(ch),
                           witness={"chain": ch}, key=key_of("R19.2x", entry, c))
    if not any(o.rule == "R19.2x" for o in ctx.obs):
        ctx.ob("R19.2x", f"{entry.qual}: no SystemExit bypass", entry, True,
               "no call inside the command's try can raise SystemExit from library code")
    # (e) unreadable / undecodable input: reads of the input path
    fd = ctx.dep.of(entry)
    sites = []
    for fn in (entry, ctx.repo.func("create_auto_report_file")):
        fdd = ctx.dep.of(fn)
        for c in own_nodes(fn):
            if isinstance(c, ast.Call):
                s = sink_of(fn, c)
                if s and s[0] == "fread" and (c.args or s[1].startswith("Path.")):
                    atoms = full(fdd.deps_of(c.func.value if s[1].startswith("Path.") else c.args[0]))
                    if atoms & {"param:tjp_file", "param:tjp_path", "call:validate_tjp_file"} \
                            and "call:mkdtemp" not in atoms:      # not a file of the private output dir
                        sites.append((fn, c))
    # stdin is input too: a decoding failure of the piped bytes must land in the "unreadable input" class
    for c in own_nodes(entry):
        if isinstance(c, ast.Call) and dotted(c.func) in ("sys.stdin.read", "sys.stdin.buffer.read"):
            textmode = dotted(c.func) == "sys.stdin.read"
            decs = [d for d in own_nodes(entry) if isinstance(d, ast.Call) and isinstance(d.func, ast.Attribute) and d.func.attr == "decode"]
            guarded = False
            for d in ([c] if textmode else decs):
                p_ = getattr(d, "_parent", None)
                while p_ is not None and p_ is not entry.node:
                    if isinstance(p_, ast.Try) and any(d is y for st in p_.body for y in ast.walk(st)):
                        for h in p_.handlers:
                            names = [norm(h.type)] if h.type is not None and not isinstance(h.type, ast.Tuple) else [norm(e) for e in getattr(h.type, "elts", [])]
                            if any(n_ in ("UnicodeDecodeError", "UnicodeError", "ValueError") for n_ in names) and any(
                                    isinstance(x, ast.Raise) and x.exc is not None and EXPECTED_CODES.get(norm(x.exc.func if isinstance(x.exc, ast.Call) else x.exc)) == 1
                                    for st in h.body for x in ast.walk(st)):
                                guarded = True
                    p_ = getattr(p_, "_parent", None)
            ok = guarded and (textmode or bool(decs))
            ctx.ob("R19.2r", f"{entry.qual}: {norm(c)} decoding failure -> exit 1", (entry, c), ok,
                   "bytes that are not valid UTF-8 on stdin are reported as unreadable input" if ok else
                   "a decoding failure of the piped input is not mapped to the unreadable-input class: it surfaces in the generic handler "
                   "(exit 2) while a file with the same bytes exits 1",
                   key=key_of("R19.2r", entry, None, "stdin decode"))
    if not any(fn is not entry for fn, _c in sites):
        raise AnchorMissing("create_auto_report_file: read of the input file not found")
    for fn, c in sites:
        # which handler of the command receives OSError / UnicodeDecodeError raised here?
        caught = _first_handler(ctx, entry, tr, fn, c, class_table)
        ok = caught is not None and EXPECTED_CODES.get(caught) == 1
        ctx.ob("R19.2r", f"{fn.qual}: {norm(c)[:60]}", (fn, c), ok,
               "read errors of the input file are mapped to exit 1" if ok else
               f"an OSError/UnicodeDecodeError while reading the input is handled by `except {caught}` "
               f"(exit {EXPECTED_CODES.get(caught)}), the contract says unreadable input exits 1",
               key=key_of("R19.2r", fn, c))


def _first_handler(ctx, entry, tr, fn, call, class_table):
    """Class name of the first handler that catches OSError/UnicodeDecodeError raised at `call`,
    looking at enclosing try statements in fn, then (if fn is a callee) at the command's try."""
    def sub(name, of):
        from ..cfg import BUILTIN_EXC_PARENT
        seen = set()
        while name and name not in seen:
            if name == of:
                return True
            seen.add(name)
            name = class_table.get(name, BUILTIN_EXC_PARENT.get(name))
        return False

    mode = ""
    if len(call.args) > 1 and const_str(call.args[1]):
        mode = const_str(call.args[1])
    needed = ("OSError",) if "b" in mode else ("OSError", "UnicodeDecodeError")

    def scan(node, top):
        p = getattr(node, "_parent", None)
        child = node
        while p is not None and p is not top:
            if isinstance(p, ast.Try) and child in p.body:
                caught = set()
                for h in p.handlers:
                    hit = None
                    if h.type is None:
                        hit = "<bare>"
                    else:
                        for e in (h.type.elts if isinstance(h.type, ast.Tuple) else [h.type]):
                            nm = dotted(e)
                            # plan.FileNotFoundError shadows the builtin: it is NOT an OSError
                            if nm in class_table:
                                continue
                            for x in needed:
                                if sub(x, nm):
                                    caught.add(x)
                                    hit = nm
                    if hit and all(x in caught for x in needed):
                        # a handler that converts: `raise X(...)` decides the effective class
                        conv = [dotted(r.exc) for st in h.body for r in ast.walk(st)
                                if isinstance(r, ast.Raise) and r.exc is not None]
                        if conv and len(set(conv)) == 1:
                            return conv[0]
                        return hit
            child = p
            p = getattr(p, "_parent", None)
        return None

    r = scan(call, fn.node)
    if r:
        return r
    if fn is not entry:
        for c in own_nodes(entry):
            if isinstance(c, ast.Call) and fn in ctx.cg.resolve_call(entry, c):
                r = scan(c, entry.node)
                if r:
                    return r
    return None


def r19_3(ctx: Ctx, entry):
    fd = ctx.dep.of(entry)
    # the stdout write's file: open(<primary>) whose content is echoed
    opened = []
    for c in own_nodes(entry):
        if isinstance(c, ast.Call):
            s = sink_of(entry, c)
            if s and s[0] == "fread" and c.args:
                atoms = full(fd.deps_of(c.args[0]))
                if "call:mkdtemp" in atoms or "call:glob" in atoms:
                    opened.append((c, atoms))
    if not opened:
        raise AnchorMissing("plan.report: no read of a generated file found")
    for c, atoms in opened:
        ok = bool(atoms & {"call:create_auto_report_file", "call:token_hex"})
        ctx.ob("R19.3", f"{entry.qual}: {norm(c)[:60]}", (entry, c), ok,
               "the file read back is selected by the auto report id" if ok else
               "the file read back and echoed does not depend on the auto report id (first match of a directory glob): "
               "a project that defines its own report of the same format can be echoed instead",
               key=key_of("R19.3", entry, c))
    # report_id
    done = False
    for n in own_nodes(entry):
        if isinstance(n, ast.Assign):
            for t in n.targets:
                if isinstance(t, ast.Subscript) and const_str(t.slice) == "report_id":
                    atoms = full(fd.deps_of(n.value))
                    ok = "call:sha256" in atoms and "call:read" in atoms and "call:hexdigest" in atoms
                    ctx.ob("R19.3", f"{entry.qual}: {norm(n)[:60]}", (entry, n), ok,
                           "report_id derives from sha256 of the bytes read from the input" if ok else
                           "report_id does not derive from the SHA-256 of the input bytes", key=key_of("R19.3", entry, n))
                    done = True
    if not done:
        ctx.ob("R19.3", f"{entry.qual}: report_id assignment", entry, False,
               "no assignment to ['report_id'] in the command", key="R19.3|report|report_id-missing")
    # wherever the command's module computes a SHA-256, it is over bytes as they were read -- never over text that was decoded
    # (universal newlines, error handlers) and encoded again
    for hf in sorted((f for f in ctx.cg.reach([entry]) if f.module.rel == entry.module.rel and f is not entry), key=lambda f: f.key):
        hfd = ctx.dep.of(hf)
        for c in own_nodes(hf):
            if isinstance(c, ast.Call) and dotted(c.func) in ("hashlib.sha256",):
                atoms = full(hfd.deps_of(c))
                ok = "call:encode" not in atoms
                ctx.ob("R19.3", f"{hf.qual}: {norm(c)[:60]}", (hf, c), ok,
                       "hash input is not re-encoded text" if ok else
                       "the SHA-256 is taken over text that was decoded and encoded again: CRLF / lone-CR input (universal newlines) or "
                       "undecodable bytes give a report_id that is not the SHA-256 of the input bytes",
                       key=key_of("R19.3", hf, c))
    for c in own_nodes(entry):
        if isinstance(c, ast.Call) and dotted(c.func) in ("hashlib.sha256",):
            atoms = full(fd.deps_of(c))
            if "call:encode" in atoms:
                ctx.ob("R19.3", f"{entry.qual}: {norm(c)[:60]} over re-encoded text", (entry, c), False,
                       "the SHA-256 is taken over text that was decoded and encoded again, not over the input bytes",
                       key=key_of("R19.3", entry, c, "encode"))
            ok = "call:read" in atoms and bool(atoms & {"param:tjp_file", "call:validate_tjp_file", "call:mkstemp"})
            ctx.ob("R19.3", f"{entry.qual}: {norm(c)[:60]}", (entry, c), ok,
                   "hash input is the project file's bytes" if ok else "hash input is not the project file",
                   key=key_of("R19.3", entry, c))


def r19_3_spool(ctx: Ctx, entry):
    """stdin channel: the spool file the hash and the parser read is a verbatim copy of what was read from stdin."""
    from ..order import local_resolver
    res = local_resolver(entry.node)
    n = 0
    for w in own_nodes(entry):
        if not isinstance(w, ast.With):
            continue
        for it in w.items:
            c = it.context_expr
            if isinstance(c, ast.Call) and dotted(c.func) == "os.fdopen" and isinstance(it.optional_vars, ast.Name):
                f = it.optional_vars.id
                writes = [x for st in w.body for x in ast.walk(st) if isinstance(x, ast.Call) and isinstance(x.func, ast.Attribute)
                          and x.func.attr in ("write", "writelines") and norm(x.func.value) == f]
                n += 1

                def is_stdin(e):
                    if isinstance(e, ast.Name):
                        vals = res(e)
                        return len(vals) == 1 and is_stdin(vals[0])
                    return isinstance(e, ast.Call) and dotted(e.func) in ("sys.stdin.read", "sys.stdin.buffer.read")
                ok = len(writes) == 1 and len(writes[0].args) == 1 and is_stdin(writes[0].args[0])
                ctx.ob("R19.3", f"{entry.qual}: stdin spool written by {[norm(x)[:40] for x in writes]}", (entry, w), ok,
                       "the spool file holds exactly what was read from stdin (one write of the content)" if ok else
                       "the temporary copy of stdin is not a verbatim copy (more than one write, or a value other than the content "
                       "read from stdin): report_id is no longer the SHA-256 of the input bytes and file / stdin runs differ",
                       key="R19.3|report|stdin spool verbatim")
    if not n:
        raise AnchorMissing("plan.report: stdin spool (os.fdopen) not found")


def _name_as_text(fn, e, pth: str, seen=None, depth=0) -> bool:
    """Does the parameter `pth` (the input's NAME) reach the written text `e` as text -- directly, formatted, or through local names --
    rather than as the file that is opened and read?  (`f.read()` of a file opened by that name is the content, not the name.)"""
    from ..order import local_resolver
    seen = set() if seen is None else seen
    if depth > 12:
        return True
    if isinstance(e, ast.Constant):
        return False
    if isinstance(e, ast.Name):
        if e.id == pth:
            return True
        if e.id in seen:
            return False
        seen = seen | {e.id}
        return any(_name_as_text(fn, d, pth, seen, depth + 1) for d in local_resolver(fn.node)(e))
    if isinstance(e, ast.Call):
        if isinstance(e.func, ast.Attribute) and e.func.attr in ("read", "readlines", "read_text", "read_bytes") and not e.args:
            return False
        parts = list(e.args) + [k.value for k in e.keywords]
        if isinstance(e.func, ast.Attribute):
            parts.append(e.func.value)
        return any(_name_as_text(fn, x, pth, seen, depth + 1) for x in parts)
    return any(_name_as_text(fn, x, pth, seen, depth + 1) for x in ast.iter_child_nodes(e) if isinstance(x, ast.expr))


def r19_10(ctx: Ctx, entry):
    """report_id is the SHA-256 of the input BYTES: what reaches hashlib.sha256(..) in `plan report` is read in binary mode
    (`open(p, "rb").read()`, `read_bytes()`, `sys.stdin.buffer.read()`), directly or through local names -- never the re-encoding of
    decoded text (text mode translates CRLF / CR to LF, so two different inputs get one id and the id is not the hash of the bytes)."""
    from ..order import local_resolver
    res = local_resolver(entry.node)
    n = 0

    def binary(e, seen=frozenset(), depth=0):
        if depth > 8:
            return False
        if isinstance(e, ast.Name):
            if e.id in seen:
                return False
            ds = res(e)
            return bool(ds) and all(binary(d, seen | {e.id}, depth + 1) for d in ds)
        if isinstance(e, ast.Call) and isinstance(e.func, ast.Attribute):
            if e.func.attr == "read_bytes":
                return True
            if e.func.attr == "read" and not e.args:
                if "stdin.buffer" in norm(e.func.value):
                    return True
                if isinstance(e.func.value, ast.Name):
                    # the file object: a with-target of open(.., "rb")
                    for w in own_nodes(entry):
                        if isinstance(w, ast.With):
                            for it in w.items:
                                if isinstance(it.optional_vars, ast.Name) and it.optional_vars.id == e.func.value.id and isinstance(it.context_expr, ast.Call) \
                                        and norm(it.context_expr.func).split(".")[-1] == "open" and any(
                                            isinstance(a_, ast.Constant) and isinstance(a_.value, str) and "b" in a_.value
                                            for a_ in list(it.context_expr.args[1:]) + [k.value for k in it.context_expr.keywords if k.arg == "mode"]):
                                    return True
            return False
        return False
    for c in own_nodes(entry):
        if isinstance(c, ast.Call) and (dotted(c.func) or "").endswith("sha256") and c.args:
            n += 1
            ok = binary(c.args[0])
            ctx.ob("R19.10", f"{entry.qual}: {norm(c)[:60]} hashes the input bytes", (entry, c), ok,
                   "the hashed value is what a binary read returned" if ok else
                   f"the value hashed for report_id ({norm(c.args[0])[:50]}) is not the result of a binary read: decoded and re-encoded text differs from "
                   "the input bytes (CRLF / CR line endings), so report_id is not the SHA-256 of the input and different inputs share an id",
                   key=key_of("R19.10", entry, None, "hash of bytes"))
    if not n:
        raise AnchorMissing("plan.report: no hashlib.sha256(..) call found")


def r19_8(ctx: Ctx, entry):
    """Input handling of the command:
      (a) what is written into the temporary project file is the input's content, constants and the random report id -- never
          the input's NAME (a name is not project text: a newline in it ends the comment it was quoted in);
      (b) every file-system probe of validate_tjp_file sits in a try that maps OSError to the exit-1 class;
      (c) file and stdin use the same notion of "empty" (white space only), so the same bytes give the same exit code."""
    repo = ctx.repo
    ca = repo.func("create_auto_report_file")
    fd = ctx.dep.of(ca)
    pth = ca.params[0] if ca.params else "tjp_path"
    n = 0
    for c in own_nodes(ca):
        if isinstance(c, ast.Call) and isinstance(c.func, ast.Attribute) and c.func.attr in ("write", "writelines") and c.args:
            n += 1
            ok = not _name_as_text(ca, c.args[0], pth)
            ctx.ob("R19.8", f"{ca.qual}: {norm(c)[:70]}", (ca, c), ok,
                   "content, constants and the report id only" if ok else
                   f"the text written into the temporary project file is built from the input's name ({pth}), not from its content: a file name "
                   "with a newline (or a quote) becomes project text, and the same bytes give a different result from a file than from stdin",
                   key=key_of("R19.8", ca, c.args[0], "name as project text"))
    if n < 1:
        raise AnchorMissing("create_auto_report_file: writes of the temporary project file not found")
    vt = repo.func("validate_tjp_file")
    probes = [c for c in own_nodes(vt) if isinstance(c, ast.Call) and isinstance(c.func, ast.Attribute)
              and c.func.attr in ("exists", "is_file", "is_dir", "stat", "read_bytes", "read_text", "resolve", "lstat")]
    if not probes:
        raise AnchorMissing("validate_tjp_file: no file-system probe found")
    for c in probes:
        guarded = False
        p_ = getattr(c, "_parent", None)
        while p_ is not None and p_ is not vt.node:
            if isinstance(p_, ast.Try) and any(c is y for st in p_.body for y in ast.walk(st)):
                for h in p_.handlers:
                    names = [norm(h.type)] if h.type is not None and not isinstance(h.type, ast.Tuple) else [norm(e) for e in getattr(h.type, "elts", [])]
                    if any(n_ in ("OSError", "Exception", "IOError", "EnvironmentError") for n_ in names) and any(
                            isinstance(x, ast.Raise) and x.exc is not None and EXPECTED_CODES.get(norm(x.exc.func if isinstance(x.exc, ast.Call) else x.exc)) == 1
                            for st in h.body for x in ast.walk(st)):
                        guarded = True
            p_ = getattr(p_, "_parent", None)
        ctx.ob("R19.8", f"{vt.qual}: probe {norm(c)[:40]}", (vt, c), guarded,
               "an OSError of the probe is reported as unusable input (exit 1)" if guarded else
               f"{norm(c)[:40]} can raise OSError (name too long, no permission on a directory of the path); nothing maps it to the exit-1 class, "
               "so a missing input ends as an internal error (exit 2)",
               key=key_of("R19.8", vt, c, "probe guarded"))
    # (c) emptiness
    def strip_kind(fn, pred):
        """'bytes' / 'text' / None: what the emptiness test strips (white space of bytes is ASCII only; of text it includes NBSP etc.)"""
        from ..order import local_resolver as _lr19b
        res_ = _lr19b(fn.node)
        for x in own_nodes(fn):
            if isinstance(x, ast.Call) and isinstance(x.func, ast.Attribute) and x.func.attr == "strip" and pred(x):
                recv = x.func.value
                t = norm(recv)
                vals = res_(recv) if isinstance(recv, ast.Name) else [recv]
                tv = " ".join(norm(v) for v in vals) + " " + t
                if ".decode(" in tv:
                    return "text"
                if "read_bytes" in tv or "buffer.read" in tv or "bytes" in t.lower():
                    return "bytes"
                return "text"
        return None
    file_kind = strip_kind(vt, lambda x: True)
    stdin_kind = strip_kind(entry, lambda x: "stdin" in norm(x))
    stdin_test = any(isinstance(i, ast.If) and "stdin" in norm(i.test) and norm(i.test).startswith("not ") for i in own_nodes(entry))
    if not stdin_test:
        raise AnchorMissing("plan.report: emptiness test of stdin not found")
    ok = file_kind == stdin_kind
    file_strip, stdin_strip = file_kind, stdin_kind
    ctx.ob("R19.8", f"empty input: file test strips {file_strip}, stdin test strips {stdin_strip}", vt, ok,
           "a file and the same bytes on stdin are judged empty alike" if ok else
           "a file is empty only at size 0 while stdin is empty when it holds nothing but white space (or the reverse): the same bytes exit 1 "
           "through one channel and 2 through the other",
           key="R19.8|validate_tjp_file|empty alike")


def r19_7(ctx: Ctx):
    """Report.generate reaches its per-format dispatch on every path that returns normally: there is no way to "succeed" without
    having asked each requested format's writer (a header-only table is still a report; CFG dominance)."""
    from ..cfg import cfg_of
    gen = ctx.repo.func("Report.generate")
    g = cfg_of(gen)
    loops = [n for n in g.nodes if n.ast is not None and isinstance(n.ast, ast.For) and n.kind in ("for", "loop", "foriter", "while")
             and "format" in norm(n.ast.iter).lower()]
    if not loops:
        loops = [n for n in g.nodes if isinstance(n.ast, ast.For) and "format" in norm(n.ast.iter).lower()]
    if not loops:
        raise AnchorMissing("Report.generate: loop over the requested formats not found")
    head = loops[0]
    dom = g.dominators()
    rets = [n for n in g.nodes if isinstance(n.ast, ast.Return)]
    if not rets:
        raise AnchorMissing("Report.generate: no return statement")
    for r in rets:
        ok = head.id in dom.get(r.id, ())
        ctx.ob("R19.7", f"{gen.qual}: return at line {r.ast.lineno} is reached through the format loop", (gen, r.ast), ok,
               "every requested format's writer has been asked before generate() reports success" if ok else
               "this return leaves generate() before the per-format dispatch: no file is written although the call reports success, and "
               "`plan report` then fails with 'no output file' (exit 2) for a project whose report is merely empty",
               key=key_of("R19.7", gen, None, f"return {norm(r.ast)}"))


def r19_6(ctx: Ctx):
    """Sibling agreement of the two writers the command can be asked for: _generate_json and _generate_csv give up (return without
    writing) under the same conditions, modulo the format name -- otherwise one format fails where the other succeeds."""
    repo = ctx.repo
    sigs = {}
    for fmt in ("json", "csv"):
        f = repo.func(f"Report._generate_{fmt}")
        conds = []
        for i in own_nodes(f):
            if isinstance(i, ast.If) and any(isinstance(x, ast.Return) for x in i.body):
                conds.append(norm(i.test).replace(fmt, "FMT"))
        sigs[fmt] = (f, sorted(conds))
    ok = sigs["json"][1] == sigs["csv"][1] and bool(sigs["json"][1])
    ctx.ob("R19.6", f"writers give up under the same conditions: json {sigs['json'][1]} / csv {sigs['csv'][1]}", sigs["csv"][0], ok,
           "both formats are written for the same contents" if ok else
           "one writer returns without writing where the other writes: `plan report --csv` and `plan report` disagree on success for the same project "
           "(a header-only table is still a report)",
           key="R19.6|Report._generate_csv|early returns")


def r19_5(ctx: Ctx):
    tj = ctx.repo.func("ReportTable.to_json")
    keys = set()
    for n in own_nodes(tj):
        if isinstance(n, ast.Return) and isinstance(n.value, ast.Dict):
            keys |= {const_str(k) for k in n.value.keys if k is not None}
    ok = {"data", "columns"} <= keys
    ctx.ob("R19.5", f"{tj.qual}: returned keys {sorted(k for k in keys if k)}", tj, ok,
           "JSON rendering carries data and columns" if ok else "JSON rendering lacks data/columns keys",
           key="R19.5|ReportTable.to_json|keys")


def run_extra(ctx: Ctx):
    r19_10(ctx, ctx.repo.func("report", rel="scriptplan/cli/plan.py"))
    # ---------------------------------------------------------------- R19.9 nothing rendered is answered from state that outlives the question
    from .common import process_state_rule
    process_state_rule(ctx, "R19.9", [ctx.repo.func("Report.generate")],
                       "a row or cell rendered for one report (its time format, its columns) is handed to another, so the emitted report depends on what other reports the file defines", census=False)


def run(ctx: Ctx):
    entry, argc, pr, prev, class_table = plan_env(ctx)
    ctx.stats["functions_reachable_from_plan_report"] = len(prev)
    r19_1(ctx, entry, pr, prev)
    r19_2(ctx, entry, pr, prev, class_table)
    r19_3(ctx, entry)
    r19_3_spool(ctx, entry)
    r19_5(ctx)
    r19_6(ctx)
    r19_7(ctx)
    r19_8(ctx, entry)
    ctx.floor("R19.8", 6)
    ctx.floor("R19.7", 1)
    ctx.stats["branches_decided_by_constants"] = len(set(pr.pruned_branches))
    ctx.floor("R19.1", 5)
    ctx.floor("R19.2", 10)
    ctx.floor("R19.3", 4)
