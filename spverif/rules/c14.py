"""C14 — shifting the calendar by whole weeks shifts the schedule by the same amount.

Decided (EQV typing, spverif/eqv.py): in every function that turns absolute dates into decisions
(period counters, slot <-> date conversion, default calendar, working-hours test, leave marking, the
bound computation of TaskScenario.schedule, horizon extension, the final-slot end) no branch condition,
subscript index or returned value is derived from a quantity that is neither invariant under a whole-week
shift nor an instant that moves with it (ISO year / week number, .year/.month/.day, replace(month|day|year),
relativedelta(months|years), instant-vs-constant comparison).  If all decisions are invariant the shifted
run takes the same decisions step by step and every produced instant moves by the offset.
R14.2: every relativedelta(...) offset uses relative (plural) fields only; singular fields set an absolute calendar field.
R14.3: the project end derived from a month / year frame must not anchor backward tasks (known finding F55).
Not decided: the relation between two concrete runs; non-UTC zones (DST) are outside the property's premise.
"""
from __future__ import annotations

import ast

from ..core import Ctx, key_of
from ..eqv import Eqv
from ..model import AnchorMissing, norm

META = {
    "level": "other",
    "technique": "static analysis: shift-equivariance abstract typing (INV / EQUI / NON) of calendar code",
    "explanation": "Abstract interpretation of the date/index code with the domain {invariant, equivariant, neither}: one "
                   "obligation per decision point (branch condition, subscript index, returned value) of each scoped "
                   "function; an obligation fails only when an explicitly non-invariant source (ISO week/year number, "
                   "calendar month/day/year, month/year deltas) reaches it."
                   " Also: keyword census of every relativedelta call (relative fields only) and the month/year frame end used as an anchor of backward tasks (known finding F55)."
                   " Round 3: no month-length table without leap handling, limit-copy completeness, process-state rule with census."
                   " Round 4: limit period index under a whole-week shift.",
    "assumptions": ["UTC project (the property's premise): time-zone conversion is a fixed offset",
                    "project duration in months/years sizes the horizon; its use as the anchor of backward tasks without a deadline is reported by R14.3 (known finding F55)"],
}

SCOPE = [
    "Limit._idx_to_sb_idx", "Limit.reset", "Limit.ok", "Limit.inc", "Project.dateToIdx", "Project.idxToDate",
    "Project._isDefaultWorkingTime", "Project.isWorkingTime", "Project.initScoreboards", "Project.scoreboardSize",
    "Project._extendProjectEndIfNeeded", "Scoreboard.__init__", "Scoreboard.dateToIdx", "Scoreboard.idxToDate",
    "Scoreboard.collectIntervals", "WorkingHours.onShift", "WorkingHours._convert_to_timezone",
    "ResourceScenario.onShift", "ResourceScenario.initScoreboard", "TaskScenario.schedule",
    "TaskScenario._calculatePreciseEndTimeAndRelease", "TaskScenario._computeStartFromEnd",
    "TaskScenario._getSuccessorEarliestStart", "TaskScenario._estimateCompletionTime", "TaskScenario.bookResources",
    "Limits.setLimit", "ModelBuilder._apply_global_attributes", "TJPTransformer.date",
]


def eqv_function(ctx: Ctx, rule: str, qual: str):
    fn = ctx.repo.func(qual)
    e = Eqv(fn)
    fs = e.findings()
    n = e.decisions()
    ctx.stats["eqv_decision_points"] = ctx.stats.get("eqv_decision_points", 0) + n
    if not fs:
        ctx.ob(rule, f"{qual}: {n} decision points, all shift-invariant or equivariant", fn, True,
               "no decision, index or result derives from a week-shift-variant quantity", nontrivial=n > 0)
    for f in fs:
        ctx.ob(rule, f"{qual}: {f.kind} {norm(f.node)[:70]}", (fn, f.node), False,
               f"{f.kind} depends on {norm(f.origin)[:80]}, which is neither invariant under a whole-week shift nor an "
               "instant that moves with it: the shifted project can take a different decision here (year ends, 53-week years)",
               witness={"origin": norm(f.origin), "origin_line": getattr(f.origin, "lineno", None)},
               key=key_of(rule, fn, None, f"{f.kind}|{norm(f.origin)[:80]}"))
    return len(fs)


_RELATIVE = {"years", "months", "weeks", "days", "hours", "minutes", "seconds", "microseconds", "leapdays"}
_ABSOLUTE = {"year", "month", "day", "hour", "minute", "second", "microsecond", "weekday", "yearday", "nlyearday"}


def _delta_keywords(fn, call):
    """keyword names a relativedelta(...) call can receive; None if they cannot be enumerated"""
    import ast as _a
    from ..order import local_resolver
    names = set()
    for k in call.keywords:
        if k.arg is not None:
            names.add(k.arg)
            continue
        v = k.value
        if isinstance(v, _a.Name):
            vals = local_resolver(fn.node)(v)
            if len(vals) != 1:
                return None
            v = vals[0]
        if not isinstance(v, _a.Dict):
            return None
        for key in v.keys:
            if isinstance(key, _a.Constant) and isinstance(key.value, str):
                names.add(key.value)
                continue
            # key computed from a literal table: {"d": "days", ...}[unit]  /  table.get(unit)
            cands = [key]
            if isinstance(key, _a.Name):
                cands = local_resolver(fn.node)(key)
            got = False
            for c in cands:
                d = c.value if isinstance(c, _a.Subscript) else (c.func.value if isinstance(c, _a.Call) and isinstance(c.func, _a.Attribute)
                                                                 and c.func.attr == "get" else None)
                if isinstance(d, _a.Name):
                    dv = local_resolver(fn.node)(d)
                    if not dv:
                        # a module-level table
                        dv = [st.value for st in fn.module.tree.body if isinstance(st, (_a.Assign, _a.AnnAssign)) and st.value is not None
                              and any(isinstance(t, _a.Name) and t.id == d.id for t in (st.targets if isinstance(st, _a.Assign) else [st.target]))]
                    d = dv[0] if len(dv) == 1 else None
                elif isinstance(d, _a.Attribute) and isinstance(d.value, _a.Name) and fn.cls is not None and \
                        d.value.id in ("cls", "self", fn.cls.name):
                    # a class-level table (bound once in the class body, never re-bound through self. / cls. in the module)
                    dv = [st.value for st in fn.cls.node.body if isinstance(st, (_a.Assign, _a.AnnAssign)) and st.value is not None
                          and any(isinstance(t, _a.Name) and t.id == d.attr for t in (st.targets if isinstance(st, _a.Assign) else [st.target]))]
                    rebound = any(isinstance(x, _a.Attribute) and x.attr == d.attr and isinstance(x.ctx, (_a.Store, _a.Del))
                                  for x in _a.walk(fn.module.tree))
                    d = dv[0] if len(dv) == 1 and not rebound else None
                if isinstance(d, _a.Dict) and all(isinstance(x, _a.Constant) and isinstance(x.value, str) for x in d.values):
                    names |= {x.value for x in d.values}
                    got = True
            if not got:
                return None
    return names


def _month_tables(tree) -> set:
    """names bound (module or class level) to a 12/13-entry sequence of month lengths with a 28-day February"""
    out = set()
    for st in ast.walk(tree):
        if isinstance(st, (ast.Assign, ast.AnnAssign)) and st.value is not None and isinstance(st.value, (ast.List, ast.Tuple)):
            vals = [e.value for e in st.value.elts if isinstance(e, ast.Constant) and isinstance(e.value, int)]
            if len(vals) == len(st.value.elts) and len(vals) in (12, 13) and set(vals) <= {0, 28, 29, 30, 31} and 28 in vals and vals.count(31) == 7:
                for t in (st.targets if isinstance(st, ast.Assign) else [st.target]):
                    if isinstance(t, ast.Name):
                        out.add(t.id)
    return out


def _month_table_sites(fn_node, tables: set) -> list:
    """subscripts of a month-length table in a function that has no leap-year handling of its own"""
    leap = any((isinstance(x, ast.Attribute) and x.attr in ("isleap", "monthrange")) or (isinstance(x, ast.Name) and x.id in ("isleap", "monthrange")) or
               (isinstance(x, ast.BinOp) and isinstance(x.op, ast.Mod) and isinstance(x.right, ast.Constant) and x.right.value in (4, 400))
               for x in ast.walk(fn_node))
    if leap:
        return []
    return [x for x in ast.walk(fn_node) if isinstance(x, ast.Subscript) and isinstance(x.ctx, ast.Load) and
            ((isinstance(x.value, ast.Name) and x.value.id in tables) or (isinstance(x.value, ast.Attribute) and x.value.attr in tables))]


def month_table_rule(ctx: Ctx, rid: str):
    """No date is validated or computed against a fixed month-length table without leap-year handling: 29 February exists in the
    shifted project whenever the shift crosses a leap day (zero expected; a built-in control must match)."""
    ctrl = ast.parse("T = [0, 31, 28, 31, 30, 31, 30, 31, 31, 30, 31, 30, 31]\ndef f(m, d):\n    return d <= T[m]\n"
                     "def g(y, m, d):\n    return d <= T[m] + (1 if m == 2 and y % 4 == 0 else 0)\n")
    tabs = _month_tables(ctrl)
    if tabs != {"T"} or len(_month_table_sites(ctrl.body[1], tabs)) != 1 or _month_table_sites(ctrl.body[2], tabs):
        raise AnchorMissing("month-table rule: built-in control sample no longer matches")
    tables = set()
    for m in ctx.repo.by_rel.values():
        tables |= _month_tables(m.tree)
    n = 0
    for fn in sorted(ctx.repo.all_funcs(), key=lambda f: f.key):
        n += 1
        for x in _month_table_sites(fn.node, tables):
            ctx.ob(rid, f"{fn.qual}: {norm(x)[:50]}", (fn, x), False,
                   f"{norm(x)[:40]} reads a month-length table with a 28-day February and the function has no leap-year handling: 29 February "
                   "is rejected or mis-computed, so a project shifted by whole weeks onto a leap day does not give the shifted schedule",
                   key=key_of(rid, fn, x, "month table"))
    ctx.ob(rid, f"no leap-blind use of a month-length table ({sorted(tables)}) in {n} functions", None, True,
           "dates are built and validated by datetime / calendar only", nontrivial=False)


def run_extra(ctx: Ctx):
    # ---------------------------------------------------------------- R14.7 weekly / daily limit periods are calendar weeks and days of the
    # slot's own date: a project moved by whole weeks across a year end keeps its weeks (= C05 R05.6)
    from .c05 import period_index_rule
    period_index_rule(ctx, "R14.7")
    # ---------------------------------------------------------------- R14.6 the per-scenario limit objects are complete copies: a limit that stops counting at the declared end depends on where in the calendar that end falls (= C05 R05.7)
    from .c05 import limit_copy_rule
    limit_copy_rule(ctx, "R14.6")
    month_table_rule(ctx, "R14.5")
    # ---------------------------------------------------------------- R14.4 answers never come from state that outlives the question
    from .common import process_state_rule
    process_state_rule(ctx, "R14.4", [ctx.repo.func("Project.schedule"), ctx.repo.func("ProjectFileParser.parse")],
                       "a calendar answer kept from the unshifted project (or another date of it) is given to the shifted one")


def run(ctx: Ctx):
    import ast as _a
    from ..model import Inconclusive, own_nodes
    for q in SCOPE:
        eqv_function(ctx, "R14.1", q)
    ctx.floor("R14.1", len(SCOPE))
    # ---------------------------------------------------------------- R14.2 date offsets are relative
    n = 0
    for fn in sorted(ctx.repo.all_funcs(), key=lambda f: f.key):
        for c in own_nodes(fn):
            if isinstance(c, _a.Call) and norm(c.func).split(".")[-1] == "relativedelta":
                kws = _delta_keywords(fn, c)
                if kws is None:
                    raise Inconclusive(f"{fn.qual}: keyword names of {norm(c)[:60]} cannot be enumerated")
                n += 1
                absolute = sorted(kws & _ABSOLUTE)
                unknown = sorted(kws - _ABSOLUTE - _RELATIVE)
                ok = not absolute and not unknown
                ctx.ob("R14.2", f"{fn.qual}: {norm(c)[:60]} keywords {sorted(kws)}", (fn, c), ok,
                       "relative offset: the result moves with the date it is added to" if ok else
                       f"relativedelta({', '.join(absolute or unknown)}=...) SETS that calendar field instead of adding to it: the result depends on "
                       "the day of month / year of the start date, so a shifted project gets a different frame",
                       key=key_of("R14.2", fn, None, norm(c)[:60]))
    # every unit of a header duration is covered by some call (the calls may share one keyword table)
    seen_kw = set()
    for fn in ctx.repo.all_funcs():
        for c in own_nodes(fn):
            if isinstance(c, _a.Call) and norm(c.func).split(".")[-1] == "relativedelta":
                seen_kw |= (_delta_keywords(fn, c) or set())
    if not {"minutes", "hours", "days", "weeks", "months", "years"} <= seen_kw:
        raise Inconclusive(f"relativedelta keyword census: only {sorted(seen_kw)} found, the six duration units expected")
    ctx.floor("R14.2", 2)
    # ---------------------------------------------------------------- R14.3 the project end as an anchor (known finding F55)
    # the declared end is start + <header duration>; with a duration in months / years that sum does not move by whole weeks when the
    # start does.  It is harmless while the end only sizes the horizon, but backward-scheduled tasks without a deadline of their own
    # are anchored AT it.
    mb = ctx.repo.func("ModelBuilder.build")
    month_frames = [c for f_ in [mb] + sorted((g for g in ctx.cg.reach([mb]) if g.cls is mb.cls and g is not mb), key=lambda g: g.key)
                    for c in own_nodes(f_) if isinstance(c, _a.Call) and norm(c.func).split(".")[-1] == "relativedelta"
                    and ({"months", "years"} & (_delta_keywords(f_, c) or set()))]
    ts = ctx.repo.func("TaskScenario.schedule")
    anchors = [n for n in own_nodes(ts) if isinstance(n, _a.Assign) and norm(n.targets[0]) == "latest_end"
               and ("declaredEnd" in norm(n.value) or "project['end']" in norm(n.value).replace('"', "'"))]
    if not anchors:
        raise Inconclusive("TaskScenario.schedule: default deadline of backward tasks not found")
    for n in anchors:
        ok = not month_frames
        ctx.ob("R14.3", f"{ts.qual}: default deadline {norm(n.value)[:50]} vs {len(month_frames)} month/year frame conversions", (ts, n), ok,
               "the project end moves with the start by whole weeks" if ok else
               "a `+Nm` / `+Ny` header makes the project end start + N calendar months: shifting the start by whole weeks moves the end by a "
               "different amount, and backward-scheduled tasks without a deadline are anchored at that end",
               key="R14.3|TaskScenario.schedule|default deadline from month frame")
    ctx.floor("R14.3", 1)
