"""C14 — shifting the calendar by whole weeks shifts the schedule by the same amount.

Decided (EQV typing, spverif/eqv.py): in every function that turns absolute dates into decisions
(period counters, slot <-> date conversion, default calendar, working-hours test, leave marking, the
bound computation of TaskScenario.schedule, horizon extension, the final-slot end) no branch condition,
subscript index or returned value is derived from a quantity that is neither invariant under a whole-week
shift nor an instant that moves with it (ISO year / week number, .year/.month/.day, replace(month|day|year),
relativedelta(months|years), instant-vs-constant comparison).  If all decisions are invariant the shifted
run takes the same decisions step by step and every produced instant moves by the offset.
Not decided: the relation between two concrete runs; non-UTC zones (DST) are outside the property's premise.
"""
from __future__ import annotations

from ..core import Ctx, key_of
from ..eqv import Eqv
from ..model import norm

META = {
    "level": "other",
    "technique": "static analysis: shift-equivariance abstract typing (INV / EQUI / NON) of calendar code",
    "explanation": "Abstract interpretation of the date/index code with the domain {invariant, equivariant, neither}: one "
                   "obligation per decision point (branch condition, subscript index, returned value) of each scoped "
                   "function; an obligation fails only when an explicitly non-invariant source (ISO week/year number, "
                   "calendar month/day/year, month/year deltas) reaches it.",
    "assumptions": ["UTC project (the property's premise): time-zone conversion is a fixed offset",
                    "project duration in months/years only sizes the horizon (stored, never branched on)"],
}

SCOPE = [
    "Limit._idx_to_sb_idx", "Limit.reset", "Limit.ok", "Limit.inc", "Project.dateToIdx", "Project.idxToDate",
    "Project._isDefaultWorkingTime", "Project.isWorkingTime", "Project.initScoreboards", "Project.scoreboardSize",
    "Project._extendProjectEndIfNeeded", "Scoreboard.__init__", "Scoreboard.dateToIdx", "Scoreboard.idxToDate",
    "Scoreboard.collectIntervals", "WorkingHours.onShift", "WorkingHours._convert_to_timezone",
    "ResourceScenario.onShift", "ResourceScenario.initScoreboard", "TaskScenario.schedule",
    "TaskScenario._calculatePreciseEndTimeAndRelease", "TaskScenario._computeStartFromEnd",
    "TaskScenario._getSuccessorEarliestStart", "TaskScenario._estimateCompletionTime", "TaskScenario.bookResources",
    "Limits.setLimit", "ModelBuilder._apply_global_attributes", "TJPTransformer.date",
]


def eqv_function(ctx: Ctx, rule: str, qual: str):
    fn = ctx.repo.func(qual)
    e = Eqv(fn)
    fs = e.findings()
    n = e.decisions()
    ctx.stats["eqv_decision_points"] = ctx.stats.get("eqv_decision_points", 0) + n
    if not fs:
        ctx.ob(rule, f"{qual}: {n} decision points, all shift-invariant or equivariant", fn, True,
               "no decision, index or result derives from a week-shift-variant quantity", nontrivial=n > 0)
    for f in fs:
        ctx.ob(rule, f"{qual}: {f.kind} {norm(f.node)[:70]}", (fn, f.node), False,
               f"{f.kind} depends on {norm(f.origin)[:80]}, which is neither invariant under a whole-week shift nor an "
               "instant that moves with it: the shifted project can take a different decision here (year ends, 53-week years)",
               witness={"origin": norm(f.origin), "origin_line": getattr(f.origin, "lineno", None)},
               key=key_of(rule, fn, None, f"{f.kind}|{norm(f.origin)[:80]}"))
    return len(fs)


def run(ctx: Ctx):
    for q in SCOPE:
        eqv_function(ctx, "R14.1", q)
    ctx.floor("R14.1", len(SCOPE))
