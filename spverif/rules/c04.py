"""C04 — dependencies and gaps are respected.

Decided:
  R04.1  edge-set agreement: every function that enumerates dependency edges to decide readiness or
         a date bound sees own + inherited edges (getAllDependencies); getAllDependencies itself walks
         the whole ancestor chain
  R04.2  forward bound: depends on each predecessor's end (start for on-start), on gapduration and
         gaplength, is non-decreasing in the gap and kept with a max-accumulator; backward bound:
         depends on each successor's start and on that edge's gap, non-increasing in the gap, kept
         with a min-accumulator
  R04.3  an attribute that is inherited from containers must not be used by truthiness as "the user
         pinned this date" (start in forward mode, end in backward mode)
  R04.4  readiness and bound computation consume the same enumeration in each mode; readiness
         refuses while a predecessor / successor is unscheduled
  R04.5  depends and precedes propagate the same option keys
Not decided: that the produced dates satisfy start >= pred.end + gap (runtime values).
"""
from __future__ import annotations

import ast

from ..cfg import cfg_of
from ..core import Ctx, key_of
from ..dep import data, full
from ..model import AnchorMissing, const_str, dotted, norm, own_nodes
from ..order import local_resolver, mono, order_table
from .common import calls_named, enclosing_ifs

META = {
    "level": "other",
    "technique": "static analysis: sibling census of dependency-edge consumers, dependence closure, monotonicity / accumulator order tables, attribute-table cross-check",
    "explanation": "Rule instances over TaskScenario.schedule (forward and backward bound computation), the readiness tests, "
                   "getAllDependencies, the ALAP successor enumeration, the attribute definition table (inheritedFromParent) "
                   "and the parser's depends/precedes resolution."
                   " Also: must-fact form of the forward max-accumulator (the fact must name the value written), readiness facts on the back edges of the predecessor loop, binding of defaulted scenario parameters, gap unit tables (elapsed vs working time, slots of the project resolution), milestone date at the bound, container-aware successor selection in backward mode, and a census for task identity by local id."
                   " Round 3: getattr form of the local-id rule, duration-unit cross-check of all duration parsers (regex syntax trees), process-state rule."
                   " Round 4: inherited edges keep the identity of the predecessor (no container reaches deepcopy whole), accumulators of the roll-up a dependant reads, getAllDependencies drops nothing, readiness by leaves accepted under the roll-up rules.",
    "assumptions": ["on-start edges in backward mode and mixed-mode chains are outside the property's claim"],
}

OPTION_KEYS = {"gapduration", "gaplength", "maxgapduration", "onstart", "onend"}


def _branch(fn, node, test_text):
    from .common import branch_of
    return branch_of(fn, node, test_text)


def gap_of_own_edge_rule(ctx: Ctx, rid: str):
    """TaskScenario._gapToSuccessor: the gap a successor asks for is taken from the successor's edge ON THIS TASK only -- every update of
    the gap is reached under the fact that the edge's predecessor is this task (`self._dependsOnMe(pred)` / `pred is self.property`).
    Without it a backward-scheduled predecessor keeps the largest gap the successor requested on ANY of its predecessors and ends
    earlier than it has to (C04 R04.16 / C08 R08.16)."""
    from .common import facts_of
    fn = ctx.repo.func("TaskScenario._gapToSuccessor")
    g = cfg_of(fn)
    facts = facts_of(fn)
    answer = {x.id for r in own_nodes(fn) if isinstance(r, ast.Return) and r.value is not None for x in ast.walk(r.value) if isinstance(x, ast.Name)}
    n = 0
    for node in g.nodes:
        a = node.ast
        if not (node.kind == "stmt" and isinstance(a, (ast.Assign, ast.AugAssign))):
            continue
        v = a.value
        if isinstance(v, ast.Constant):
            continue
        tgs = a.targets if isinstance(a, ast.Assign) else [a.target]
        if not any(isinstance(t_, ast.Name) and t_.id in answer for t_ in tgs):
            continue                      # only what the function hands back: the accumulated gap
        n += 1
        cl = facts.holds(node, lambda t, p: p and ("_dependsOnMe(" in t or t.replace(" ", "").endswith("isself.property")))
        ctx.ob(rid, f"{fn.qual}: {norm(a)[:70]}", (fn, a), cl is not None,
               "the gap is read from an edge whose predecessor is this task" if cl is not None else
               "the gap is taken from any finish-to-start edge of the successor, whichever task it points to: with `depends a { gapduration 2d }, b` "
               "the backward-scheduled b also keeps two days' distance, and its resource idles before a deadline that was free",
               key=key_of(rid, fn, None, "own edge"))
    if not n:
        raise AnchorMissing("_gapToSuccessor: no update of the gap found")


def backward_bound_rules(ctx: Ctx, rid: str):
    """TaskScenario.schedule, backward branch: the deadline is a min-accumulator over the successors' starts minus the gap of the
    successor's (own or inherited) edge (C04 R04.2 backward / C08 R08.7)."""
    repo = ctx.repo
    sched = repo.func("TaskScenario.schedule")
    fd = ctx.dep.of(sched)
    # backward
    bwd_updates = [n for n in own_nodes(sched) if isinstance(n, ast.If) and _branch(sched, n, "forward") == "F"
                   and any(isinstance(s, ast.Assign) and norm(s.targets[0]) == "latest_end" for s in ast.walk(n) if isinstance(s, ast.Assign))
                   and isinstance(n.test, (ast.Compare, ast.BoolOp)) and "latest_end" in norm(n.test)]
    if len(bwd_updates) < 2:
        raise AnchorMissing(f"backward accumulators in TaskScenario.schedule: {len(bwd_updates)} found")
    for n in bwd_updates:
        asg = next(s for s in n.body if isinstance(s, ast.Assign) and norm(s.targets[0]) == "latest_end")
        new = norm(asg.value)
        parts = n.test.values if isinstance(n.test, ast.BoolOp) else [n.test]
        cmpn = next(p for p in parts if isinstance(p, ast.Compare))
        tab = order_table(cmpn, lambda e: norm(e) == new, lambda e: norm(e) == "latest_end")
        ok = tab["<"] is True and tab[">"] is False
        ctx.ob(rid, f"{sched.qual}: backward accumulator {norm(cmpn)}", (sched, n), ok,
               "bound only moves earlier (min-accumulator)" if ok else f"backward bound is not a min-accumulator ({tab})",
               key=key_of(rid, sched, None, "bwd acc " + new))
        d = data(fd.deps_of(asg.value))
        if new == "succ_start":
            for a, what in (("pattr:start", "successor start"), ("call:_getSuccessors", "successor enumeration"),
                            ("call:_gapToSuccessor", "gap of the successor's edge")):
                ok = a in d
                ctx.ob(rid, f"{sched.qual}: backward bound depends on {what}", (sched, asg), ok,
                       f"succ_start depends on {a}" if ok else
                       f"the backward bound from finish-to-start successors ignores the {what}: a requested gap is not kept",
                       key=f"{rid}|TaskScenario.schedule|bwd {a}")
    for n in own_nodes(sched):
        if isinstance(n, ast.Assign) and norm(n.targets[0]) in ("succ_start", "pred_start") and _branch(sched, n, "forward") == "F" \
                and isinstance(n.value, ast.BinOp) and "timedelta" in norm(n.value):
            m = mono(n.value, lambda e: isinstance(e, ast.Name) and e.id == "gap_hours")
            ok = m == "-"
            ctx.ob(rid, f"{sched.qual}: {norm(n)}", (sched, n), ok,
                   "bound = successor time - gap" if ok else f"gap is not subtracted in backward mode (mono {m})",
                   key=f"{rid}|TaskScenario.schedule|bwd gap sign {norm(n.targets[0])}")
    # the gap helper reads the edge whose predecessor is this task
    if repo.has_func("TaskScenario._gapToSuccessor"):
        gts = repo.func("TaskScenario._gapToSuccessor")
        dg = full(ctx.dep.summary(gts).ret)
        ok = {"pattr:gapduration", "call:getAllDependencies", "call:_parse_duration"} <= dg and "field:property" in dg
        ctx.ob(rid, f"{gts.qual}: gap of the edge successor -> self", gts, ok,
               "reads gapduration of the successor's edge to this task" if ok else "gap helper does not read the successor's edge to this task",
               key="R04.2|TaskScenario._gapToSuccessor|reads")



def forward_bound_accumulator(ctx: Ctx, rid: str):
    """TaskScenario.schedule, forward branch: the dependency bound is a max-accumulator over all edges (C04 R04.2 / C07 R07.4)."""
    from .common import facts_of, lit_compare
    sched = ctx.repo.func("TaskScenario.schedule")
    fd = ctx.dep.of(sched)
    g = cfg_of(sched)
    ff = facts_of(sched)
    seen_dep_update = False
    dep_defs = []
    for asg in [n for n in own_nodes(sched) if isinstance(n, ast.Assign) and norm(n.targets[0]) == "earliest_start"
                and _branch(sched, n, "forward") == "T"]:
        if not any(isinstance(x, ast.Name) and x.id != "self" for x in ast.walk(asg.value)):
            continue                                  # initialisation from project data
        # `earliest_start = r` where r is nothing but a copy of earliest_start (the result variable of a helper that N-inline
        # folded back): not an update
        if isinstance(asg.value, ast.Name):
            _defs = local_resolver(sched.node)(asg.value)
            if _defs and all(isinstance(v_, ast.Name) and v_.id == "earliest_start" for v_ in _defs):
                continue
        new = norm(asg.value)
        node = g.node_of(asg)
        fact = None
        tabs = []
        # the value may come through a result variable (`r = earliest_start` on some paths, `r = bound` under `bound >
        # earliest_start` on others; `earliest_start = r`): each definition of r is then examined where it is made
        if isinstance(asg.value, ast.Name):
            rdefs = [d for d in own_nodes(sched) if isinstance(d, ast.Assign) and len(d.targets) == 1 and isinstance(d.targets[0], ast.Name)
                     and d.targets[0].id == asg.value.id and not (isinstance(d.value, ast.Constant) and d.value.value is None)]
            if rdefs and any(isinstance(d.value, ast.Name) and d.value.id == "earliest_start" for d in rdefs):
                allok = True
                for d in rdefs:
                    if isinstance(d.value, ast.Name) and d.value.id == "earliest_start":
                        continue
                    dn = g.node_of(d)
                    okd = False
                    for cl in (ff.at(dn) if dn is not None else ()):
                        if len(cl) != 1:
                            continue
                        (t, p), = tuple(cl)
                        e = lit_compare(t)
                        if isinstance(e, ast.Compare):
                            names_v = {norm(d.value)}
                            if isinstance(d.value, ast.Name):      # `bound = dep_time` under `dep_time > earliest_start`
                                names_v |= {norm(v_) for v_ in local_resolver(sched.node)(d.value) if isinstance(v_, ast.Name)}
                            tab = order_table(e if p else ast.UnaryOp(op=ast.Not(), operand=e), lambda x: norm(x) in names_v,
                                              lambda x: norm(x) == "earliest_start")
                            if tab.get("<") is False and tab.get(">") is True:
                                okd = True
                    allok = allok and okd
                    if okd and "dep_time" in names_v:
                        dep_defs.append(d)
                if allok:
                    fact = f"every definition of {asg.value.id} is earliest_start itself or a value tested to be later"
        for cl in (ff.at(node) if node is not None and fact is None else ()):
            if len(cl) != 1:
                continue
            (t, p), = tuple(cl)
            e = lit_compare(t)
            if not isinstance(e, ast.Compare):
                continue
            tab = order_table(e if p else ast.UnaryOp(op=ast.Not(), operand=e), lambda x: norm(x) == new, lambda x: norm(x) == "earliest_start")
            if tab.get("<") is False and tab.get(">") is True:
                fact = t
            elif tab.get("<") is not None or tab.get(">") is not None:
                tabs.append((t, tab))
        ok = fact is not None
        ctx.ob(rid, f"{sched.qual}: forward accumulator earliest_start = {new}", (sched, asg), ok,
               f"bound only moves later: written under the fact {fact}" if ok else
               f"the forward bound is overwritten with {new} without the fact `{new} > earliest_start` for the value that is written "
               f"(facts there: {[t for t, _ in tabs][:3]}): a predecessor (with its gap) that ends earlier than the bound found so far can "
               "lower it, or the test was made before the gap was added",
               key=key_of(rid, sched, None, "fwd acc " + new))
        if new == "dep_time" or dep_defs:
            seen_dep_update = True
            d = full(fd.deps_of(asg.value if new == "dep_time" else dep_defs[0].value, control=True))
            dep_defs = []
            for a, what in (("pattr:end", "predecessor end"), ("pattr:start", "predecessor start (on-start edges)"),
                            ("pattr:gapduration", "gapduration"), ("pattr:gaplength", "gaplength"), ("pattr:onstart", "edge kind"),
                            ("call:getAllDependencies", "own + inherited edges")):
                ok = a in d
                ctx.ob(rid, f"{sched.qual}: forward bound depends on {what}", (sched, asg), ok,
                       f"dep_time depends on {a}" if ok else f"the forward dependency bound ignores the {what}",
                       key=f"{rid}|TaskScenario.schedule|fwd {a}")
    if not seen_dep_update:
        raise AnchorMissing("forward dependency accumulator (earliest_start = dep_time) not found in TaskScenario.schedule")
    # the gap is added on every path between reading the predecessor's date and the accumulator test: the guard of the
    # gap computation may depend on the predecessor date being set, not on how it compares with the bound so far
    for n in own_nodes(sched):
        if isinstance(n, ast.Assign) and norm(n.targets[0]) == "dep_time" and _branch(sched, n, "forward") == "T" \
                and isinstance(n.value, ast.BinOp) and "timedelta" in norm(n.value):
            from .common import enclosing_ifs
            bad = [norm(i.test) for (i, b) in enclosing_ifs(n, sched.node) if "earliest_start" in norm(i.test)]
            ctx.ob(rid, f"{sched.qual}: gap added independently of the bound so far", (sched, n), not bad,
                   "the gap is added to every predecessor date" if not bad else
                   f"the gap is added only under {bad}: a predecessor that ends before the bound found so far, but whose end + gap "
                   "lies after it, no longer moves the bound",
                   key=key_of(rid, sched, None, "fwd gap unconditional"))


def edge_set_rule(ctx: Ctx, rid: str, only=None):
    """Every function that decides readiness, bounds or terminal status enumerates a task's own dependencies AND those of every
    enclosing container (getAllDependencies), not the own 'depends' attribute alone  (C04 R04.1; C06 R06.9 for the terminal test)."""
    repo = ctx.repo
    gad = repo.func("TaskScenario.getAllDependencies")
    # getAllDependencies: own + every ancestor, nothing dropped
    reads = [n for n in own_nodes(gad) if isinstance(n, ast.Call) and isinstance(n.func, ast.Attribute)
             and n.func.attr == "get" and n.args and const_str(n.args[0]) == "depends"]
    own = [r for r in reads if norm(r.func.value) == "self.property"]
    anc = [r for r in reads if isinstance(r.func.value, ast.Name)]
    walks = False
    for w in own_nodes(gad):
        if isinstance(w, ast.While):
            var = norm(w.test)
            walks = any(isinstance(s, ast.Assign) and norm(s.targets[0]) == var and norm(s.value) == f"{var}.parent" for s in w.body) \
                and any(norm(r.func.value) == var for r in anc)
    fdg = ctx.dep.of(gad)
    rets = [n for n in own_nodes(gad) if isinstance(n, ast.Return)]
    both = all({"pattr:depends", "field:parent"} <= data(fdg.deps_of(r.value)) for r in rets) and bool(rets)
    ok = bool(own) and bool(anc) and walks and both
    ctx.ob(rid, f"{gad.qual}: own + ancestors", gad, ok,
           "returns the task's own dependencies and those of every enclosing container" if ok else
           "getAllDependencies no longer collects the own list and the list of every ancestor",
           key=f"{rid}|TaskScenario.getAllDependencies|own+ancestors")
    # no entry is dropped on the way: the returned list is only ever extended (a de-duplication by predecessor loses the larger gap)
    drops = [x for x in own_nodes(gad) if (isinstance(x, ast.If) and any(isinstance(y, ast.Continue) for y in ast.walk(x)))
             or (isinstance(x, ast.Call) and isinstance(x.func, ast.Attribute) and x.func.attr in ("remove", "pop", "discard"))
             or isinstance(x, (ast.DictComp, ast.SetComp))]
    ctx.ob(rid, f"{gad.qual}: every collected edge is returned", (gad, drops[0] if drops else None), not drops,
           "edges are appended / extended only" if not drops else
           "some collected edges are skipped or removed (e.g. one entry per predecessor): a second dependency on the same task with a larger "
           "gap, or the container's edge next to the task's own, is lost",
           key=f"{rid}|TaskScenario.getAllDependencies|nothing dropped")
    consumers = []
    for fn in sorted(repo.all_funcs(), key=lambda f: f.key):
        if fn is gad:
            continue
        direct = [n for n in own_nodes(fn) if isinstance(n, ast.Call) and isinstance(n.func, ast.Attribute)
                  and n.func.attr == "get" and n.args and const_str(n.args[0]) == "depends"]
        via = calls_named(fn, "getAllDependencies")
        if direct or via:
            consumers.append((fn, direct, via))
    deciding = {"TaskScenario._asapReadyForScheduling", "TaskScenario._alapReadyForScheduling", "TaskScenario.schedule",
                "TaskScenario._getSuccessors", "TaskScenario._gapToSuccessor", "Project._propagateContainerEndDates"}
    seen = set()
    for fn, direct, via in consumers:
        if fn.module.rel.startswith("scriptplan/parser/"):
            continue          # construction of the lists, not consumption
        if only is not None and fn.qual not in only:
            continue
        inst = f"{fn.qual}: {'getAllDependencies' if via else ''}{' + ' if via and direct else ''}{'own-only read' if direct else ''}"
        if fn.qual in deciding:
            ok = bool(via)
            seen.add(fn.qual)
            ctx.ob(rid, inst, fn, ok,
                   "enumerates own + inherited edges" if ok else
                   "readiness / bound / terminal-task code reads only the task's own 'depends' attribute: edges declared on an enclosing "
                   "container are missed when the child has dependencies of its own",
                   key=f"{rid}|{fn.qual}|edge set")
        else:
            ctx.ob(rid, inst, fn, None, "own-only consumer outside the readiness/bound pair (mode propagation, horizon estimate)",
                   info=True)
    if only is not None and not (set(only) & seen):
        raise AnchorMissing(f"edge-set rule: none of {sorted(only)} reads dependencies any more")


def inherited_edges_keep_identity_rule(ctx: Ctx, rid: str):
    """A child inherits its container's dependency list as a copy (deep_clone).  The copy may duplicate the containers -- the list,
    the dict of a dependency with options -- but never the task an edge points to: a cloned predecessor is a task nobody schedules,
    and the heir waits for it for ever.  In deep_clone every copy.deepcopy(x) is reached only under the facts that x is neither a
    list nor a dict (containers are rebuilt element by element) and tree nodes are returned as they are."""
    fn = ctx.repo.func("deep_clone", rel="scriptplan/core/property.py")
    from .common import facts_of
    g = cfg_of(fn)
    facts = facts_of(fn)
    p0 = fn.params[0]
    calls = [c for c in own_nodes(fn) if isinstance(c, ast.Call) and norm(c.func) in ("copy.deepcopy", "deepcopy")]
    if not calls:
        raise AnchorMissing("deep_clone: no deepcopy call (the copying scheme changed; rule needs re-reading)")
    keeps = any(isinstance(r, ast.Return) and isinstance(r.value, ast.Name) and r.value.id == p0 and any(
        "propertySet" in norm(i.test) or "PropertyTreeNode" in norm(i.test) for (i, b) in __import__("spverif.rules.common", fromlist=["enclosing_ifs"]).enclosing_ifs(r, fn.node))
        for r in own_nodes(fn))
    for c in calls:
        node = g.node_containing(c)
        units = {tuple(cl)[0] for cl in facts.at(node) if len(cl) == 1} if node is not None else set()
        arg = norm(c.args[0]) if c.args else "?"
        no_list = (f"isinstance({arg}, list)", False) in units
        no_dict = (f"isinstance({arg}, dict)", False) in units
        ok = no_list and no_dict and keeps
        ctx.ob(rid, f"deep_clone: {norm(c)} reached with list excluded={no_list}, dict excluded={no_dict}; tree nodes returned as they are={keeps}", (fn, c), ok,
               "only leaves of the value are deep-copied; tasks inside lists and dicts keep their identity" if ok else
               "a list or dict can be handed to copy.deepcopy whole: the task inside the dict of an inherited `depends x { gaplength 2h }` is "
               "cloned with it, the heir depends on a task that is never scheduled and is reported as deadlocked",
               key=key_of(rid, fn, None, f"deepcopy of containers {arg}"))


def run_extra(ctx: Ctx):
    inherited_edges_keep_identity_rule(ctx, "R04.15")
    # ---------------------------------------------------------------- R04.14 a dependant on a container reads the dates written by the
    # roll-up that runs while leaves are placed: latest child end / earliest child start (= C10 R10.2 for that roll-up)
    from .c10 import rollup_accumulator_rule
    rollup_accumulator_rule(ctx, "R04.14", which=("upd",))
    gap_of_own_edge_rule(ctx, "R04.16")
    # ---------------------------------------------------------------- R04.13 every duration parser tells minutes from months
    from .common import duration_unit_rule
    duration_unit_rule(ctx, "R04.13")
    # ---------------------------------------------------------------- R04.12 answers never come from state that outlives the question
    from .common import process_state_rule
    process_state_rule(ctx, "R04.12", [ctx.repo.func("Project.schedule"), ctx.repo.func("ProjectFileParser.parse")],
                       "a gap or a predecessor list is answered from another edge's, scenario's or project's value")


def readiness_exit_rule(ctx: Ctx, rule: str):
    """A forward task is granted readiness only after EVERY edge was examined (round 8, C07-14: an early `return True` for a task
    with a pinned start let it be placed before its predecessors, ahead of tasks that rank before it in the list schedule).
    Every return of _asapReadyForScheduling that can be true is dominated by the head of the loop over getAllDependencies()
    (it is the loop's normal exit), or is the all(...) over them, or is taken on the fact that there are no edges at all."""
    repo = ctx.repo
    rdy = repo.func("TaskScenario._asapReadyForScheduling")
    gr = cfg_of(rdy)
    loops_r = [l for l in own_nodes(rdy) if isinstance(l, ast.For) and "getAllDependencies" in norm(l.iter)]
    edge_names = {norm(a.targets[0]) for a in own_nodes(rdy) if isinstance(a, ast.Assign) and len(a.targets) == 1
                  and "getAllDependencies" in norm(a.value)}
    for l in own_nodes(rdy):
        if isinstance(l, ast.For) and norm(l.iter) in edge_names:
            loops_r.append(l)
    dom = gr.dominators()
    hdrs = {gr.node_of(l).id for l in loops_r}
    rets = [r for r in own_nodes(rdy) if isinstance(r, ast.Return)]
    if not rets:
        raise AnchorMissing("_asapReadyForScheduling: no return statement")

    def empty_guard(r):
        for i in own_nodes(rdy):
            if isinstance(i, ast.If) and r in i.body:
                t = i.test
                if isinstance(t, ast.UnaryOp) and isinstance(t.op, ast.Not) and \
                        (norm(t.operand) in edge_names or "getAllDependencies" in norm(t.operand)):
                    return True
        return False

    n = 0
    for r in rets:
        v = r.value
        if isinstance(v, ast.Constant) and v.value is False:
            continue
        n += 1
        node = gr.node_of(r)
        is_all = isinstance(v, ast.Call) and norm(v.func) == "all" and "getAllDependencies" in norm(v) or \
            (isinstance(v, ast.Call) and norm(v.func) == "all" and any(e in norm(v) for e in edge_names))
        ok = bool(hdrs & set(dom.get(node.id, ()))) or is_all or empty_guard(r)
        ctx.ob(rule, f"{rdy.qual}: line {r.lineno} `{norm(r)}` is reached only through the loop over the edges", (rdy, r), ok,
               "ready only after every edge was examined" if ok else
               "readiness is granted on a path that never examines the predecessors: the task is placed before them (and before "
               "tasks that rank ahead of it in the list schedule and compete for the same resource)",
               key=key_of(rule, rdy, None, "ready exit " + norm(v)[:40]))
    if not n:
        raise AnchorMissing("_asapReadyForScheduling: no return that can be true")


def run(ctx: Ctx):
    repo = ctx.repo
    sched = repo.func("TaskScenario.schedule")
    gad = repo.func("TaskScenario.getAllDependencies")
    asap = repo.func("TaskScenario._asapReadyForScheduling")
    alap = repo.func("TaskScenario._alapReadyForScheduling")
    succ = repo.func("TaskScenario._getSuccessors")
    fd = ctx.dep.of(sched)
    res = local_resolver(sched.node)

    edge_set_rule(ctx, "R04.1")

    # ---------------------------------------------------------------- R04.2 forward
    def in_forward(n):
        return _branch(sched, n, "forward")

    # the accumulator: every write `earliest_start = V` (other than the initialisation from project data) happens under the
    # must-fact V > earliest_start for the value V that is written (a reassignment of V after the test kills the fact)
    forward_bound_accumulator(ctx, "R04.2")
    # gap applied with + (monotone increasing in the gap), end chosen unless onstart
    for n in own_nodes(sched):
        if isinstance(n, ast.Assign) and norm(n.targets[0]) == "dep_time" and in_forward(n) == "T":
            if isinstance(n.value, ast.BinOp) and "timedelta" in norm(n.value):
                m = mono(n.value, lambda e: (isinstance(e, ast.Name) and e.id == "gap_hours") or
                         (isinstance(e, ast.Call) and (dotted(e.func) or "").endswith("_parse_duration")))
                base = mono(n.value, lambda e: isinstance(e, ast.Name) and e.id == "dep_time")
                ok = m == "+" and base == "+"
                ctx.ob("R04.2", f"{sched.qual}: {norm(n)}", (sched, n), ok,
                       "bound = predecessor time + gap" if ok else f"gap is not added to the predecessor time (mono gap {m}, base {base})",
                       key="R04.2|TaskScenario.schedule|fwd gap sign")
            elif isinstance(n.value, ast.IfExp):
                t = norm(n.value.test)
                ok = t == "onstart" and '"start"' in norm(n.value.body).replace("'", '"') and '"end"' in norm(n.value.orelse).replace("'", '"')
                ctx.ob("R04.2", f"{sched.qual}: {norm(n)[:80]}", (sched, n), ok,
                       "predecessor start for on-start edges, predecessor end otherwise" if ok else
                       "the edge kind no longer selects start (on-start) vs end (finish-to-start) of the predecessor",
                       key="R04.2|TaskScenario.schedule|fwd start/end choice")
    # the cursor starts at the bound
    from ..order import nearest_resolver
    cursor_defs = []
    for c_ in own_nodes(sched):
        # the definition of the name that reaches `self.currentSlotIdx = <name>` in the forward branch
        if isinstance(c_, ast.Assign) and norm(c_.targets[0]) == "self.currentSlotIdx" and isinstance(c_.value, ast.Name) and in_forward(c_) == "T":
            for v_ in nearest_resolver(sched.node, c_)(c_.value):
                cursor_defs += [d_ for d_ in own_nodes(sched) if isinstance(d_, ast.Assign) and d_.value is v_]
    for n in own_nodes(sched):
        if isinstance(n, ast.Assign) and norm(n.targets[0]) == "slot_idx" and in_forward(n) == "T" and (not cursor_defs or n in cursor_defs):
            ok = "earliest_start" in norm(n.value) and "dateToIdx" in norm(n.value)
            ctx.ob("R04.2", f"{sched.qual}: {norm(n)}", (sched, n), ok,
                   "walk starts in the slot of the dependency bound" if ok else "forward walk does not start at the dependency bound",
                   key="R04.2|TaskScenario.schedule|fwd cursor")
    # backward
    backward_bound_rules(ctx, "R04.2")

    # ---------------------------------------------------------------- R04.3
    proj = repo.func("Project._define_task_attributes")
    table = {}
    for n in own_nodes(proj):
        if isinstance(n, ast.List) and len(n.elts) == 7 and const_str(n.elts[0]):
            table[const_str(n.elts[0])] = n
    for attr, mode, br in (("start", "forward", "T"), ("end", "backward", "F")):
        if attr not in table:
            raise AnchorMissing(f"task attribute definition of {attr} not found")
        inh = table[attr].elts[3]
        inherited = isinstance(inh, ast.Constant) and inh.value is True
        # pinned test: `if <var>:` / `if not <var>:` in that branch where var := self.property.get(attr)
        used = False
        guarded = False
        for n in own_nodes(sched):
            if isinstance(n, ast.If) and in_forward(n) == br:
                t = n.test.operand if isinstance(n.test, ast.UnaryOp) else n.test
                if isinstance(t, ast.Name):
                    vals = res(t)
                    if any(isinstance(v, ast.Call) and isinstance(v.func, ast.Attribute) and v.func.attr == "get" and v.args
                           and const_str(v.args[0]) == attr and norm(v.func.value) == "self.property" for v in vals):
                        used = True
                elif "provided(" in norm(n.test) or "inherited(" in norm(n.test):
                    guarded = True
        if not used:
            raise AnchorMissing(f"pinned-{attr} test not found in the {mode} branch of TaskScenario.schedule")
        ok = (not inherited) or guarded
        ctx.ob("R04.3", f"{sched.qual}: '{attr}' used as pinned date in {mode} mode; inheritedFromParent={inherited}", (proj, table[attr]), ok,
               f"'{attr}' is not inherited from containers, so a set value was written by the user" if ok else
               f"'{attr}' is inherited from enclosing containers (attribute table) and {mode} scheduling treats any set value as "
               "pinned by the user: a child of a dated container starts at the container's date and ignores its predecessors",
               key=f"R04.3|TaskScenario.schedule|{attr}")

    # ---------------------------------------------------------------- R04.4
    sm_asap = full(ctx.dep.summary(asap).ret)
    ok = {"call:getAllDependencies", "pattr:scheduled"} <= sm_asap
    ctx.ob("R04.4", f"{asap.qual}: waits for every predecessor", asap, ok,
           "readiness depends on 'scheduled' of every own/inherited predecessor" if ok else
           "forward readiness does not look at the scheduled flag of every predecessor", key="R04.4|asap|reads")
    # the refusal: `return False` under `t and not t.get("scheduled")`
    refus = [n for n in own_nodes(asap) if isinstance(n, ast.If) and "scheduled" in norm(n.test)
             and any(isinstance(s, ast.Return) and isinstance(s.value, ast.Constant) and s.value.value is False for s in n.body)]
    ok = bool(refus) and all("not " in norm(n.test) for n in refus)
    if not refus:
        # the comprehension form: all(not t or t.get("scheduled", ..) for t in ..)
        for n in own_nodes(asap):
            if isinstance(n, ast.Return) and isinstance(n.value, ast.Call) and norm(n.value.func) == "all" \
                    and n.value.args and isinstance(n.value.args[0], ast.GeneratorExp):
                elt = n.value.args[0].elt
                last_v = elt.values[-1] if isinstance(elt, ast.BoolOp) and isinstance(elt.op, ast.Or) else elt
                rest = elt.values[:-1] if isinstance(elt, ast.BoolOp) and isinstance(elt.op, ast.Or) else []
                if isinstance(last_v, ast.Call) and norm(last_v).replace('"', "'").find(".get('scheduled'") > 0 and \
                        all(isinstance(r, ast.UnaryOp) and isinstance(r.op, ast.Not) and isinstance(r.operand, ast.Name) for r in rest):
                    ok = True
    ctx.ob("R04.4", f"{asap.qual}: refuses while a predecessor is unscheduled", asap, ok,
           "returns False when a predecessor is not scheduled" if ok else "forward readiness no longer refuses on an unscheduled predecessor",
           key="R04.4|asap|refusal")
    sm_alap = full(ctx.dep.summary(alap).ret)
    ok = {"call:_getSuccessors", "pattr:scheduled", "call:getAllDependencies"} <= sm_alap
    ctx.ob("R04.4", f"{alap.qual}: waits for every successor", alap, ok,
           "backward readiness depends on 'scheduled' of every successor" if ok else
           "backward readiness does not look at every successor's scheduled flag", key="R04.4|alap|reads")
    last = [n for n in own_nodes(alap) if isinstance(n, ast.Return)][-1]
    ok = "all(" in norm(last.value) and "scheduled" in norm(last.value)
    if not ok and isinstance(last.value, ast.Constant) and last.value.value is True:
        # the loop form: every successor is visited and the first unscheduled one answers False
        src = {t.id for n in own_nodes(alap) if isinstance(n, ast.Assign) and "_getSuccessors" in norm(n.value)
               for t in n.targets if isinstance(t, ast.Name)}
        for n in own_nodes(alap):
            if not (isinstance(n, ast.For) and ("_getSuccessors" in norm(n.iter) or
                                                 (isinstance(n.iter, ast.Name) and n.iter.id in src))):
                continue
            if n.orelse or any(isinstance(b, (ast.Break, ast.Continue)) for s in n.body for b in ast.walk(s)):
                continue
            refuse = [s for s in n.body if isinstance(s, ast.If) and "scheduled" in norm(s.test)
                      and isinstance(s.test, ast.UnaryOp) and isinstance(s.test.op, ast.Not) and not s.orelse
                      and len(s.body) == 1 and isinstance(s.body[0], ast.Return)
                      and isinstance(s.body[0].value, ast.Constant) and s.body[0].value.value is False]
            others = [b for s in n.body if s not in refuse for b in ast.walk(s) if isinstance(b, ast.Return)]
            if refuse and not others:
                ok = True
    ctx.ob("R04.4", f"{alap.qual}: {norm(last)[:70]}", (alap, last), ok,
           "ready only when all successors are scheduled" if ok else "backward readiness is not 'all successors scheduled'",
           key="R04.4|alap|all")
    # same enumeration in bound computation
    fwd_loops = [n for n in own_nodes(sched) if isinstance(n, ast.For) and in_forward(n) == "T"]
    ok = any(norm(l.iter) == "self.getAllDependencies()" for l in fwd_loops)
    ctx.ob("R04.4", f"{sched.qual}: forward bound enumerates getAllDependencies()", sched, ok,
           "same edge set as the forward readiness test" if ok else "forward bound and forward readiness enumerate different edge sets",
           key="R04.4|schedule|fwd enumeration")
    bwd_loops = [n for n in own_nodes(sched) if isinstance(n, ast.For) and in_forward(n) == "F"]
    its = {norm(l.iter) for l in bwd_loops}
    ok = "self.getAllDependencies()" in its and any("successors" in i or "_getSuccessors" in i for i in its)
    ctx.ob("R04.4", f"{sched.qual}: backward bound enumerates {sorted(its)}", sched, ok,
           "same edge sets as the backward readiness test" if ok else "backward bound and backward readiness enumerate different edge sets",
           key="R04.4|schedule|bwd enumeration")
    # successors are found by identity of the predecessor
    from .common import edge_selects_me
    ok = any(edge_selects_me(ctx, succ, n) for n in own_nodes(succ))
    ctx.ob("R04.4", f"{succ.qual}: successor = task with an edge whose predecessor is this task", succ, ok,
           "edge matched by identity with self.property" if ok else "successor enumeration does not match edges by identity",
           key="R04.4|_getSuccessors|identity")

    # ---------------------------------------------------------------- R04.5
    rd = repo.func("ModelBuilder._resolve_dependencies")
    rp = repo.func("ModelBuilder._resolve_precedes")

    def keys_read(fn):
        ks = set()
        for n in own_nodes(fn):
            if isinstance(n, ast.Call) and isinstance(n.func, ast.Attribute) and n.func.attr == "get" and n.args:
                k = const_str(n.args[0])
                if k in OPTION_KEYS:
                    ks.add(k)
        return ks

    def keys_stored(fn):
        ks = set()
        for n in own_nodes(fn):
            if isinstance(n, ast.Dict):
                for k in n.keys:
                    if k is not None and const_str(k) in OPTION_KEYS:
                        ks.add(const_str(k))
        return ks

    kd, kp = keys_read(rd) & keys_stored(rd), keys_read(rp) & keys_stored(rp)
    ok = kd == OPTION_KEYS
    ctx.ob("R04.5", f"{rd.qual}: propagates {sorted(kd)}", rd, ok,
           "all dependency options reach the stored edge" if ok else f"depends resolution drops {sorted(OPTION_KEYS - kd)}",
           key="R04.5|_resolve_dependencies|keys")
    ok = kp == kd
    ctx.ob("R04.5", f"{rp.qual}: propagates {sorted(kp)}", rp, ok,
           "precedes carries the same option keys as depends" if ok else
           f"'precedes' drops {sorted(kd - kp)}: the same relation written as 'precedes' loses its gap / kind",
           key="R04.5|_resolve_precedes|keys")
    # ---------------------------------------------------------------- R04.7 readiness waits for the predecessor ITSELF
    # the bound reads the end date of the predecessor named by the edge (a leaf or a container); that date exists only
    # once that task's own `scheduled` flag is set, so every iteration of the readiness loop must leave the loop body
    # with the fact  not t  or  t.get('scheduled', scenario)
    from .common import facts_of
    rdy = repo.func("TaskScenario._asapReadyForScheduling")
    gr = cfg_of(rdy)
    fr = facts_of(rdy)
    loops_r = [l for l in own_nodes(rdy) if isinstance(l, ast.For) and "getAllDependencies" in norm(l.iter)]
    import re as _re

    def clause_verdict(cl):
        """(ok, judged by leaves) for one disjunction of (text, polarity) literals: every literal is `v missing`, `v's own flag`
        or `all leaves of v`, for ONE variable v, and at least one of them is present"""
        if not cl:
            return (False, False)
        var, own, leaves = set(), False, False
        for (t, p_) in cl:
            tt = t.replace('"', "'")
            m = _re.match(r"^(\w+)\.get\('scheduled'", tt)
            if p_ and m:
                var.add(m.group(1)); own = True
                continue
            m = _re.match(r"^all\(.*\.get\('scheduled'.* in (\w+)\.allLeaves\(\)\)$", tt)
            if p_ and m and " if " not in tt:
                var.add(m.group(1)); leaves = True
                continue
            if (not p_) and _re.match(r"^\w+$", tt):
                var.add(tt)
                continue
            return (False, False)
        return (len(var) == 1, leaves and not own)

    comp = []
    if not loops_r:
        # comprehension form: return all(<clause> for v in <predecessors>)
        for n in own_nodes(rdy):
            if isinstance(n, ast.Return) and isinstance(n.value, ast.Call) and norm(n.value.func) == "all" \
                    and n.value.args and isinstance(n.value.args[0], ast.GeneratorExp) and len(n.value.args[0].generators) == 1 \
                    and not n.value.args[0].generators[0].ifs:
                comp.append(n)
    if len(loops_r) != 1 and len(comp) != 1:
        raise AnchorMissing(f"_asapReadyForScheduling: {len(loops_r)} loops over getAllDependencies")
    n_back = 0
    uses_leaves = False
    if comp:
        elt = comp[0].value.args[0].elt
        lits = elt.values if isinstance(elt, ast.BoolOp) and isinstance(elt.op, ast.Or) else [elt]
        cl = [(norm(l.operand), False) if isinstance(l, ast.UnaryOp) and isinstance(l.op, ast.Not) else (norm(l), True) for l in lits]
        src_ok = "call:getAllDependencies" in full(ctx.dep.summary(rdy).ret)
        ok, lv = clause_verdict(cl)
        ok = ok and src_ok
        uses_leaves = lv
        n_back = 1
        ctx.ob("R04.7", f"{rdy.qual}: ready iff every predecessor satisfies {norm(elt)[:60]}", (rdy, comp[0]), ok,
               "each predecessor is missing or itself marked scheduled" if ok else
               "readiness can be granted without the predecessor's own `scheduled` flag being set (e.g. a "
               "container judged by its leaves): the task becomes ready before the predecessor's end date exists and the bound ignores it",
               key=key_of("R04.7", rdy, None, "own flag"))
    else:
        hdr = gr.node_of(loops_r[0])
        dom_r = gr.dominators()
        for (a, lbl) in gr.pred[hdr.id]:
            na = gr.nodes[a]
            if hdr.id not in dom_r.get(a, ()) or a == hdr.id:
                continue                      # the edge that enters the loop
            n_back += 1
            fs = fr.along(na, lbl)
            vs = [clause_verdict(cl) for cl in fs if cl]
            ok = any(v[0] for v in vs)
            if ok and not any(v[0] and not v[1] for v in vs):
                uses_leaves = True
            ctx.ob("R04.7", f"{rdy.qual}: iteration ends at line {getattr(na.ast, 'lineno', '?')} with the predecessor's own scheduled flag established",
                   (rdy, na.ast), ok,
                   "next edge is examined only when this predecessor is missing or itself marked scheduled" if ok else
                   "an iteration of the readiness loop can complete without the predecessor's own `scheduled` flag being set (e.g. a "
                   "container judged by its leaves): the task becomes ready before the predecessor's end date exists and the bound ignores it",
                   key=key_of("R04.7", rdy, None, "own flag"))
    if not n_back:
        raise AnchorMissing("_asapReadyForScheduling: no back edge of the readiness loop found")
    ctx.floor("R04.7", 1)
    if uses_leaves:
        # readiness judges a container by its leaves: then the container's dates must exist by the time the dependant is examined
        from .c07 import rollup_rules
        from .c10 import rollup_order_rule
        rollup_rules(ctx, "R04.7")
        rollup_order_rule(ctx, "R04.7")
    # ---------------------------------------------------------------- R04.9 gap units
    # gaplength (working time) is counted in slots of the project's resolution; gapduration / maxgapduration (elapsed time)
    # are converted with calendar units (1d = 24h, 1w = 168h)
    skip = [w for w in own_nodes(sched) if isinstance(w, ast.While) and "gap_slots" in norm(w.test)]
    if not skip:
        raise AnchorMissing("TaskScenario.schedule: working-time gap loop (gap_slots) not found")
    for w in skip:
        bound = [n for n in own_nodes(sched) if isinstance(n, ast.Assign) and norm(n.targets[0]) == "gap_slots"]
        d = set()
        for b in bound:
            d |= full(fd.deps_of(b.value))
        ok = "pattr:scheduleGranularity" in d and "pattr:gaplength" in d
        ctx.ob("R04.9", f"{sched.qual}: gap_slots := {[norm(b.value)[:50] for b in bound]}", (sched, w), ok,
               "the number of working slots to skip depends on the gap and on the slot length" if ok else
               "the working-time gap is converted to slots without the project's slot length (one slot = one hour assumed): at any other "
               "timing resolution the successor starts too early or too late",
               key="R04.9|TaskScenario.schedule|gaplength slots")
    pd = repo.func("TaskScenario._parse_duration")
    tables = [n for n in own_nodes(pd) if isinstance(n, ast.Dict) and all(isinstance(k, ast.Constant) for k in n.keys)]
    tabs = [{k.value: (v.value if isinstance(v, ast.Constant) else None) for k, v in zip(t.keys, t.values)} for t in tables]
    cal = [t for t in tabs if t.get("d") == 24 and t.get("w") == 168 and t.get("h") == 1]
    wrk = [t for t in tabs if t.get("d") == 8 and t.get("w") == 40 and t.get("h") == 1]
    has_param = "calendar" in pd.params
    ctx.ob("R04.9", f"{pd.qual}: unit tables {tabs}", pd, bool(cal) and bool(wrk) and has_param,
           "elapsed-time units (24h days) and working-time units (8h days) are both available" if cal and wrk and has_param else
           "_parse_duration has no elapsed-time unit table: a gapduration in days / weeks is converted at working-time rates",
           key="R04.9|_parse_duration|tables")
    n_calls = 0
    for fn in sorted(repo.all_funcs(), key=lambda f: f.key):
        if fn.cls is None or fn.cls.name != "TaskScenario":
            continue
        fdd = ctx.dep.of(fn)
        for c in own_nodes(fn):
            if not (isinstance(c, ast.Call) and norm(c.func) == "self._parse_duration" and c.args):
                continue
            if isinstance(getattr(c, "_parent", None), ast.Expr):
                continue                      # result discarded
            a = full(fdd.deps_of(c.args[0]))
            elapsed = bool(a & {"pattr:gapduration", "pattr:maxgapduration"})
            working = "pattr:gaplength" in a
            if not (elapsed or working) or (elapsed and working):
                continue
            n_calls += 1
            kw = next((k.value for k in c.keywords if k.arg == "calendar"), None)
            is_cal = isinstance(kw, ast.Constant) and kw.value is True
            ok = is_cal if elapsed else not is_cal
            ctx.ob("R04.9", f"{fn.qual}: {norm(c)[:60]} ({'elapsed' if elapsed else 'working'} time)", (fn, c), ok,
                   "converted with the unit table of its kind" if ok else
                   ("a gapduration is converted with working-time units: `gapduration 1d` keeps the successor away for 8 hours, not 24"
                    if elapsed else "a gaplength is converted with elapsed-time units"),
                   key=key_of("R04.9", fn, c, "units"))
    if n_calls < 4:
        raise AnchorMissing(f"gap conversions found: {n_calls}")
    ctx.floor("R04.9", 6)
    from .c06 import milestone_bound_rule
    milestone_bound_rule(ctx, "R04.10")
    ctx.floor("R04.10", 4)
    # ---------------------------------------------------------------- R04.11 a dependency on a container binds its children (backward mode)
    from .common import edge_selects_me
    for q in ("TaskScenario._getSuccessors", "TaskScenario._gapToSuccessor"):
        f = repo.func(q)
        sel_ = [n for n in own_nodes(f) if edge_selects_me(ctx, f, n)]
        aware = [n for n in sel_ if isinstance(n, ast.Call)]
        ok = bool(sel_) and len(aware) == len(sel_)
        ctx.ob("R04.11", f"{q}: edge selection {[norm(n) for n in sel_]}", f, ok,
               "an edge on the task or on any enclosing container selects the successor" if ok else
               "successors are recognised only by an edge that names the task itself: with `s depends box` the children of box have no "
               "successor in backward mode, are anchored at the project end and end after s starts",
               key=f"R04.11|{q}|container edges")
    pce = repo.func("Project._propagateContainerEndDates")
    exp = [c for c in own_nodes(pce) if isinstance(c, ast.Call) and isinstance(c.func, ast.Attribute) and c.func.attr == "allLeaves"
           and norm(c.func.value) == "pred"]
    ctx.ob("R04.11", f"{pce.qual}: a container predecessor marks every leaf below it as having a successor", pce, bool(exp),
           "pred.allLeaves() feeds the successor set" if exp else
           "a container that something depends on is recorded under its own id only: its leaves count as terminal, are pinned to the "
           "enclosing container's end and end after their successor starts",
           key="R04.11|_propagateContainerEndDates|container predecessor")
    ctx.floor("R04.11", 3)
    # ---------------------------------------------------------------- R04.6 task identity
    from .common import local_id_identity_rule
    local_id_identity_rule(ctx, "R04.6", ("parser/tjp_parser.py", "core/project.py", "core/task_scenario.py", "core/task.py"),
                           "a dependency edge on one of them is taken for (or dropped as a duplicate of) an edge on the other")
    from .c16 import scenario_default_rule
    scenario_default_rule(ctx, "R04.8")
    # ... and no literal scenario index where the dates of predecessors / containers are read (the default, once bound, is a literal)
    from .c16 import scenario_index_rule
    scenario_index_rule(ctx, "R04.8", only={"Project._updateContainerTaskStatus", "TaskScenario.schedule", "TaskScenario._asapReadyForScheduling",
                                            "TaskScenario._alapReadyForScheduling", "TaskScenario._getSuccessors",
                                            "Project._propagateContainerEndDates"})
    ctx.floor("R04.1", 5)
    ctx.floor("R04.2", 12)
    ctx.floor("R04.3", 2)
    ctx.floor("R04.4", 7)
