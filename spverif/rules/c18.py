"""C18 — reports say what was scheduled.

Decided:
  R18.1  reporting is read-only: no attribute that scheduling reads, no ledger field and no scheduling
         function is written / reached from report generation
  R18.2  JSON and CSV renderings take the same cell field of the same body lines; a row filter that only
         one rendering honours (is_hidden) has no writer that sets it
  R18.3  the column table's "scenario specific" flag agrees with the attribute definitions for every
         column that is a task or resource attribute
  R18.4  derived money columns: cost depends on the resource rate and the per-task booked seconds of the
         ledger; dates are formatted with the report's time format (project format as fallback); empty for None
  R18.5  rows: task list sorted by sequence number, leaf filter control dependent on leafTasksOnly, one
         body line per task of the list, one cell per column
  R18.12 the report's own time format is honoured whatever it spells (no literal sentinel decides the fall-back to the project format)
  R18.6  row filters are interpreted: a filter stored as text is not decided by the truthiness of its spelling
  R18.8  no class-/module-level container is written while a report is generated (rendered values are not remembered)
  R18.7  every Report.generate() rebuilds the intermediate table before any format writer runs
Not decided: cell text = formatted model value for concrete values.
"""
from __future__ import annotations

import ast
import os

from ..cfg import cfg_of
from ..core import Ctx, key_of
from ..dep import data, full
from ..model import AnchorMissing, const_str, dotted, norm, own_nodes
from ..order import local_resolver
from .common import facts_of, returns

META = {
    "level": "other",
    "technique": "static analysis: effect analysis of report generation, sibling agreement of the two renderers, table cross-check, dependence closure, type-set propagation into the filter dispatch",
    "explanation": "Effects of everything reachable from Report.generate are intersected with what scheduling reads; the "
                   "JSON and CSV renderers are compared field by field; the column table is cross-checked against the "
                   "attribute definitions; the cost column's dataflow is followed to rate and ledger seconds; the "
                   "filter dispatch is checked for text-typed filters."
                   " Also: dominance of the table rebuild over every format writer, no loop editing the list it iterates, structure of the ledger scan in getCost, sibling agreement of allocation forms between booking and cost code, kind-preserving sort key, uninterpreted filter text (known finding F57) and the shared-container census under report generation."
                   " Round 3: the file writers receive the rendering itself, not a selection of its rows."
                   " Round 4: fresh content generator per generation, case folding of case-insensitive terminals, memo rules under report generation. Round 8: JSON and CSV select body rows by the same tests; no early exit of the intermediate-format builder on the previous content. The report's own time format is never compared with a literal format to decide the fall-back (known finding F79).",
    "assumptions": [],
}

LEDGER = {"slotSecondsUsed", "slotTaskUsage", "scoreboard", "_effort", "doneEffort", "currentSlotIdx", "_scoreboard",
          "firstBookedSlot", "lastBookedSlot"}


def case_folding_rule(ctx: Ctx, rid: str):
    """A terminal the grammar matches without regard to case (`/.../i`) reaches the transformer in the user's spelling: a callback
    that decides by comparing the text with the terminal's lower-case words folds the case first.  (`leaftasksonly True` parses;
    without folding it means false and the report lists containers.)  Grammar text cross-checked against the callbacks."""
    import re as _re
    gtext = open(os.path.join(ctx.repo.root, "scriptplan", "parser", "tjp.lark")).read()
    words = set()
    for m in _re.finditer(r"^([A-Z_][A-Z_0-9]*)(?:\.\d+)?\s*:\s*/([^/\n]+)/i\s*$", gtext, _re.M):
        for w in m.group(2).split("|"):
            if w.isalpha():
                words.add(w.lower())
    if not words:
        raise AnchorMissing("tjp.lark: no case-insensitive word terminal found")
    tr = ctx.repo.cls("TJPTransformer")
    n = 0
    for nm, f in sorted(tr.methods.items()):
        res = local_resolver(f.node)
        for c in own_nodes(f):
            if not (isinstance(c, ast.Compare) and len(c.ops) == 1 and isinstance(c.ops[0], (ast.In, ast.NotIn, ast.Eq, ast.NotEq))):
                continue
            rhs = c.comparators[0]
            lits = [e.value for e in (rhs.elts if isinstance(rhs, (ast.Tuple, ast.List, ast.Set)) else [rhs]) if isinstance(e, ast.Constant) and isinstance(e.value, str)]
            if not lits or not (set(l for l in lits if l.isalpha()) & words):
                continue
            n += 1

            def folded(e, depth=0):
                if any(isinstance(x, ast.Call) and isinstance(x.func, ast.Attribute) and x.func.attr in ("lower", "casefold", "upper") for x in ast.walk(e)):
                    return True
                if depth < 4:
                    for x in ast.walk(e):
                        if isinstance(x, ast.Name) and any(folded(v, depth + 1) for v in res(x)):
                            return True
                return False
            ok = folded(c.left)
            ctx.ob(rid, f"{f.qual}: {norm(c)[:60]}", (f, c), ok,
                   "the token's case is folded before it is compared with the lower-case words" if ok else
                   f"the grammar accepts {sorted(set(lits) & words)} in any case, the callback compares the raw text with the lower-case words: "
                   "`True` / `YES` parse and mean false",
                   key=key_of(rid, f, c, "case folding"))
    ctx.floor(rid, 1)


def provenance_flag_rule(ctx: Ctx, rid: str, reach):
    """`provided` / `inherited` flags record where a value came from, and they are only maintained while the global attribute mode
    is 0 (parsing): a value set through the API after scheduling is not "provided".  Nothing reachable from Report.generate decides a
    rendering question by those flags -- it would render the same report differently depending on when its attributes were set.
    Zero expected; built-in control."""
    def sites(fn_node):
        return [c for c in ast.walk(fn_node) if isinstance(c, ast.Call) and isinstance(c.func, ast.Attribute) and c.func.attr in ("provided", "inherited")
                and c.args and isinstance(c.args[0], ast.Constant)]
    ctrl = ast.parse("def f(self):\n    if not self.report.provided('timeFormat'):\n        return 1\n    return self.a('timeFormat')\n")
    if len(sites(ctrl.body[0])) != 1:
        raise AnchorMissing("provenance-flag rule: built-in control sample no longer matches")
    n = 0
    for fn in sorted(reach, key=lambda f: f.key):
        if not fn.module.rel.startswith("scriptplan/report/"):
            continue
        n += 1
        for c in sites(fn.node):
            ctx.ob(rid, f"{fn.qual}: {norm(c)[:50]}", (fn, c), False,
                   f"{norm(c)[:50]} is true only for values set while the project file was parsed (the flag is not maintained in the other attribute "
                   "modes): a format or column set through the API is ignored, and the cell is not the value rendered with the effective format",
                   key=key_of(rid, fn, c, "provenance flag"))
    ctx.ob(rid, f"no rendering decision reads a provenance flag ({n} report functions)", None, True, "decisions read values, not where they came from",
           nontrivial=False)


def run_extra(ctx: Ctx):
    case_folding_rule(ctx, "R18.10")
    provenance_flag_rule(ctx, "R18.11", ctx.cg.reach([ctx.repo.func("Report.generate")]))
    # ---------------------------------------------------------------- R18.9 nothing rendered is answered from state that outlives the question
    from .common import process_state_rule
    process_state_rule(ctx, "R18.9", [ctx.repo.func("Report.generate")],
                       "a cell rendered under one report's settings is shown in another", census=False)


def run(ctx: Ctx):
    repo = ctx.repo
    gen = repo.func("Report.generate")
    reach_r = ctx.cg.reach([gen, repo.func("Report.to_json"), repo.func("Report.to_csv")])
    reach_s = ctx.cg.reach([repo.func("Project.schedule")])
    ctx.stats["functions_reachable_from_report"] = len(reach_r)
    # ---------------------------------------------------------------- R18.1
    written, writers = set(), {}
    fld_written = {}
    for fn in reach_r:
        if fn.module.rel.startswith("scriptplan/report/") or fn.module.rel.endswith("property.py") or fn.module.rel.startswith("scriptplan/core/"):
            sm = ctx.dep.summary(fn)
            for pid in sm.pwrites:
                written.add(pid)
                writers.setdefault(pid, []).append(fn.qual)
            for fld in sm.writes:
                if fld in LEDGER and fn.name not in ("__init__", "reset", "copy", "clear"):      # initialisers of fresh objects
                    fld_written.setdefault(fld, []).append(fn.qual)
    read_by_sched = set()
    for fn in reach_s:
        if fn.module.rel.startswith("scriptplan/core/") and not fn.module.rel.endswith("property.py"):
            for a in full(ctx.dep.summary(fn).ret):
                if a.startswith("pattr:"):
                    read_by_sched.add(a[6:])
    # writes through force()/set() with a literal id
    for fn in reach_r:
        for c in own_nodes(fn):
            if isinstance(c, ast.Call) and isinstance(c.func, ast.Attribute) and c.func.attr in ("force", "set") and c.args and const_str(c.args[0]):
                written.add(const_str(c.args[0]))
                writers.setdefault(const_str(c.args[0]), []).append(fn.qual)
    bad = sorted((written & read_by_sched) - {"index", "tree", "bsi"})
    ctx.ob("R18.1", f"attributes written under Report.generate: {sorted(written)}", gen, not bad,
           "report generation writes only list positions (index / tree), which scheduling never reads" if not bad else
           f"report generation writes {bad} ({[writers[b][:2] for b in bad]}), which scheduling reads: generating a report changes the schedule",
           key="R18.1|Report.generate|attribute writes")
    led = {k: sorted(set(v)) for k, v in fld_written.items() if not all(x.endswith(("prepareScheduling", "initScoreboard")) for x in v)}
    ctx.ob("R18.1", f"ledger fields written under Report.generate: {led}", gen, not led,
           "no booking ledger or walk state is touched" if not led else "report generation writes scheduling state", key="R18.1|Report.generate|ledger writes")
    sched_fns = {"Project.schedule", "Project.scheduleScenario", "TaskScenario.schedule", "ResourceScenario.book", "TaskScenario.bookResources",
                 "Project.prepareScenario"}
    hit = sorted(f.qual for f in reach_r if f.qual in sched_fns)
    ctx.ob("R18.1", f"scheduling functions reachable from report generation: {hit}", gen, not hit,
           "no scheduling entry point is reachable" if not hit else "report generation can re-enter the scheduler", key="R18.1|Report.generate|reach")
    # ---------------------------------------------------------------- R18.2
    tj, tc = repo.func("ReportTable.to_json"), repo.func("ReportTable.to_csv")

    def _iters(fn):
        """(target, iterable) of every for statement and comprehension clause of fn"""
        return [(l.target, l.iter) for l in own_nodes(fn) if isinstance(l, (ast.For, ast.comprehension))]

    def iterates(fn, coll):
        """fn walks self.<coll>: directly, or through a local name whose definition contains it"""
        from ..order import local_resolver
        res_ = local_resolver(fn.node)
        for (_t, it) in _iters(fn):
            if f"self.{coll}" in norm(it):
                return True
            for nm in [x for x in ast.walk(it) if isinstance(x, ast.Name)]:
                if any(f"self.{coll}" in norm(d) for d in res_(nm)):
                    return True
        return False

    def body_cells(fn):
        """attributes read from the cells of a line (names bound by iterating `<line>.cells`), if fn walks self.body_lines"""
        if not iterates(fn, "body_lines"):
            return []
        cells = set()
        for (t, it) in _iters(fn):
            if ".cells" in norm(it):
                cells |= {x.id for x in ast.walk(t) if isinstance(x, ast.Name)}
        return [x.attr for x in own_nodes(fn) if isinstance(x, ast.Attribute) and isinstance(x.value, ast.Name) and x.value.id in cells]
    a, b = body_cells(tj), body_cells(tc)
    ok = bool(a) and bool(b) and set(a) == set(b) == {"text"}
    ctx.ob("R18.2", f"body cells: JSON reads cell.{sorted(set(a))}, CSV reads cell.{sorted(set(b))}", tj, ok,
           "both renderings carry cell.text of self.body_lines" if ok else "JSON and CSV read different cell fields / line collections",
           key="R18.2|ReportTable|cell field")
    def honours_hidden(fn):
        return any("is_hidden" in norm(i.test) for i in own_nodes(fn) if isinstance(i, ast.If)) or \
            any("is_hidden" in norm(c_) for l in own_nodes(fn) if isinstance(l, ast.comprehension) for c_ in l.ifs)
    hidden_json, hidden_csv = honours_hidden(tj), honours_hidden(tc)
    setters = []
    for fn in repo.all_funcs():
        for x in own_nodes(fn):
            if isinstance(x, ast.Assign) and any(isinstance(t, ast.Attribute) and t.attr == "is_hidden" for t in x.targets):
                if not (isinstance(x.value, ast.Constant) and x.value.value is False):
                    setters.append(fn.qual)
    ok = (hidden_json == hidden_csv) or not setters
    ctx.ob("R18.2", f"row filter is_hidden: JSON honours={hidden_json}, CSV honours={hidden_csv}, writers of True={setters}", tj, ok,
           "the asymmetric filter can never be set" if ok else "a hidden row is dropped from JSON but kept in CSV", key="R18.2|ReportTable|is_hidden")
    # the same rows: no rendering drops a body row by what the row contains (round 8, C18-13: JSON skipped records whose cells are
    # all empty, CSV kept them -- the arrays stop lining up). Tests between the walk over body_lines and the emission of a row,
    # other than the is_hidden filter judged above, must be the same in both renderings.
    def row_filters(fn):
        from ..order import local_resolver
        res_ = local_resolver(fn.node)

        def over_body(it):
            return "self.body_lines" in norm(it) or any("self.body_lines" in norm(d) for nm in ast.walk(it)
                                                        if isinstance(nm, ast.Name) for d in res_(nm))
        out, n_emit = set(), 0
        for l in own_nodes(fn):
            if isinstance(l, ast.For) and over_body(l.iter):
                for x in ast.walk(l):
                    if isinstance(x, ast.If) and "is_hidden" not in norm(x.test) and x is not l:
                        inner_for = any(isinstance(p_, ast.For) and p_ is not l for p_ in _chain(x, l))
                        emits = any(isinstance(c_, ast.Call) and isinstance(c_.func, ast.Attribute) and c_.func.attr in ("append", "writerow", "extend")
                                    and not any(isinstance(p_, ast.For) and p_ is not l for p_ in _chain(c_, l))
                                    for b_ in x.body + x.orelse for c_ in ast.walk(b_))
                        skips = any(isinstance(c_, (ast.Continue, ast.Break)) for b_ in x.body + x.orelse for c_ in ast.walk(b_))
                        if not inner_for and (emits or skips):
                            out.add(norm(x.test))
                n_emit += 1
            elif isinstance(l, ast.comprehension) and over_body(l.iter):
                n_emit += 1
                out |= {norm(c_) for c_ in l.ifs if "is_hidden" not in norm(c_)}
        return out, n_emit

    def _chain(x, stop):
        p_ = getattr(x, "_parent", None)
        while p_ is not None and p_ is not stop:
            yield p_
            p_ = getattr(p_, "_parent", None)

    (fj, nj), (fc, nc) = row_filters(tj), row_filters(tc)
    if not nj or not nc:
        raise AnchorMissing("ReportTable.to_json / to_csv: walk over self.body_lines not found")
    ok = fj == fc
    ctx.ob("R18.2", f"row selection by content: JSON {sorted(fj)}, CSV {sorted(fc)}", tj, ok,
           "neither rendering drops a row for what it contains" if ok else
           f"one rendering emits a body row only under {sorted(fj ^ fc)}: the other keeps it, the row counts differ and later rows no longer line up",
           key="R18.2|ReportTable|row selection")
    # column names and header come from the same header cells
    hdr_json, hdr_csv = iterates(tj, "header_lines"), iterates(tc, "header_lines")
    ctx.ob("R18.2", "column names come from the header line in both renderings", tj, hdr_json and hdr_csv,
           "header cells name the columns" if hdr_json and hdr_csv else "renderings derive column names differently", key="R18.2|ReportTable|header")
    # the two file writers dump exactly these renderings
    for q, meth in (("Report._generate_json", "to_json"), ("Report._generate_csv", "to_csv")):
        f = repo.func(q)
        fd = ctx.dep.of(f)
        sinks = [c for c in own_nodes(f) if isinstance(c, ast.Call) and (dotted(c.func) or "").split(".")[-1] in ("dump", "writerows")]
        ok = bool(sinks) and all(f"call:{meth}" in full(fd.deps_of(c.args[0])) for c in sinks)
        ctx.ob("R18.2", f"{q}: writes self.content.{meth}()", f, ok, "file content is the rendering" if ok else
               "the written file is not the rendering of the table", key=f"R18.2|{q}|content")
        # ... and the whole of it: the value handed to the writer IS the rendering, not a selection of its rows
        from ..order import local_resolver
        res = local_resolver(f.node)

        def whole(e, depth=0):
            if depth > 5:
                return False
            if isinstance(e, ast.Call) and isinstance(e.func, ast.Attribute) and e.func.attr == meth:
                return True
            if isinstance(e, ast.Name):
                # `None` stands for "nothing to write" and never reaches the writer as rows
                vals = [v for v in res(e) if not (isinstance(v, ast.Constant) and v.value is None)]
                return bool(vals) and all(whole(v, depth + 1) for v in vals)
            if isinstance(e, ast.Call) and isinstance(e.func, ast.Name) and e.func.id in ("list", "tuple") and len(e.args) == 1:
                return whole(e.args[0], depth + 1)
            return False
        for c in sinks:
            okw = whole(c.args[0])
            ctx.ob("R18.2", f"{q}: {norm(c)[:60]} writes every row of the rendering", (f, c), okw,
                   "the writer receives the rendering itself" if okw else
                   f"the writer receives {norm(c.args[0])[:60]}, a selection / transformation of the rendering: rows present in one file "
                   "format are missing or different in the other", key=f"R18.2|{q}|whole")
    # ---------------------------------------------------------------- R18.7 (cont.) the content generator is built anew for every generation
    # (a generator kept from the previous run appends header and rows to its old table)
    gif = repo.func("Report.generate_intermediate_format")
    from .common import enclosing_ifs as _eifs18
    builds = [a for a in own_nodes(gif) if isinstance(a, ast.Assign) and norm(a.targets[0]) == "self.content" and isinstance(a.value, ast.Call)]
    if not builds:
        raise AnchorMissing("generate_intermediate_format: construction of self.content not found")
    for a in builds:
        stale = [norm(i_.test) for (i_, b_) in _eifs18(a, gif.node) if "self.content" in norm(i_.test)]
        # ... nor is it skipped by an earlier exit taken on what the previous generation left behind (round 8, C18-14)
        kept = {norm(x.targets[0]) for x in own_nodes(gif) if isinstance(x, ast.Assign) and len(x.targets) == 1
                and isinstance(x.targets[0], ast.Name) and "self.content" in norm(x.value)} | {"self.content"}
        stale += [norm(i_.test) for i_ in own_nodes(gif) if isinstance(i_, ast.If) and i_.lineno < a.lineno
                  and any(k_ in norm(i_.test) for k_ in kept)
                  and any(isinstance(x, ast.Return) for b_ in i_.body + i_.orelse for x in ast.walk(b_))]
        ctx.ob("R18.7", f"{gif.qual}: {norm(a)[:50]} does not depend on the previous content", (gif, a), not stale,
               "a fresh generator (and table) for every generation" if not stale else
               f"the generator is rebuilt only under {stale}: a second generation of the same report reuses the old table and appends to it, "
               "so the formats written by different generate() calls carry different rows",
               key=key_of("R18.7", gif, a, "fresh content"))
    # ---------------------------------------------------------------- R18.3
    tr = repo.cls("TableReport")
    tab = tr.class_attrs.get("PROPERTIES_BY_ID")
    if not isinstance(tab, ast.Dict):
        raise AnchorMissing("TableReport.PROPERTIES_BY_ID not found")
    defs = {}
    for tb in ("_define_task_attributes", "_define_resource_attributes"):
        f = repo.func(f"Project.{tb}")
        for n in own_nodes(f):
            if isinstance(n, ast.List) and len(n.elts) == 7 and const_str(n.elts[0]):
                defs.setdefault(const_str(n.elts[0]), set()).add(bool(n.elts[5].value) if isinstance(n.elts[5], ast.Constant) else None)
    std = {"id": False, "name": False, "seqno": False}
    n3 = 0
    for k, v in zip(tab.keys, tab.values):
        cid = const_str(k)
        flag = v.elts[3].value if isinstance(v, ast.Tuple) and len(v.elts) == 4 and isinstance(v.elts[3], ast.Constant) else None
        want = defs.get(cid) or ({std[cid]} if cid in std else None)
        if want is None:
            continue
        n3 += 1
        ok = flag in want
        ctx.ob("R18.3", f"column '{cid}': scenario specific {flag}, attribute definition {sorted(want)}", (tr.methods["is_scenario_specific"], k), ok,
               "column table agrees with the attribute definition" if ok else
               "the column is read with the wrong access form (scenario index given / omitted): the attribute lookup fails and the cell shows a placeholder",
               key=f"R18.3|{cid}")
    # ---------------------------------------------------------------- R18.4
    gc = repo.func("TaskScenario.getCost")
    d = full(ctx.dep.summary(gc).ret)
    for atom, what in (("pattr:rate", "resource rate"), ("field:slotTaskUsage", "per-task booked seconds of the ledger")):
        ok = atom in d
        ctx.ob("R18.4", f"{gc.qual}: depends on {what}", gc, ok, f"cost depends on {atom}" if ok else f"cost ignores the {what}", key=f"R18.4|getCost|{atom}")
    seconds_to_hours = any(isinstance(n, ast.BinOp) and isinstance(n.op, ast.Div) and isinstance(n.right, ast.Constant) and n.right.value == 3600.0
                           for n in own_nodes(gc))
    mult = any(isinstance(n, ast.BinOp) and isinstance(n.op, ast.Mult) and {"allocated_hours", "rate"} == {norm(n.left), norm(n.right)} for n in own_nodes(gc))
    only_own = any(isinstance(i, ast.If) and norm(i.test) == "task == self.property" for i in own_nodes(gc))
    ctx.ob("R18.4", f"{gc.qual}: cost = seconds / 3600 x rate over this task's records", gc, seconds_to_hours and mult and only_own,
           "rate x booked hours of this task" if seconds_to_hours and mult and only_own else "cost formula changed",
           key="R18.4|getCost|formula")
    # sibling agreement: the allocation forms the booking code understands are the forms the cost code resolves
    def alloc_keys(fn):
        ks = set()
        for c in own_nodes(fn):
            if isinstance(c, ast.Call) and isinstance(c.func, ast.Attribute) and c.func.attr == "get" and c.args and isinstance(c.args[0], ast.Constant) \
                    and c.args[0].value in ("resources", "options", "alternative"):
                ks.add(c.args[0].value)
        return ks
    kb, kc = alloc_keys(repo.func("TaskScenario.bookResources")), alloc_keys(repo.func("TaskScenario._getResourcesForTask"))
    ok = bool(kb) and kb <= kc
    ctx.ob("R18.4", f"allocation forms: booking reads {sorted(kb)}, cost resolution reads {sorted(kc)}", repo.func("TaskScenario._getResourcesForTask"), ok,
           "an allocation with options (alternatives) is resolved to its candidate resources for the cost too" if ok else
           f"the cost code does not understand the allocation form with {sorted(kb - kc)}: the cost cell of a task written as "
           "`allocate r1 { alternative r2 }` is '-' instead of rate x booked time",
           key="R18.4|_getResourcesForTask|allocation forms")
    gcv = repo.func("TableReport._get_cell_value")
    ok = any(isinstance(i, ast.If) and "'cost'" in norm(i.test) and any("_get_cost_value" in norm(s) for s in i.body) for i in own_nodes(gcv))
    ctx.ob("R18.4", f"{gcv.qual}: column cost -> _get_cost_value", gcv, ok, "cost column is computed from the ledger" if ok else
           "cost column no longer routed to the ledger-based computation", key="R18.4|_get_cell_value|cost")
    fv = repo.func("TableReport._format_value")
    dfv = full(ctx.dep.summary(fv).ret)
    ok = "str:timeFormat" in dfv and "pattr:timeformat" in dfv and "call:strftime" in dfv and "call:a" in dfv
    ctx.ob("R18.4", f"{fv.qual}: dates use the report / project time format", fv, ok, "strftime(report timeFormat | project timeformat)" if ok else
           "date cells are not rendered with the effective time format", key="R18.4|_format_value|timeformat")
    # R18.12 the report's own time format is honoured whatever it spells: the fall-back to the project format is not decided by
    # comparing the format with a literal that is also a legal user value (a sentinel collision: `timeformat "%Y-%m-%d"` on the
    # report is taken for "not set")
    from ..order import local_resolver as _lr18
    res18 = _lr18(fv.node)

    def is_report_format(e):
        if "timeFormat" in norm(e):
            return True
        return isinstance(e, ast.Name) and any("timeFormat" in norm(d_) for d_ in res18(e))
    sentinels = []
    for i in own_nodes(fv):
        if isinstance(i, (ast.If, ast.IfExp)):
            for c_ in ast.walk(i.test):
                if isinstance(c_, ast.Compare) and len(c_.ops) == 1 and isinstance(c_.ops[0], (ast.Eq, ast.NotEq, ast.In, ast.NotIn)):
                    sides = [c_.left, c_.comparators[0]]
                    if any(is_report_format(x) for x in sides) and any(
                            isinstance(k_, ast.Constant) and isinstance(k_.value, str) and k_.value for x in sides
                            if not is_report_format(x) for k_ in ast.walk(x)):
                        sentinels.append(c_)
    for c_ in sentinels:
        ctx.ob("R18.12", f"{fv.qual}: the report's time format is compared with a literal format: {norm(c_)}", (fv, c_), False,
               f"`{norm(c_)}` treats one legal format as 'not set': a report that asks for exactly that format gets the project's instead",
               key="R18.12|_format_value|sentinel " + ",".join(sorted({k_.value for x in (c_.left, c_.comparators[0]) for k_ in ast.walk(x)
                                                                      if isinstance(k_, ast.Constant) and isinstance(k_.value, str) and k_.value})))
    if not sentinels:
        ctx.ob("R18.12", f"{fv.qual}: the report's time format is not compared with a literal format", fv, True,
               "the report's format decides, whatever it spells", key="R18.12|_format_value|no sentinel")
    ctx.floor("R18.12", 1)
    none_empty = any(isinstance(i, ast.If) and norm(i.test) == "value is None" and any(isinstance(s, ast.Return) and isinstance(s.value, ast.Constant) and s.value.value == "" for s in i.body)
                     for i in own_nodes(fv))
    ctx.ob("R18.4", f"{fv.qual}: None -> empty cell", fv, none_empty, "unscheduled tasks show empty dates" if none_empty else
           "None is not rendered as an empty cell", key="R18.4|_format_value|none")
    # scenario-specific vs plain access chosen by the column table
    ok = any(isinstance(i, ast.If) and "is_scenario_specific" in norm(i.test) for i in own_nodes(gcv))
    if not ok:
        # by control dependence: the read with a scenario argument runs only where the column table said "scenario specific" (the
        # answer may have been put into a local first), and a read without one exists for the other columns
        ggc, fgc = cfg_of(gcv), ctx.dep.of(gcv)
        two, one = [], []
        for st in own_nodes(gcv):
            if isinstance(st, ast.stmt) and not isinstance(st, (ast.If, ast.For, ast.While, ast.Try, ast.With, ast.FunctionDef)):
                for c in ast.walk(st):
                    if isinstance(c, ast.Call) and isinstance(c.func, ast.Attribute) and c.func.attr == "get" and c.args \
                            and norm(c.args[0]) == "column_id":
                        (two if len(c.args) == 2 else one).append(st)
        def _ctl(st):
            nd = ggc.node_of(st)
            return {a.lstrip("~") for a in fgc.ctl_atoms(nd)} if nd is not None else set()
        ok = bool(two) and bool(one) and all("call:is_scenario_specific" in _ctl(st) for st in two)
    ctx.ob("R18.4", f"{gcv.qual}: access form chosen by the column table", gcv, ok, "get(id, scenario) vs get(id)" if ok else
           "cell lookup no longer distinguishes scenario-specific attributes", key="R18.4|_get_cell_value|dispatch")
    # ---------------------------------------------------------------- R18.5
    ptl = repo.func("TaskReport._prepare_task_list")
    g = cfg_of(ptl)
    fd = ctx.dep.of(ptl)
    leaf_loops = [l for l in own_nodes(ptl) if isinstance(l, ast.For) and any("leaf()" in norm(i.test) for i in ast.walk(l) if isinstance(i, ast.If))]
    ok = False
    for l in leaf_loops:
        nd = g.node_of(l)
        ok = ok or "str:leafTasksOnly" in {a.lstrip("~") for a in fd.ctl_atoms(nd)}
    ctx.ob("R18.5", f"{ptl.qual}: leaf filter applied iff leafTasksOnly", ptl, ok, "leaf filter is control dependent on the report's leafTasksOnly" if ok else
           "leaf filter does not depend on leafTasksOnly", key="R18.5|_prepare_task_list|leaf")
    src = any(isinstance(c, ast.Call) and norm(c.func) == "PropertyList" and c.args and norm(c.args[0]) == "self.project.tasks" for c in own_nodes(ptl))
    ctx.ob("R18.5", f"{ptl.qual}: list built from all project tasks", ptl, src, "PropertyList(self.project.tasks)" if src else
           "task list is not built from the project's tasks", key="R18.5|_prepare_task_list|source")
    pl = repo.func("PropertyList.__init__")
    ok = any(isinstance(c, ast.Call) and norm(c.func) == "self.addSortingCriteria" and c.args and const_str(c.args[0]) == "seqno"
             and isinstance(c.args[1], ast.Constant) and c.args[1].value is True for c in own_nodes(pl))
    ctx.ob("R18.5", f"{pl.qual}: default order = seqno ascending", pl, ok, "declaration order" if ok else "default list order is not ascending sequence number",
           key="R18.5|PropertyList|seqno")
    gtl = repo.func("TaskReport._generate_task_list")
    ok = any(isinstance(l, ast.For) and norm(l.iter) == "task_list" and any(isinstance(c, ast.Call) and norm(c.func) == "self.table.add_body_line" for c in ast.walk(l))
             for l in own_nodes(gtl))
    ctx.ob("R18.5", f"{gtl.qual}: one body line per task of the list", gtl, ok, "for task in task_list: add_body_line" if ok else
           "rows are not generated one per listed task", key="R18.5|_generate_task_list|rows")
    gl = repo.func("TaskReport._generate_task_line")
    ok = any(isinstance(l, ast.For) and norm(l.iter) == "columns" and any(isinstance(c, ast.Call) and norm(c.func) == "line.add_cell" for c in ast.walk(l))
             for l in own_nodes(gl))
    ctx.ob("R18.5", f"{gl.qual}: one cell per column", gl, ok, "for column in columns: add_cell" if ok else "cells are not generated one per column",
           key="R18.5|_generate_task_line|cells")
    # ---------------------------------------------------------------- R18.7 every generation rebuilds the table
    rg = repo.func("Report.generate")
    grg = cfg_of(rg)
    build = [n for n in grg.nodes if n.ast is not None and n.kind == "stmt" and any(
        isinstance(c, ast.Call) and norm(c.func) == "self.generate_intermediate_format" for c in ast.walk(n.ast))]
    writers = [n for n in grg.nodes if n.ast is not None and n.kind == "stmt" and any(
        isinstance(c, ast.Call) and (norm(c.func).startswith("self._generate_") or
                                     any(t.name.startswith("_generate_") for t in ctx.cg.resolve_call(rg, c)))
        for c in ast.walk(n.ast))]
    if not build or not writers:
        raise AnchorMissing("Report.generate: table build / format writers not found")
    dom = grg.dominators()
    for wnode in writers:
        ok = any(b.id in dom[wnode.id] for b in build)
        ctx.ob("R18.7", f"{rg.qual}: {norm(wnode.ast)[:40]} is preceded by a rebuild of the table on every path", (rg, wnode.ast), ok,
               "generate_intermediate_format() dominates the writer" if ok else
               "a format writer can run on a table built by an earlier generate() call: settings changed in between (time format, "
               "leaf filter) and a schedule computed since are not reflected in the output",
               key=key_of("R18.7", rg, None, "rebuild before " + norm(wnode.ast)[:40]))
    ctx.floor("R18.7", 2)
    # ---------------------------------------------------------------- R18.5 (cont.) no loop edits the list it walks
    rreach = ctx.cg.reach([rg])
    n_loops = 0
    for fn in sorted(rreach, key=lambda f: f.key):
        if not fn.module.rel.startswith("scriptplan/report/"):
            continue
        for l in own_nodes(fn):
            if isinstance(l, ast.For) and isinstance(l.iter, (ast.Name, ast.Attribute)):
                n_loops += 1
                it = norm(l.iter)
                edits = [c for st in l.body for c in ast.walk(st) if
                         (isinstance(c, ast.Call) and isinstance(c.func, ast.Attribute) and c.func.attr in ("remove", "pop", "insert", "clear")
                          and norm(c.func.value) == it) or
                         (isinstance(c, ast.Delete) and any(isinstance(t, ast.Subscript) and norm(t.value) == it for t in c.targets))]
                if edits:
                    ctx.ob("R18.5", f"{fn.qual}: loop over {it} edits it ({norm(edits[0])[:40]})", (fn, l), False,
                           "removing from the list that is being iterated skips the element after each removed one: rows that should "
                           "have been filtered out stay in the report",
                           key=key_of("R18.5", fn, None, f"edit-while-iterating {it}"))
    ctx.ob("R18.5", f"no loop of report generation edits the list it iterates ({n_loops} loops)", rg, True, "row lists are filtered into new lists", nontrivial=False)
    # ---------------------------------------------------------------- R18.4 (cont.) every own record is charged
    scans = [l for l in own_nodes(gc) if isinstance(l, ast.For) and "slotTaskUsage" in norm(l.iter)]
    if not scans:
        raise AnchorMissing("getCost: scan of the per-task ledger records not found")
    for l in scans:
        accs = [x for st in l.body for x in ast.walk(st) if isinstance(x, ast.AugAssign) and isinstance(x.op, ast.Add)]
        skips = [x for st in l.body for x in ast.walk(st) if isinstance(x, (ast.Continue, ast.Break))]
        filters = []
        for a_ in accs:
            p_ = getattr(a_, "_parent", None)
            while p_ is not None and p_ is not l:
                if isinstance(p_, ast.If):
                    t = p_.test
                    own = isinstance(t, ast.Compare) and len(t.ops) == 1 and isinstance(t.ops[0], (ast.Eq, ast.Is)) and \
                        "self.property" in (norm(t.left), norm(t.comparators[0]))
                    if not own:
                        filters.append(norm(t))
                p_ = getattr(p_, "_parent", None)
        # ... and every record of a slot is looked at: the sum sits inside a loop over the slot's own record list
        tnames = {x.id for x in ast.walk(l.target) if isinstance(x, ast.Name)}
        inner_ok = bool(accs) and all(any(isinstance(p2, ast.For) and p2 is not l and any(isinstance(z, ast.Name) and z.id in tnames for z in ast.walk(p2.iter))
                                          and any(a_ is y for y in ast.walk(p2)) for st in l.body for p2 in ast.walk(st)) for a_ in accs)
        if accs and not inner_ok:
            filters.append("only part of each slot's record list is examined")
        ok = bool(accs) and not skips and not filters
        ctx.ob("R18.4", f"{gc.qual}: ledger scan counts every record of this task", (gc, l), ok,
               "inside the scan the only filter is the own-record test" if ok else
               f"records of this task can be skipped inside the ledger scan ({[norm(x) for x in skips][:2] + filters[:2]}): seconds booked in a "
               "slot whose table entry now names another task (shared final slot) are not charged, so cost != rate x booked time",
               key=key_of("R18.4", gc, None, "record filter"))
    # ---------------------------------------------------------------- R18.8 nothing rendered is remembered across reports
    from .c12 import shared_container_census
    shared_container_census(ctx, "R18.8", rreach, floor=5)
    # ---------------------------------------------------------------- R18.5 (cont.) the sort key keeps the value's kind
    ts = repo.func("Query.to_sort")
    bad = sorted(a[5:] for a in data(ctx.dep.summary(ts).ret) if a.startswith("call:") and a[5:] in ("str", "join", "format", "repr", "strftime"))
    ctx.ob("R18.5", f"{ts.qual}: sort key is the value itself", ts, not bad,
           "sequence numbers sort numerically, dates chronologically" if not bad else
           f"the sort key passes through {bad}: numbers are compared as text, so a report of ten or more tasks lists 1, 10, 11, 2, ... instead of "
           "declaration order",
           key="R18.5|Query.to_sort|kind preserved")
    # ---------------------------------------------------------------- R18.6
    ev = repo.func("ReportBase._eval_expression")
    # what type does the parser store into the filter attributes?
    tr_cls = repo.cls("TJPTransformer")
    text_typed = []
    for nm in ("taskreport_hidetask", "taskreport_hideresource", "resourcereport_hidetask", "resourcereport_hideresource"):
        f = tr_cls.methods.get(nm)
        if f is not None:
            for r in returns(f):
                if isinstance(r.value, ast.Tuple) and len(r.value.elts) == 2 and "_get_value" in norm(r.value.elts[1]):
                    text_typed.append(nm)
    g2 = cfg_of(ev)
    facts = facts_of(ev)
    for r in returns(ev):
        if isinstance(r.value, ast.Call) and norm(r.value.func) == "bool" and r.value.args and norm(r.value.args[0]) == "expr":
            nd = g2.node_of(r)
            interpreted = any(isinstance(i, ast.If) and "isinstance(expr, str)" in norm(i.test) for i in own_nodes(ev))
            ok = (not text_typed) or interpreted
            ctx.ob("R18.6", f"{ev.qual}: text filters {text_typed} reach `return bool(expr)`", (ev, r), ok,
                   "text filters are interpreted before the truthiness fallback" if ok else
                   "the parser stores the filter as text and the dispatch decides it by the truthiness of that text: '@none' (hide nothing) "
                   "is a non-empty string and hides every row", key="R18.6|_eval_expression|text filter")
    # every text filter is interpreted: no path from the `isinstance(expr, str)` branch reaches the truthiness fallback
    str_ifs = [n for n in g2.nodes if n.kind == "if" and n.ast is not None and "isinstance(expr, str)" in norm(n.ast.test if isinstance(n.ast, ast.If) else n.ast)]
    fallbacks = [g2.node_of(r) for r in returns(ev) if isinstance(r.value, ast.Call) and norm(r.value.func) == "bool" and r.value.args
                 and norm(r.value.args[0]) == "expr"]
    if text_typed and str_ifs and fallbacks:
        leak = False
        for n0 in str_ifs:
            seen_, todo_ = set(), [b for (b, l) in g2.succ[n0.id] if l == "T"]
            while todo_:
                a_ = todo_.pop()
                if a_ in seen_:
                    continue
                seen_.add(a_)
                if any(a_ == f.id for f in fallbacks if f is not None):
                    leak = True
                    break
                todo_ += [b for (b, l) in g2.succ[a_] if l not in ("exc", "excb")]
        ctx.ob("R18.6", f"{ev.qual}: every text filter is interpreted", (ev, str_ifs[0].ast), not leak,
               "no text reaches the truthiness fallback" if not leak else
               "a filter text other than the two constants falls through to bool(expr): `hidetask ~isleaf()` is a non-empty string, so every "
               "task is hidden and the report has a header and no rows",
               key="R18.6|_eval_expression|uninterpreted text")
    consts = {}
    for i in own_nodes(ev):
        if isinstance(i, ast.If) and isinstance(i.test, ast.Compare) and len(i.test.comparators) == 1 and const_str(i.test.comparators[0]) in ("@none", "@all"):
            rv = [s.value.value for s in i.body if isinstance(s, ast.Return) and isinstance(s.value, ast.Constant)]
            consts[const_str(i.test.comparators[0])] = rv[0] if rv else None
    if consts:
        ok = consts.get("@none") is False and consts.get("@all") is True
        ctx.ob("R18.6", f"{ev.qual}: constants {consts}", ev, ok, "@none hides nothing, @all hides everything" if ok else
               "the filter constants are interpreted the wrong way round", key="R18.6|_eval_expression|constants")
    ctx.floor("R18.1", 3)
    ctx.floor("R18.2", 5)
    ctx.floor("R18.3", 14)
    ctx.floor("R18.4", 7)
    ctx.floor("R18.5", 5)
    ctx.floor("R18.6", 1)
