"""C10 — containers summarise their children and book nothing.

Decided:
  R10.1  only leaves reach Task.schedule (work-list filter; single call site), only leaf resources get a
         slot table (prepareScheduling guard), and a resource without a slot table is never available
  R10.2  both roll-ups (Project._updateContainerTaskStatus, TaskScenario.scheduleContainer) use a
         min-accumulator for start and a max-accumulator for end over the children
  R10.3  a container's `scheduled` flag is control dependent on an all-children-scheduled test
  R10.4  container dates are written from the roll-up values; the final pass visits children first
  R10.5  both roll-ups write the container dates unconditionally with respect to the container's own dates
  R10.7  one call of the roll-up closes every nesting level that is complete (children-first order or fixpoint)
  R10.8  the roll-up runs before the first and between a placement and the next readiness scan (= C07 R07.2)
  R10.9  no answer comes from state that outlives the question (common.process_state_rule)
  R10.10 the completeness test holds for every child whose dates enter the span (must-fact at the reads; unfiltered all())
Not decided: equality of container dates with the children's extremes (runtime values).
"""
from __future__ import annotations

import ast

from ..cfg import cfg_of
from ..core import Ctx, key_of
from ..dep import data, full
from ..model import AnchorMissing, dotted, norm, own_nodes
from ..order import order_table
from .common import ctl_only, facts_of, pattr_writes, returns, maybe_true

META = {
    "level": "other",
    "technique": "static analysis: who-may-call, accumulator order tables, control dependence, must-facts",
    "explanation": "Rule instances over the work-list construction, the two container roll-ups and the resource slot-table "
                   "initialisation: leaf filters, min/max accumulators, control dependence of the scheduled flag on the "
                   "all-children test."
                   " Also: who-may-call rules for initScoreboard and scheduleContainer, unconditional roll-up writes, children-first (or fixpoint) roll-up order, roll-up around the readiness scan, finishScenario post-dominating scheduleScenario, and binding of defaulted scenario parameters."
                   " Round 3: completeness of both roll-ups as a must-fact for every child whose dates enter the span; process-state rule."
                   " Round 4: container dates never pass through the slot grid; the two roll-ups are treated as redundant for values, not for completeness.",
    "assumptions": [],
}


def _accs(fn):
    """[(If, acc name, candidate name)] for `if ... cand < acc: acc = cand` shapes"""
    out = []
    for i in own_nodes(fn):
        if isinstance(i, ast.If) and len(i.body) == 1 and isinstance(i.body[0], ast.Assign) and isinstance(i.body[0].targets[0], ast.Name) \
                and isinstance(i.body[0].value, ast.Name):
            out.append((i, i.body[0].targets[0].id, i.body[0].value.id))
    return out


def all_children_rule(ctx: Ctx, rid: str):
    """The completeness test of both roll-ups holds for EVERY child whose dates enter the span (must-fact, not mere control
    dependence): a test restricted to some kind of child lets an incomplete nested container pass."""
    repo = ctx.repo
    upd = repo.func("Project._updateContainerTaskStatus")
    sc = repo.func("TaskScenario.scheduleContainer")

    def sched_read(t: str) -> bool:
        t = t.replace('"', "'")
        return ".get('scheduled'" in t

    # scheduleContainer: at the first read of a child's date inside the child loop the child's flag is known to be set
    loops = [l for l in own_nodes(sc) if isinstance(l, ast.For) and "children" in norm(l.iter)]
    if len(loops) != 1 or not isinstance(loops[0].target, ast.Name):
        raise AnchorMissing(f"scheduleContainer: {len(loops)} child loops")
    child = loops[0].target.id
    g = cfg_of(sc)
    facts = facts_of(sc)
    reads = [n for n in g.nodes if n.ast is not None and isinstance(n.ast, (ast.Assign, ast.AnnAssign)) and n.ast.value is not None
             and any(isinstance(x, ast.Call) and isinstance(x.func, ast.Attribute) and x.func.attr == "get" and norm(x.func.value) == child
                     and x.args and isinstance(x.args[0], ast.Constant) and x.args[0].value in ("start", "end") for x in ast.walk(n.ast.value))]
    if not reads:
        raise AnchorMissing("scheduleContainer: reads of the children's dates not found")
    from ..order import local_resolver
    for n in reads:
        # the child's scenario object carries the same flag (`child.data[sc].scheduled`, set together with the attribute when a
        # walk succeeds; never set for a task that was not placed): a test on it is at least as strict
        res_sc = local_resolver(sc.node)
        sc_names = {nm.id for nm in ast.walk(sc.node) if isinstance(nm, ast.Name) and any(norm(v).startswith(child + ".data[") for v in res_sc(nm))}
        cl = facts.holds(n, lambda t, p: p is True and ((sched_read(t) and t.startswith(child + ".")) or
                                                        any(t == f"{nm}.scheduled" for nm in sc_names)))
        ok = cl is not None
        ctx.ob(rid, f"{sc.qual}: {norm(n.ast)[:60]} under {sorted(cl) if cl else 'no scheduled-fact'}", (sc, n.ast), ok,
               "a child's dates enter the span only when that child is known to be scheduled" if ok else
               f"at this read the fact `{child}.get('scheduled', ...)` is not established for every child (the abort test is restricted to some "
               "children, or missing): a nested container that is incomplete but carries declared dates is summarised as if it were complete",
               key=key_of(rid, sc, n.ast, "must scheduled"))
    # _updateContainerTaskStatus: all(<flag of child> for child in <all children>) with no filter
    alls = [c for c in own_nodes(upd) if isinstance(c, ast.Call) and isinstance(c.func, ast.Name) and c.func.id == "all" and c.args
            and isinstance(c.args[0], (ast.GeneratorExp, ast.ListComp)) and sched_read(norm(c.args[0].elt))]
    if not alls:
        raise AnchorMissing("_updateContainerTaskStatus: all(<child scheduled> for child in children) not found")
    from ..order import local_resolver
    res = local_resolver(upd.node)
    for c in alls:
        ge = c.args[0]
        gen = ge.generators[0]
        it = gen.iter
        vals = res(it) if isinstance(it, ast.Name) else [it]
        whole = bool(vals) and all(norm(v) in ("task.children", "list(task.children)", "container.children", "list(container.children)") or
                                   norm(v).endswith(".children") for v in vals)
        elt_ok = isinstance(ge.elt, ast.Call) or (isinstance(ge.elt, ast.BoolOp) and isinstance(ge.elt.op, ast.And))
        ok = len(ge.generators) == 1 and not gen.ifs and whole and elt_ok and not isinstance(ge.elt, ast.BoolOp)
        ctx.ob(rid, f"{upd.qual}: {norm(c)[:80]}", (upd, c), ok,
               "the test ranges over all children, unfiltered" if ok else
               "the all-children test is filtered or weakened: a container can be closed although one of its children is not scheduled",
               key=key_of(rid, upd, None, "all children"))


def _redundant_rollups(ctx: Ctx):
    """Containers are summarised twice: by the roll-up that runs while leaves are placed (Project._updateContainerTaskStatus, mechanism
    A) and by the final pass (finishScenario -> finishScheduling -> scheduleContainer, mechanism B), which runs last, visits every
    container children-first and writes unconditionally.  For the END STATE C10 speaks about:
      * if every obligation of B holds, B overwrites the dates A wrote: a failing obligation of A about values, order or timing
        cannot break C10 (it can delay a dependant on a container -- that is C04 / C07, which evaluate the roll-up rules on their
        own).  A's completeness test stays in force: B closes containers, it never re-opens one that A closed too early;
      * if every obligation of A holds, every container that is complete was already closed correctly when its last child was
        placed: B not being *reached* (a path that skips the final pass) cannot break C10.  B's own obligations about what it
        writes stay in force, because B writes last.
    Failing obligations that the other mechanism covers are kept in the evidence as information, not as violations."""
    def mech(o):
        t = o.instance
        if o.rule in ("R10.7", "R10.8") or t.startswith("Project._updateContainerTaskStatus"):
            return "A"
        if t.startswith("TaskScenario.scheduleContainer") or t.startswith("TaskScenario.finishScheduling") \
                or t.startswith("Project.finishScenario") or "finishScenario post-dominates" in t:
            return "B"
        return None
    rules = ("R10.2", "R10.3", "R10.4", "R10.5", "R10.7", "R10.8", "R10.10")
    obs = [o for o in ctx.obs if o.rule in rules and not o.info and mech(o)]
    a_ok = all(o.holds for o in obs if mech(o) == "A")
    b_ok = all(o.holds for o in obs if mech(o) == "B")
    for o in obs:
        if o.holds is False:
            # (a completeness test of A that is too lax is NOT repaired: B never takes a `scheduled` flag back)
            if mech(o) == "A" and b_ok and o.rule not in ("R10.3", "R10.10"):
                o.info = True
                o.detail += "  [not a violation of C10: the final pass (scheduleContainer, all obligations hold) rewrites every container last]"
            elif mech(o) == "B" and a_ok and (o.rule == "R10.4" and ("post-dominates" in o.instance or o.instance.startswith("Project.finishScenario")
                                                                      or o.instance.startswith("TaskScenario.finishScheduling"))):
                o.info = True
                o.detail += "  [not a violation of C10: every complete container was closed by the roll-up that follows each placement (all its obligations hold)]"


def rollup_accumulator_rule(ctx: Ctx, rid: str, which=("upd", "sc")):
    """The roll-ups take the earliest child start (min-accumulator) and the latest child end (max-accumulator) over the children
    (C10 R10.2; C04 R04.14 for the roll-up that runs while leaves are placed -- its dates are what a dependant on a container reads)."""
    upd = ctx.repo.func("Project._updateContainerTaskStatus")
    sc = ctx.repo.func("TaskScenario.scheduleContainer")
    for fn, exp in [p_ for p_ in ((upd, {"min_start": "child_start", "max_end": "child_end"}), (sc, {"n_start": "child_start", "n_end": "child_end"}))
                    if (p_[0] is upd and "upd" in which) or (p_[0] is sc and "sc" in which)]:
        found = {}
        for (i, acc, cand) in _accs(fn):
            if acc in exp and cand == exp[acc]:
                parts = []
                for x in ast.walk(i.test):
                    if isinstance(x, ast.Compare) and len(x.ops) == 1 and not isinstance(x.ops[0], (ast.Is, ast.IsNot)):
                        parts.append(x)
                tab = order_table(parts[0], lambda e: isinstance(e, ast.Name) and e.id == cand,
                                  lambda e: isinstance(e, ast.Name) and e.id == acc) if parts else None
                want = {"<": True, "=": False, ">": False} if "start" in acc else {"<": False, "=": False, ">": True}
                okk = tab is not None and tab["<"] == want["<"] and tab[">"] == want[">"]
                found[acc] = True
                ctx.ob(rid, f"{fn.qual}: {acc} <- {norm(i.test)[:70]}", (fn, i), okk,
                       ("earliest child start (min-accumulator)" if "start" in acc else "latest child end (max-accumulator)") if okk else
                       f"roll-up accumulator for {acc} has the wrong direction ({tab})", key=f"{rid}|{fn.qual}|{acc}")
        # the span starts from nothing: apart from the comparisons above, an accumulator is only ever given None (or is an aggregate of
        # the children's dates) -- seeding it with a date of the container itself makes that date part of the span (a container that was
        # given a late `end` is then "finished" at that end, and its dependants wait for it although every child is done)
        for acc in exp:
            for a_ in own_nodes(fn):
                if isinstance(a_, (ast.Assign, ast.AnnAssign)) and a_.value is not None and any(
                        isinstance(t_, ast.Name) and t_.id == acc for t_ in (a_.targets if isinstance(a_, ast.Assign) else [a_.target])):
                    v_ = a_.value
                    inner = v_.body if isinstance(v_, ast.IfExp) else v_
                    fine = (isinstance(v_, ast.Constant) and v_.value is None) or (isinstance(v_, ast.Name) and v_.id == exp[acc]) or \
                        (isinstance(inner, ast.Call) and isinstance(inner.func, ast.Name) and inner.func.id in ("min", "max"))
                    if not fine:
                        ctx.ob(rid, f"{fn.qual}: {acc} seeded with {norm(v_)[:50]}", (fn, a_), False,
                               f"the roll-up of {acc} does not start from nothing: {norm(v_)[:50]} enters the span although it is not a child's date",
                               key=f"{rid}|{fn.qual}|{acc} seed")
        if len(found) != 2:
            # aggregate form: the children's dates are collected in a list and the roll-up is min(list) / max(list)
            fdd = ctx.dep.of(fn)
            for a_ in own_nodes(fn):
                if not (isinstance(a_, ast.Assign) and len(a_.targets) == 1 and isinstance(a_.targets[0], ast.Name) and a_.targets[0].id in exp
                        and a_.targets[0].id not in found):
                    continue
                acc = a_.targets[0].id
                v_ = a_.value.body if isinstance(a_.value, ast.IfExp) else a_.value
                if not (isinstance(v_, ast.Call) and isinstance(v_.func, ast.Name) and v_.func.id in ("min", "max") and len(v_.args) == 1
                        and isinstance(v_.args[0], ast.Name) and not v_.keywords):
                    continue
                lst = v_.args[0].id
                pushed = [c_.args[0] for c_ in own_nodes(fn) if isinstance(c_, ast.Call) and isinstance(c_.func, ast.Attribute) and c_.func.attr == "append"
                          and norm(c_.func.value) == lst and len(c_.args) == 1]
                which_ = "start" if "start" in acc else "end"
                src_ok = bool(pushed) and all(f"pattr:{which_}" in data(fdd.deps_of(e_)) for e_ in pushed)
                okk = src_ok and v_.func.id == ("min" if which_ == "start" else "max")
                found[acc] = True
                ctx.ob(rid, f"{fn.qual}: {acc} <- {norm(a_.value)[:70]}", (fn, a_), okk,
                       ("earliest child start (min over the children's starts)" if which_ == "start" else "latest child end (max over the children's ends)") if okk else
                       f"roll-up of {acc} is not the {'minimum' if which_ == 'start' else 'maximum'} of the children's {which_} dates", key=f"{rid}|{fn.qual}|{acc}")
        if len(found) != 2:
            raise AnchorMissing(f"{fn.qual}: roll-up accumulators found {sorted(found)}")
        # loop over the children
        loops = [l for l in own_nodes(fn) if isinstance(l, ast.For) and "children" in norm(l.iter)]
        ctx.ob(rid, f"{fn.qual}: roll-up iterates the children", fn, bool(loops), "for child in children" if loops else
               "roll-up does not iterate the container's children", key=f"{rid}|{fn.qual}|children")


def exact_span_rule(ctx: Ctx, rid: str):
    """A container's dates ARE child dates: what both roll-ups write into a container's start / end derives from the children's
    dates by comparison and selection only -- it does not pass through the slot grid (dateToIdx / idxToDate) or a rounding call,
    which would move a mid-slot child date to a slot boundary."""
    repo = ctx.repo
    n = 0
    for q in ("Project._updateContainerTaskStatus", "TaskScenario.scheduleContainer"):
        fn = repo.func(q)
        for pid in ("start", "end"):
            for atoms, node, scx, tgt in pattr_writes(ctx, fn, pid):
                d = data(atoms)
                bad = sorted(a[5:] for a in d if a in ("call:dateToIdx", "call:idxToDate", "call:round", "call:floor", "call:ceil", "call:align", "call:replace"))
                n += 1
                ctx.ob(rid, f"{fn.qual}: {norm(node.ast)[:60]}", (fn, node.ast), not bad,
                       "the written date is one of the children's dates" if not bad else
                       f"the written date passes through {', '.join(bad)}(): a child that starts or ends inside a slot gives the container a date on "
                       "the slot grid, earlier than its earliest child start / latest child end",
                       key=key_of(rid, fn, None, f"exact {pid}"))
    if n < 4:
        raise AnchorMissing(f"roll-up writes of container dates: {n} found")


def run_extra(ctx: Ctx):
    all_children_rule(ctx, "R10.10")
    exact_span_rule(ctx, "R10.11")
    # ---------------------------------------------------------------- R10.9 answers never come from state that outlives the question
    from .common import process_state_rule
    process_state_rule(ctx, "R10.9", [ctx.repo.func("Project.schedule")],
                       "a container's completeness or span is answered from another container's, scenario's or run's record")


def rollup_order_rule(ctx: Ctx, rid: str):
    """One call of the roll-up closes every nesting level that is complete (C10 R10.7 / C07 R07.8)."""
    upd = ctx.repo.func("Project._updateContainerTaskStatus")
    from ..order import local_resolver as _lr0
    loops_u = [l for l in own_nodes(upd) if isinstance(l, ast.For) and getattr(l, "_parent", None) is upd.node and (
        "self.tasks" in norm(l.iter) or (isinstance(l.iter, ast.Name) and any("self.tasks" in norm(v) for v in _lr0(upd.node)(l.iter))))]
    if len(loops_u) != 1:
        raise AnchorMissing(f"_updateContainerTaskStatus: {len(loops_u)} top-level loops over self.tasks")
    it = loops_u[0].iter
    fix = any(isinstance(w, ast.While) for w in own_nodes(upd) if any(x is loops_u[0] for x in ast.walk(w)))
    children_first = isinstance(it, ast.Call) and norm(it.func) == "reversed"
    if isinstance(it, ast.Name):
        # a named list: reversed when it was built reversed, sliced [::-1] or .reverse()d before the loop
        from ..order import local_resolver as _lr
        vals = _lr(upd.node)(it)
        rev_built = any((isinstance(v, ast.Call) and (norm(v.func) == "reversed" or any(isinstance(a, ast.Call) and norm(a.func) == "reversed" for a in v.args)))
                        or (isinstance(v, ast.Subscript) and norm(v.slice) in ("::-1", "slice(None, None, -1)")) for v in vals)
        rev_called = any(isinstance(c, ast.Call) and isinstance(c.func, ast.Attribute) and c.func.attr == "reverse" and norm(c.func.value) == it.id
                         and c.lineno < loops_u[0].lineno for c in own_nodes(upd))
        children_first = (rev_built or rev_called) and all("self.tasks" in norm(v) for v in vals)
        if children_first:
            it = ast.Call(func=ast.Name(id="reversed", ctx=ast.Load()), args=[it], keywords=[])
    if not (children_first or fix) and norm(it) != "self.tasks":
        from ..model import Inconclusive
        raise Inconclusive(f"_updateContainerTaskStatus: iteration order {norm(it)} is neither declaration order, its reverse, nor a fixpoint loop")
    ok = children_first or fix
    ctx.ob(rid, f"{upd.qual}: roll-up order {norm(it)}", (upd, loops_u[0]), ok,
           "children are visited before their container (declaration order reversed) or the pass is repeated to a fixpoint" if ok else
           "containers are visited in declaration order (parents first) in a single pass: each call closes one nesting level only, so an "
           "outer container whose children are all scheduled stays unscheduled and its dependants are reported as deadlocked",
           key=f"{rid}|_updateContainerTaskStatus|order")


def run(ctx: Ctx):
    repo = ctx.repo
    ss = repo.func("Project.scheduleScenario")
    upd = repo.func("Project._updateContainerTaskStatus")
    sc = repo.func("TaskScenario.scheduleContainer")
    fin = repo.func("TaskScenario.finishScheduling")
    prep = repo.func("ResourceScenario.prepareScheduling")
    avail = repo.func("ResourceScenario.available")
    # ---------------------------------------------------------------- R10.1
    tsched = repo.func("Task.schedule")
    callers = [(f, c) for (f, c) in ctx.cg.callers(tsched) if isinstance(c.func, ast.Attribute) and c.func.attr == "schedule"
               and len(c.args) == 1 and f.module.rel.startswith("scriptplan/core/")]
    ok = len(callers) == 1 and callers[0][0] is ss
    ctx.ob("R10.1", f"Task.schedule call sites: {[f.qual for f, _ in callers]}", ss, ok,
           "tasks are placed only by the scheduling loop" if ok else "Task.schedule is called from outside the scheduling loop",
           key="R10.1|Task.schedule|callers")
    for n in own_nodes(ss):
        if isinstance(n, (ast.Assign, ast.AnnAssign)) and norm(n.targets[0] if isinstance(n, ast.Assign) else n.target) == "tasks" \
                and isinstance(n.value, ast.ListComp) and not any(norm(g_.iter) == "tasks" for g_ in n.value.generators):
            conds = " and ".join(norm(c) for g_ in n.value.generators for c in g_.ifs)
            ok = "t.leaf()" in conds.replace(" ", "") or ".leaf()" in conds
            ctx.ob("R10.1", f"{ss.qual}: work list filter [{conds}]", (ss, n), ok, "containers never enter the work list" if ok else
                   "container tasks can enter the work list and would be walked and booked", key="R10.1|scheduleScenario|leaf filter")
    # milestone pre-pass skips containers
    pre = [l for l in own_nodes(ss) if isinstance(l, ast.For) and norm(l.iter) == "all_tasks"]
    ok = bool(pre) and any(isinstance(s, ast.If) and "not task.leaf()" in norm(s.test) and any(isinstance(x, ast.Continue) for x in s.body)
                           for s in pre[0].body)
    ctx.ob("R10.1", f"{ss.qual}: milestone pre-pass skips containers", ss, ok, "if not task.leaf(): continue" if ok else
           "milestone pre-pass can mark containers as scheduled", key="R10.1|scheduleScenario|prepass leaf")
    f_prep = facts_of(prep)
    g = cfg_of(prep)
    for c in own_nodes(prep):
        if isinstance(c, ast.Call) and (dotted(c.func) or "").endswith("initScoreboard"):
            node = g.node_containing(c)
            cl = f_prep.holds(node, lambda t, p: p and t == "self.property.leaf()")
            ctx.ob("R10.1", f"{prep.qual}: slot table only for leaf resources", (prep, c), cl is not None,
                   "initScoreboard() under self.property.leaf()" if cl else "resource groups get a slot table and can be booked",
                   key="R10.1|ResourceScenario.prepareScheduling|leaf")
    fa = facts_of(avail)
    ga = cfg_of(avail)
    oks = []
    for r in returns(avail):
        if maybe_true(r):
            cl = fa.holds(ga.node_of(r), lambda t, p: (not p) and t == "self.scoreboard is None")
            oks.append(cl is not None)
    ctx.ob("R10.1", f"{avail.qual}: a resource without slot table is never available", avail, bool(oks) and all(oks),
           "return True only when self.scoreboard exists" if oks and all(oks) else "a group resource (no slot table) can be reported available",
           key="R10.1|available|scoreboard")
    # ---------------------------------------------------------------- R10.1 (cont.) who may create a slot table
    initsb = repo.func("ResourceScenario.initScoreboard")
    sites = [(f, c) for f in repo.all_funcs() for c in own_nodes(f)
             if isinstance(c, ast.Call) and isinstance(c.func, ast.Attribute) and c.func.attr == "initScoreboard"
             and f.module.rel.startswith("scriptplan/core/") and "scoreboard" not in f.module.rel.split("/")[-1].replace("resource_scenario", "")]
    for f, c in sites:
        ok = f is prep
        if not ok:
            # also fine: reached only where available() already answered True (it answers False without a slot table, see the
            # rule below), so the call is dead for a resource that has none; a `force` escape needs a caller that forces
            cl = facts_of(f).holds(cfg_of(f).node_containing(c), lambda t, p_: p_ and (
                t == "force" or t.startswith("self.available(") or t == "self.property.leaf()"))
            if cl is not None and any(t != "force" for (t, _p) in cl):
                forced = [cc for (_cf, cc) in ctx.cg.callers(f) if len(cc.args) > 2 or any(
                    k.arg == "force" and not (isinstance(k.value, ast.Constant) and k.value.value is False) for k in cc.keywords)]
                ok = not forced or all(t != "force" for (t, _p) in cl)
        ctx.ob("R10.1", f"{f.qual}: {norm(c)}", (f, c), ok,
               "slot tables are created by prepareScheduling only (under its leaf guard)" if ok else
               f"{f.qual} creates a resource slot table directly, bypassing prepareScheduling's leaf guard: a resource GROUP that is "
               "allocated gets a slot table of its own and is booked",
               key=key_of("R10.1", f, None, "initScoreboard call"))
    if not sites:
        raise AnchorMissing("no call of ResourceScenario.initScoreboard found")
    # ---------------------------------------------------------------- R10.5 roll-up writes are unconditional
    from ..order import local_resolver
    from .common import enclosing_ifs
    for fn, cont in ((upd, ("task",)), (sc, ("self.property", "self"))):
        res_f = local_resolver(fn.node)
        for pid in ("start", "end"):
            for atoms, node, scx, tgt in pattr_writes(ctx, fn, pid):
                own_reads = []
                for (i, b) in enclosing_ifs(node.ast, fn.node):
                    exprs = [i.test]
                    for x in ast.walk(i.test):
                        if isinstance(x, ast.Name):
                            exprs += res_f(x)
                    for e in exprs:
                        for x in ast.walk(e):
                            if isinstance(x, ast.Call) and isinstance(x.func, ast.Attribute) and x.func.attr in ("get", "a") and x.args \
                                    and isinstance(x.args[0], ast.Constant) and x.args[0].value in ("start", "end") \
                                    and norm(x.func.value) in cont:
                                own_reads.append(norm(x))
                            elif isinstance(x, ast.Subscript) and norm(x.value) in cont and isinstance(x.ctx, ast.Load) \
                                    and any(isinstance(k, ast.Constant) and k.value in ("start", "end") for k in ast.walk(x.slice)):
                                own_reads.append(norm(x))
                ok = not own_reads
                ctx.ob("R10.5", f"{fn.qual}: {norm(node.ast)} independent of the container's own dates", (fn, node.ast), ok,
                       "the roll-up value replaces whatever the container carried" if ok else
                       f"the write is guarded by the container's own date ({sorted(set(own_reads))}): a container that carries a start / end "
                       "of its own keeps it instead of the min / max of its children",
                       key=f"R10.5|{fn.qual}|conditional roll-up write")
    # ---------------------------------------------------------------- R10.4 (cont.) the final pass is the post-order recursion
    finsc = repo.func("Project.finishScenario")
    sc_sites = [(f, c) for f in repo.all_funcs() for c in own_nodes(f)
                if isinstance(c, ast.Call) and isinstance(c.func, ast.Attribute) and c.func.attr == "scheduleContainer"]
    for f, c in sc_sites:
        ok = f is fin
        ctx.ob("R10.4", f"{f.qual}: {norm(c)}", (f, c), ok,
               "containers are closed only by the children-first recursion" if ok else
               f"{f.qual} closes a container outside the children-first recursion: in a deep tree an outer container is rolled up "
               "before the inner ones have their dates",
               key=key_of("R10.4", f, None, "scheduleContainer call"))
    roots = [c for c in own_nodes(finsc) if isinstance(c, ast.Call) and isinstance(c.func, ast.Attribute) and c.func.attr == "finishScheduling"
             and "task" in norm(c.func.value)]
    ok = bool(roots) and bool(sc_sites)
    ctx.ob("R10.4", f"{finsc.qual}: final pass starts the recursion at the task roots", finsc, ok,
           "task.finishScheduling() from finishScenario" if ok else "finishScenario no longer runs the children-first recursion over the tasks",
           key="R10.4|Project.finishScenario|recursion")
    # the final roll-up runs for every scenario that was scheduled, complete or not
    psched = repo.func("Project.schedule")
    gp = cfg_of(psched)

    def _with(name):
        return [n for n in gp.nodes if n.ast is not None and n.kind in ("stmt", "if", "while") and any(
            isinstance(c, ast.Call) and norm(c.func) == name for c in ast.walk(n.ast.test if isinstance(n.ast, (ast.If, ast.While)) else n.ast))]
    sc_n, fi_n = _with("self.scheduleScenario"), _with("self.finishScenario")
    if not sc_n or not fi_n:
        raise AnchorMissing("Project.schedule: scheduleScenario / finishScenario calls not found")
    pdm = gp.postdominators()
    ok = fi_n[0].id in pdm.get(sc_n[0].id, ())
    ctx.ob("R10.4", f"{psched.qual}: finishScenario post-dominates scheduleScenario", psched, ok,
           "containers are closed by the final pass whatever scheduleScenario returned" if ok else
           "a path from scheduleScenario skips finishScenario: when a leaf could not be placed the outer containers of a deep tree are "
           "never rolled up although all their children are scheduled",
           key="R10.4|Project.schedule|finish postdom")
    rollup_order_rule(ctx, "R10.7")
    # ---------------------------------------------------------------- R10.8 roll-up around the readiness scan (shared with C07 R07.2)
    from .c07 import rollup_rules
    rollup_rules(ctx, "R10.8")
    ctx.floor("R10.8", 2)
    rollup_accumulator_rule(ctx, "R10.2")
    # ---------------------------------------------------------------- R10.3 / R10.4
    for fn in (upd, sc):
        for atoms, node, scx, tgt in pattr_writes(ctx, fn, "scheduled"):
            c = ctl_only(atoms)
            # the all-children test itself must control the write (not merely the container's own flag)
            ok = ("pattr:scheduled" in c or (fn is sc and "field:scheduled" in c)) and "field:children" in c and (("call:all" in c) if fn is upd else True)
            ctx.ob("R10.3", f"{fn.qual}: {norm(node.ast)}", (fn, node.ast), ok,
                   "container marked scheduled only under the all-children-scheduled test" if ok else
                   "a container can be marked scheduled although a child is not", key=f"R10.3|{fn.qual}|scheduled")
        for pid, acc in (("start", ("min_start", "n_start")), ("end", ("max_end", "n_end"))):
            for atoms, node, scx, tgt in pattr_writes(ctx, fn, pid):
                v = node.ast.value
                ok = isinstance(v, ast.Name) and v.id in acc
                ctx.ob("R10.4", f"{fn.qual}: {norm(node.ast)}", (fn, node.ast), ok, "container date := roll-up value" if ok else
                       f"container {pid} is not written from the roll-up accumulator", key=f"R10.4|{fn.qual}|{pid}")
    # leaves are excluded from the roll-ups
    ok = any(isinstance(i, ast.If) and norm(i.test) == "task.leaf()" and any(isinstance(s, ast.Continue) for s in i.body) for i in own_nodes(upd))
    ctx.ob("R10.4", f"{upd.qual}: leaves skipped", upd, ok, "roll-up touches containers only" if ok else
           "roll-up can overwrite leaf dates", key="R10.4|_updateContainerTaskStatus|leaf skip")
    ok = any(isinstance(i, ast.If) and "self.property.leaf()" in norm(i.test) and any(isinstance(s, ast.Return) for s in i.body) for i in own_nodes(sc))
    ctx.ob("R10.4", f"{sc.qual}: leaves skipped", sc, ok, "scheduleContainer returns for leaves" if ok else
           "scheduleContainer can overwrite leaf dates", key="R10.4|scheduleContainer|leaf skip")
    # children first
    body = [s for s in fin.node.body if not isinstance(s, ast.Expr) or not isinstance(getattr(s, "value", None), ast.Constant)]
    kinds = ["loop" if isinstance(s, ast.For) else ("container" if isinstance(s, ast.If) and "scheduleContainer" in norm(s) else "?") for s in body]
    ok = "loop" in kinds and "container" in kinds and kinds.index("loop") < kinds.index("container")
    ctx.ob("R10.4", f"{fin.qual}: children before the container {kinds}", fin, ok, "post-order: nested containers are summarised bottom-up" if ok else
           "final roll-up does not process children before their container", key="R10.4|finishScheduling|order")
    ctx.floor("R10.10", 3)
    _redundant_rollups(ctx)
    from .c16 import scenario_default_rule
    scenario_default_rule(ctx, "R10.6")
    from .c16 import scenario_index_rule
    scenario_index_rule(ctx, "R10.6", only={"Project._updateContainerTaskStatus", "TaskScenario.scheduleContainer", "TaskScenario.finishScheduling"})
    ctx.floor("R10.1", 6)
    ctx.floor("R10.5", 4)
    ctx.floor("R10.2", 6)
    ctx.floor("R10.3", 2)
    ctx.floor("R10.4", 9)
