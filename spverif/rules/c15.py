"""C15 — equivalent ways of writing a project give the same schedule.

Decided:
  R15.1  identifier opacity: in parsing / scheduling code identifier values (.id, .fullId, .subId, reference
         strings) are used only through equality, dictionary lookup and path splitting — no substring,
         prefix (other than the '!' path syntax), case folding or ordering tests, no literal lists of names
  R15.2  unique-key lookup: a loop over the hierarchical task set that selects by the local id must
         constrain the position in the tree (parent / children walk), otherwise the first task of that
         name at any depth is taken and renaming an unrelated task changes the result
  R15.3  'depends' and 'precedes' propagate the same option keys (gap, kind)
  R15.4  tables: every grammar rule on the spellings the property names (depends, precedes, workinghours
         inline / by shift id) has a transformer handler; the comment kinds the grammar ignores cover the one
         the macro pre-pass strips
  R15.5  relative references: n leading '!' climb n-1 levels from the parent; a referenced shift and
         inline hours reach the same working-hours test
  R15.7  comments of every kind the grammar ignores are removed before the macro pre-pass scans the text
  R15.8  the patterns that extract built-in macro values are not anchored to line boundaries
Not decided: that two concrete texts give equal dates.
"""
from __future__ import annotations

import ast
import os

from ..core import Ctx, key_of
from ..dep import data, full
from ..model import AnchorMissing, Inconclusive, const_str, dotted, norm, own_nodes
from ..order import local_resolver
from .c04 import OPTION_KEYS
from .common import key_of_text

META = {
    "level": "other",
    "technique": "static analysis: taint-style census of identifier uses, lookup-shape rule over the property sets, grammar/transformer table cross-check (lark grammar loader)",
    "explanation": "Identifier values are followed to every operation applied to them (only equality / lookup / path "
                   "splitting are spelling-independent); name lookups over the hierarchical task set must be positional; "
                   "the grammar's rule table is cross-checked against the transformer's handlers with lark's own loader."
                   " Also: the local-id identity census, dominance of a comment stripper (all comment kinds the grammar ignores) over the macro scans, and a regex-AST rule against line anchors in the built-in macro patterns."
                   " Round 3: stripper short cuts cover every comment kind, parser objects per text, macro calls end at their matching brace (depth counter, never a pattern), local-id rule over the core modules, process-state rule.",
    "assumptions": ["lark's grammar loader (import of the grammar file only; no project text is parsed)"],
    "trusted_base": ["lark 1.3.1 grammar loader"],
}

ID_ATTRS = {"id", "fullId", "subId"}


def _is_idish(e) -> bool:
    for x in ast.walk(e):
        if isinstance(x, ast.Attribute) and x.attr in ID_ATTRS:
            return True
        if isinstance(x, ast.Name) and (x.id.endswith("_id") or x.id in ("ref", "dep_ref", "prec_ref", "alloc", "res_id", "shift_id")):
            return True
    return False


def per_text_objects_rule(ctx: Ctx, rid: str):
    """What ProjectFileParser.parse() builds a project with is either created for that one text, or carries nothing over: the
    tree transformer and the model builder are constructed inside parse(); if one of them is kept on the parser object, every
    field of its class that a method writes must be re-initialised by the entry method before it is used."""
    repo = ctx.repo
    parse = repo.func("ProjectFileParser.parse")
    res = local_resolver(parse.node)
    init = repo.func("ProjectFileParser.__init__") if repo.has_func("ProjectFileParser.__init__") else None
    n = 0
    for c in own_nodes(parse):
        if not (isinstance(c, ast.Call) and isinstance(c.func, ast.Attribute) and c.func.attr in ("transform", "build")):
            continue
        recv = c.func.value
        vals = res(recv) if isinstance(recv, ast.Name) else [recv]
        for v in vals or [recv]:
            n += 1
            if isinstance(v, ast.Call) and isinstance(v.func, ast.Name) and v.func.id[:1].isupper():
                ctx.ob(rid, f"{parse.qual}: {norm(c)[:50]} on a {v.func.id} created for this text", (parse, c), True,
                       "nothing of an earlier text can be in it")
                continue
            cls_name = None
            if isinstance(v, ast.Attribute) and isinstance(v.value, ast.Name) and v.value.id == "self" and init is not None:
                for a in own_nodes(init):
                    if isinstance(a, (ast.Assign, ast.AnnAssign)) and a.value is not None and isinstance(a.value, ast.Call) and isinstance(a.value.func, ast.Name) \
                            and any(norm(t) == norm(v) for t in (a.targets if isinstance(a, ast.Assign) else [a.target])):
                        cls_name = a.value.func.id
            if cls_name is None or cls_name not in repo.classes:
                raise Inconclusive(f"{parse.qual}: receiver of {norm(c)[:40]} is neither constructed in parse() nor a field set to a known class")
            ci = repo.cls(cls_name)
            entry = ci.methods.get(c.func.attr)
            written = {}
            for mname, m in ci.methods.items():
                for x in own_nodes(m):
                    tg = []
                    if isinstance(x, (ast.Assign, ast.AnnAssign, ast.AugAssign)):
                        tg = x.targets if isinstance(x, ast.Assign) else [x.target]
                    elif isinstance(x, ast.Call) and isinstance(x.func, ast.Attribute) and x.func.attr in (
                            "append", "add", "update", "extend", "setdefault", "insert", "pop", "remove", "discard"):
                        tg = [x.func.value]
                    for t in tg:
                        while isinstance(t, ast.Subscript):
                            t = t.value
                        if isinstance(t, ast.Attribute) and isinstance(t.value, ast.Name) and t.value.id == "self":
                            written.setdefault(t.attr, m)
            # containers created in __init__ are filled through aliases as well (`explicit = self._x; explicit.add(...)`): they
            # count as written whenever any method mentions them
            if "__init__" in ci.methods:
                for x in own_nodes(ci.methods["__init__"]):
                    if isinstance(x, (ast.Assign, ast.AnnAssign)) and x.value is not None and (
                            isinstance(x.value, (ast.Dict, ast.List, ast.Set)) or (isinstance(x.value, ast.Call) and norm(x.value.func) in ("set", "dict", "list"))):
                        for t in (x.targets if isinstance(x, ast.Assign) else [x.target]):
                            if isinstance(t, ast.Attribute) and norm(t.value) == "self" and any(
                                    isinstance(y, ast.Attribute) and y.attr == t.attr and norm(y.value) == "self"
                                    for mn, m in ci.methods.items() if mn != "__init__" for y in own_nodes(m)):
                                written.setdefault(t.attr, ci.methods["__init__"])
            reset = set()
            if entry is not None:
                for x in entry.node.body:
                    for y in ast.walk(x) if not isinstance(x, (ast.If, ast.For, ast.While, ast.Try, ast.With)) else []:
                        if isinstance(y, (ast.Assign, ast.AnnAssign)):
                            for t in (y.targets if isinstance(y, ast.Assign) else [y.target]):
                                if isinstance(t, ast.Attribute) and norm(t.value) == "self":
                                    reset.add(t.attr)
                        elif isinstance(y, ast.Call) and isinstance(y.func, ast.Attribute) and y.func.attr == "clear" \
                                and isinstance(y.func.value, ast.Attribute) and norm(y.func.value.value) == "self":
                            reset.add(y.func.value.attr)
            stale = sorted(a for a in written if a not in reset)
            ok = not stale
            ctx.ob(rid, f"{parse.qual}: {norm(c)[:50]} on the {cls_name} kept in {norm(v)}", (parse, c), ok,
                   f"every field {cls_name} writes is re-initialised at the top of {c.func.attr}()" if ok else
                   f"the {cls_name} object outlives the text and its field(s) {stale} are written while a text is processed but not re-initialised "
                   f"at the top of {c.func.attr}(): what an earlier text left there (pending links, flags) is applied to the next one",
                   key=key_of_text(rid, "ProjectFileParser.parse", f"{cls_name} state {','.join(stale)}"))
    if n < 2:
        raise AnchorMissing(f"{parse.qual}: transform / build calls not found ({n})")


def balanced_call_scan_rule(ctx: Ctx, rid: str):
    """A macro call `${name arg ...}` may contain further calls in its arguments, so its end is the MATCHING brace: the scanner
    keeps a depth counter (+1 on '{', -1 on '}').  A regular expression cannot match balanced braces: one that excludes braces
    finds the innermost call first, one that stops at the first '}' cuts the outer call short -- either way moving text into a
    macro that itself uses a macro changes the expansion."""
    fn = ctx.repo.func("MacroProcessor._expand_once")
    uses_re = []
    for c in own_nodes(fn):
        if isinstance(c, ast.Call) and isinstance(c.func, ast.Attribute) and c.func.attr in ("sub", "subn", "finditer", "findall", "search", "match", "split"):
            recv = norm(c.func.value)
            pats = []
            if recv == "re" and c.args and isinstance(c.args[0], ast.Constant):
                pats.append(c.args[0].value)
            else:
                # a compiled pattern kept on the class / module
                nm = recv.split(".")[-1]
                for m in ctx.repo.by_rel.values():
                    for a in ast.walk(m.tree):
                        if isinstance(a, (ast.Assign, ast.AnnAssign)) and a.value is not None and isinstance(a.value, ast.Call) and norm(a.value.func) == "re.compile" \
                                and a.value.args and isinstance(a.value.args[0], ast.Constant) \
                                and any(norm(t).split(".")[-1] == nm for t in (a.targets if isinstance(a, ast.Assign) else [a.target])):
                            pats.append(a.value.args[0].value)
            for pt in pats:
                if isinstance(pt, str) and "$" in pt and "{" in pt:
                    uses_re.append((c, pt))
    ups, downs = [], []
    for i in own_nodes(fn):
        if isinstance(i, ast.If):
            t = norm(i.test).replace('"', "'")
            for st in i.body:
                if isinstance(st, ast.AugAssign) and isinstance(st.target, ast.Name) and isinstance(st.value, ast.Constant) and st.value.value == 1:
                    if "== '{'" in t and isinstance(st.op, ast.Add):
                        ups.append(st.target.id)
                    if "== '}'" in t and isinstance(st.op, ast.Sub):
                        downs.append(st.target.id)
    counter = set(ups) & set(downs)
    if uses_re:
        c, pt = uses_re[0]
        ctx.ob(rid, f"{fn.qual}: macro calls are found with the pattern {pt!r}", (fn, c), False,
               "a regular expression cannot find the matching brace of a call whose arguments contain further calls: nested calls are expanded "
               "innermost-first (or the outer call is cut at the first '}'), so the same text written with and without a macro expands differently",
               key=key_of_text(rid, fn.qual, "regex call scan"))
        return
    if not counter:
        raise Inconclusive(f"{fn.qual}: neither a brace depth counter nor a pattern for macro calls found (scanner shape not interpreted)")
    ctx.ob(rid, f"{fn.qual}: brace depth counter {sorted(counter)}", fn, True, "a call ends at its matching brace: outermost calls are expanded first")


def run_extra(ctx: Ctx):
    per_text_objects_rule(ctx, "R15.10")
    balanced_call_scan_rule(ctx, "R15.11")
    # ---------------------------------------------------------------- R15.9 answers never come from state that outlives the question
    from .common import process_state_rule
    process_state_rule(ctx, "R15.9", [ctx.repo.func("ProjectFileParser.parse")],
                       "what an earlier text left in the kept state changes how an equivalent spelling is read")


def run(ctx: Ctx):
    repo = ctx.repo
    scope = [f for f in repo.all_funcs() if f.module.rel.startswith(("scriptplan/parser/tjp_parser", "scriptplan/core/"))
             and (f.cls is None or f.cls.name not in ("TJPTransformer",)) and not f.module.rel.endswith(("timesheet.py", "journal.py", "exceptions.py"))]
    # ---------------------------------------------------------------- R15.1
    n = 0
    allowed_prefix = {("ModelBuilder._resolve_task_reference", "ref.startswith('!')")}
    for fn in sorted(scope, key=lambda f: f.key):
        for x in own_nodes(fn):
            bad = None
            if isinstance(x, ast.Compare) and len(x.ops) == 1:
                op = x.ops[0]
                l, r = x.left, x.comparators[0]
                if isinstance(op, (ast.In, ast.NotIn)):
                    # substring test: "lit" in idish   /  idish in ["a", "b"]
                    if isinstance(l, ast.Constant) and isinstance(l.value, str) and _is_idish(r):
                        bad = "substring test on an identifier"
                    elif _is_idish(l) and isinstance(r, (ast.List, ast.Tuple, ast.Set)) and r.elts and all(isinstance(e, ast.Constant) and isinstance(e.value, str) for e in r.elts):
                        bad = "membership of an identifier in a literal list of names"
                elif isinstance(op, (ast.Lt, ast.Gt, ast.LtE, ast.GtE)) and (_is_idish(l) and _is_idish(r)):
                    bad = "ordering comparison of identifiers"
            elif isinstance(x, ast.Call) and isinstance(x.func, ast.Attribute) and x.func.attr in ("startswith", "endswith", "lower", "upper", "casefold", "find", "index") \
                    and _is_idish(x.func.value) and isinstance(x.func.value, (ast.Name, ast.Attribute)):
                if (fn.qual, norm(x)) not in allowed_prefix:
                    bad = f".{x.func.attr}() on an identifier"
            if bad is None and not (isinstance(x, ast.Call) and (fn.qual, norm(x)) in allowed_prefix):
                continue
            n += 1
            ok = bad is None
            ctx.ob("R15.1", f"{fn.qual}: {norm(x)[:60]}", (fn, x), ok,
                   "leading '!' is path syntax of a reference, not part of an identifier" if ok else
                   f"{bad}: the behaviour depends on how an identifier is spelled", key=key_of("R15.1", fn, x))
    ctx.ob("R15.1", f"identifier-use census over {len(scope)} functions", repo.func("ModelBuilder.build"), True,
           "identifiers are compared for equality, looked up, or split at '.' only", nontrivial=False)
    # ---------------------------------------------------------------- R15.2
    found = 0
    for fn in sorted(scope, key=lambda f: f.key):
        for l in own_nodes(fn):
            if not isinstance(l, ast.For) or not norm(l.iter).endswith(".tasks"):
                continue
            var = l.target.id if isinstance(l.target, ast.Name) else None
            sel = [c for c in ast.walk(l) if isinstance(c, ast.Compare) and isinstance(c.ops[0], ast.Eq) and norm(c.left) == f"{var}.id"]
            if not sel:
                continue
            found += 1
            positional = any(f"{var}.parent" in norm(i.test) for i in ast.walk(l) if isinstance(i, ast.If))
            ctx.ob("R15.2", f"{fn.qual}: for {var} in {norm(l.iter)}: {norm(sel[0])}", (fn, l), positional,
                   "lookup constrains the position in the tree" if positional else
                   "the task set lists tasks of every nesting level and ids are unique among siblings only: selecting by the local id takes "
                   "the first task of that name at any depth (renaming an unrelated nested task changes which task a reference binds to)",
                   key=key_of("R15.2", fn, None, f"first-match {norm(sel[0])}"))
    if not found:
        raise AnchorMissing("no id lookup over the task set found")
    # relative branch walks children of a base: positional by construction
    rtr = repo.func("ModelBuilder._resolve_task_reference")
    kids = [l for l in own_nodes(rtr) if isinstance(l, ast.For) and norm(l.iter).endswith(".children")]
    ctx.ob("R15.2", f"{rtr.qual}: {len(kids)} child walks for path components", rtr, len(kids) >= 2,
           "path components are resolved among the children of the current node" if len(kids) >= 2 else
           "path components are not resolved positionally", key="R15.2|_resolve_task_reference|children")
    # ---------------------------------------------------------------- R15.3
    rd, rp = repo.func("ModelBuilder._resolve_dependencies"), repo.func("ModelBuilder._resolve_precedes")

    def keys(fn):
        got = {const_str(c.args[0]) for c in own_nodes(fn) if isinstance(c, ast.Call) and isinstance(c.func, ast.Attribute)
               and c.func.attr == "get" and c.args and const_str(c.args[0]) in OPTION_KEYS}
        sto = {const_str(k) for d in own_nodes(fn) if isinstance(d, ast.Dict) for k in d.keys if k is not None and const_str(k) in OPTION_KEYS}
        return got & sto
    kd, kp = keys(rd), keys(rp)
    ctx.ob("R15.3", f"depends keeps {sorted(kd)}, precedes keeps {sorted(kp)}", rp, kd == kp == OPTION_KEYS,
           "both spellings of a dependency carry the same options" if kd == kp == OPTION_KEYS else
           f"'precedes' loses {sorted(kd - kp)}", key="R15.3|_resolve_precedes|keys")
    # both resolve references with the same function, relative to the declaring task
    for fn in (rd, rp):
        calls = [c for c in own_nodes(fn) if isinstance(c, ast.Call) and norm(c.func) == "self._resolve_task_reference"]
        ok = len(calls) == 1 and len(calls[0].args) == 3
        ctx.ob("R15.3", f"{fn.qual}: reference resolution {norm(calls[0])[:70] if calls else '-'}", fn, ok,
               "references are resolved relative to the declaring task" if ok else "reference resolution differs", key=f"R15.3|{fn.qual}|resolve")
    # ---------------------------------------------------------------- R15.4
    try:
        from lark import Lark
    except ImportError as e:
        raise AnchorMissing(f"lark not importable in this environment: {e}")
    gpath = os.path.join(repo.root, "scriptplan/parser/tjp.lark")
    if not os.path.exists(gpath):
        raise AnchorMissing("tjp.lark not found")
    with open(gpath) as f:
        gtxt = f.read()
    p = Lark(gtxt, start="start", parser="lalr")
    visible = {(r.alias or str(r.origin.name)) for r in p.rules}
    visible = {v for v in visible if not v.startswith("_")}
    tr = repo.cls("TJPTransformer")
    meths = set(tr.methods)
    need = {"depends_list", "depends_item", "depends_options", "dep_gapduration", "dep_gaplength", "dep_maxgapduration", "dep_onstart",
            "dep_onend", "task_depends", "task_precedes", "resource_workinghours", "workinghours", "workinghours_spec", "day_list",
            "day_spec", "duration_range", "shift", "shift_body", "shift_attr", "task", "task_body", "resource", "resource_body",
            "allocate_spec", "effort_value", "task_effort", "task_start", "task_end", "date"}
    for r in sorted(need):
        ok = r in visible and r in meths
        ctx.ob("R15.4", f"grammar rule {r} <-> TJPTransformer.{r}", (tr.methods.get(r) or tr.methods["start"]), ok,
               "rule exists and has a handler" if ok else
               ("grammar has no such rule any more" if r not in visible else "no transformer handler: the parse tree is passed on and the attribute is silently dropped"),
               key=f"R15.4|{r}")
    missing = sorted(visible - meths)
    ctx.ob("R15.4", f"grammar rules without handler: {missing}", tr.methods["start"], None,
           "these constructs stay lark Trees and are ignored by the model builder (none is on a spelling the property names)", info=True)
    ign = {l.split()[1] for l in gtxt.splitlines() if l.startswith("%ignore")}
    ok = {"SH_COMMENT", "C_COMMENT", "CPP_COMMENT", "WS"} <= ign
    ctx.ob("R15.4", f"grammar ignores {sorted(ign)}", tr.methods["start"], ok, "comments and whitespace never reach the transformer" if ok else
           "a comment kind is no longer ignored by the grammar", key="R15.4|ignore")
    # ---------------------------------------------------------------- R15.5
    rng = [c for c in own_nodes(rtr) if isinstance(c, ast.Call) and norm(c.func) == "range"]
    ok = any(norm(c.args[0]) == "level - 1" for c in rng if c.args)
    base0 = any(isinstance(a, ast.Assign) and norm(a.targets[0]) == "base" and norm(a.value) == "from_task.parent" for a in own_nodes(rtr))
    ctx.ob("R15.5", f"{rtr.qual}: '!' levels", rtr, ok and base0, "n marks = parent, then n-1 further levels up" if ok and base0 else
           "relative reference levels are not resolved as parent + (n-1) levels", key="R15.5|_resolve_task_reference|levels")
    ap = repo.func("ModelBuilder._apply_property_attributes")
    sh = [a for a in own_nodes(ap) if isinstance(a, ast.Assign) and isinstance(a.targets[0], ast.Subscript) and "'shifts'" in norm(a.targets[0])]
    ok = bool(sh) and all("shift" in norm(a.value) for a in sh)
    ctx.ob("R15.5", f"{ap.qual}: shift reference stored as the resource's shift", ap, ok, "resource[shifts] := the named shift" if ok else
           "a shift referenced by id is not attached to the resource", key="R15.5|workinghours_shift")
    # ---------------------------------------------------------------- R15.7 the macro pre-pass sees comment-free text
    mp = repo.func("MacroProcessor.process")
    from ..cfg import cfg_of as _cfg
    gmp = _cfg(mp)
    scans = [n for n in gmp.nodes if n.kind == "stmt" and n.ast is not None and any(
        isinstance(c, ast.Call) and norm(c.func) in ("self._extract_macros", "self._extract_project_dates", "self._expand_macros") for c in ast.walk(n.ast))]
    if not scans:
        raise AnchorMissing("MacroProcessor.process: macro scans not found")
    # every scan's argument derives from the stripper's result (dataflow), whatever the intermediate names
    fdmp = ctx.dep.of(mp)
    stripper_names = {"strip_comments", "strip_shell_comments"}
    ok = True
    for x in scans:
        for c in ast.walk(x.ast):
            if isinstance(c, ast.Call) and norm(c.func) in ("self._extract_macros", "self._extract_project_dates", "self._expand_macros") and c.args:
                if not ({"call:" + n_ for n_ in stripper_names} & full(fdmp.deps_of(c.args[0]))):
                    ok = False
    strips = [n for n in gmp.nodes if n.kind == "stmt" and n.ast is not None and any(
        isinstance(c, ast.Call) and norm(c.func) in stripper_names for c in ast.walk(n.ast))]
    kinds = set()
    for s_ in strips:
        fname = next(norm(c.func) for c in ast.walk(s_.ast) if isinstance(c, ast.Call) and norm(c.func) in stripper_names)
        if repo.has_func(fname):
            for c in own_nodes(repo.func(fname)):
                if isinstance(c, ast.Constant) and isinstance(c.value, str) and c.value in ("#", "//", "/*"):
                    kinds.add(c.value)
    grammar_text = open(os.path.join(repo.root, "scriptplan", "parser", "tjp.lark")).read()
    need = {k for k, t in (("#", "SH_COMMENT"), ("//", "CPP_COMMENT"), ("/*", "C_COMMENT")) if f"%ignore {t}" in grammar_text}
    ok = ok and need <= kinds
    ctx.ob("R15.7", f"{mp.qual}: comment kinds stripped before the macro scans {sorted(kinds)} (grammar ignores {sorted(need)})", mp, ok,
           "macro definitions and built-in dates are extracted from comment-free text" if ok else
           "the macro pre-pass scans text that still contains comments the grammar ignores: a `now <date>` or a macro definition inside a "
           "comment changes the expansion, so adding a comment changes the schedule",
           key="R15.7|MacroProcessor.process|comments stripped first")
    # a stripper's short cut (`return text` as it came) is taken only when the text can hold no comment of any kind
    from ..model import Inconclusive as _Inc
    from .common import enclosing_ifs as _eifs
    for s_ in strips:
        fname = next(norm(c.func) for c in ast.walk(s_.ast) if isinstance(c, ast.Call) and norm(c.func) in stripper_names)
        if not repo.has_func(fname):
            continue
        sf = repo.func(fname)
        p0 = sf.params[0] if sf.params else None
        for r in own_nodes(sf):
            if not (isinstance(r, ast.Return) and isinstance(r.value, ast.Name) and r.value.id == p0):
                continue
            guards = [(i, b) for (i, b) in _eifs(r, sf.node)]
            absent, empty, unknown = set(), False, []
            for i, b in guards:
                conj = i.test.values if (isinstance(i.test, ast.BoolOp) and isinstance(i.test.op, ast.And)) else [i.test]
                if b != "T":
                    unknown.append(norm(i.test))
                    continue
                for t_ in conj:
                    if isinstance(t_, ast.Compare) and len(t_.ops) == 1 and isinstance(t_.ops[0], ast.NotIn) and isinstance(t_.left, ast.Constant) \
                            and isinstance(t_.left.value, str) and norm(t_.comparators[0]) == p0:
                        absent.add(t_.left.value)
                    elif norm(t_) in (f"not {p0}", f"{p0} == ''", f'{p0} == ""', f"len({p0}) == 0"):
                        empty = True
                    else:
                        unknown.append(norm(t_))
            if empty:
                continue
            if unknown and not absent:
                raise _Inc(f"{sf.qual}: short cut `return {p0}` under {unknown}: guard shape not interpreted")
            uncovered = sorted(k for k in need if not any(g and g in k for g in absent))
            ok = not uncovered
            ctx.ob("R15.7", f"{sf.qual}: short cut `return {p0}` when none of {sorted(absent)} occurs", (sf, r), ok,
                   "a text without these characters holds no comment of any kind" if ok else
                   f"the short cut returns the text untouched although it can still hold {uncovered} comments: a macro definition or a `now` "
                   "inside such a comment is then picked up by the pre-pass, so adding a comment changes the schedule",
                   key=key_of("R15.7", sf, None, "short cut covers every comment kind"))
    # ---------------------------------------------------------------- R15.8 built-in values are found wherever they stand in the text
    # whitespace (line breaks) is not significant in the project text: a pattern that extracts `now` or the project header for
    # the built-in macros may not be anchored to the beginning / end of a line
    import re._parser as _sre
    epd = repo.func("MacroProcessor._extract_project_dates")
    n_pat = 0
    for c in own_nodes(epd):
        if isinstance(c, ast.Call) and norm(c.func) in ("re.search", "re.match", "re.compile", "re.finditer", "re.findall") and c.args:
            pat = c.args[0]
            if not (isinstance(pat, ast.Constant) and isinstance(pat.value, str)):
                continue
            n_pat += 1
            try:
                tree = _sre.parse(pat.value)
            except Exception:
                continue
            anchors = []

            def walk_(t):
                for op, av in t:
                    if str(op) == "AT" and str(av) in ("AT_BEGINNING", "AT_BEGINNING_LINE", "AT_END", "AT_END_LINE", "AT_BEGINNING_STRING", "AT_END_STRING"):
                        anchors.append(str(av))
                    if isinstance(av, (list, tuple)):
                        for x in av:
                            if hasattr(x, "data"):
                                walk_(x)
                            elif isinstance(x, (list, tuple)):
                                for y in x:
                                    if hasattr(y, "data"):
                                        walk_(y)
                    elif hasattr(av, "data"):
                        walk_(av)
            walk_(tree)
            multiline = any("MULTILINE" in norm(a) for a in list(c.args[1:]) + [k.value for k in c.keywords])
            is_header = "project" in pat.value
            ok = not anchors and not multiline or (is_header and anchors == [])
            ctx.ob("R15.8", f"{epd.qual}: pattern {pat.value[:50]!r}", (epd, c), ok,
                   "matches wherever the statement stands" if ok else
                   f"the pattern is anchored to a line boundary ({anchors or 'MULTILINE'}): writing the statement on the same line as the "
                   "preceding text (a whitespace-only change) hides it from the built-in macros",
                   key=key_of("R15.8", epd, None, "pattern " + pat.value[:40]))
    if n_pat < 2:
        raise AnchorMissing(f"_extract_project_dates: {n_pat} literal patterns found")
    # ---------------------------------------------------------------- R15.6 task identity
    from .common import local_id_identity_rule
    local_id_identity_rule(ctx, "R15.6", ("parser/tjp_parser.py", "parser/macro_processor.py", "core/project.py", "core/task_scenario.py", "core/task.py"),
                           "the same link spelled by absolute path and by relative reference then resolves differently")
    ctx.floor("R15.2", 2)
    ctx.floor("R15.4", 25)
