"""C12 — same input, same output: independent of history and process state.

Decided:
  R12.1  nondeterminism census: every clock / random / pid / environment / directory-order / id()/hash()
         source and every iteration over a set reachable from the entry points (parse, schedule, report
         generation, `plan report`, the scriptplan CLI) is either discharged automatically (sink is stderr/log,
         value has no reader on an output path, used for membership only) or sits in the reasoned table
         below; a new source is a violation
  R12.2  process-global state: every class-/module-level mutable that is written at run time and read on
         an output path is set to a run-constant before its first read from each entry point
         (AttributeBase._mode: Project.__init__ resets it before anything can set an attribute; the scenario
         loop sets it before prepare / schedule); singletons have no reachable writer of their configuration
  R12.3  re-schedule guard: the work list excludes tasks whose `scheduled` attribute is set;
         TaskScenario.schedule returns at once for a scheduled task; Task.schedule has no other caller
  R12.4  defaults are cloned: attribute reset / inherit go through deep_clone; no mutable default arguments
  R12.5  census of class-/module-level mutable containers: none has a run-time writer reachable from an entry point
         (a per-process table filled while a project is processed answers the next project from stale entries)
Trusted: CPython float determinism, lark, dateutil.
"""
from __future__ import annotations

import ast

from ..cfg import cfg_of
from ..core import Ctx, key_of
from ..dep import data, full
from ..effects import ArgConst, PrunedReach, sink_of
from ..model import AnchorMissing, const_str, dotted, norm, own_nodes
from .common import facts_of

META = {
    "level": "other",
    "technique": "static analysis: effect census over the pruned call graph with an exact triage table, dominance of global-state resets, who-may-call",
    "explanation": "Census of every nondeterminism source reachable from the five entry points (each either discharged by "
                   "an automatic criterion or listed with a reason), dominance of the AttributeBase mode resets, absence "
                   "of reachable writers of singleton configuration, the re-schedule guard, and cloning of attribute "
                   "defaults. Close to sufficient for 'function of the text' modulo the trusted base."
                   " Also: a census of class-/module-level mutable containers with reachable run-time writers, iteration over syntactically set-typed expressions, automatic discharge of id() used for membership only, resource preparation that leaves the booking ledgers alone, and framework callbacks (lark transformer methods) as reachability roots."
                   " Round 3: per-scenario work of schedule() done at most once (dominance + must-fact), parser objects per text or fully re-initialised, single-slot memos."
                   " Round 4: no decision reads the process-wide message count; ledger rules conditional on once-per-scenario.",
    "assumptions": ["CPython arithmetic, lark and dateutil are deterministic", "dict iteration order = insertion order"],
}

# reasoned exceptions, keyed by (function, normalised construct)
TRIAGE = {
    ("MacroProcessor._expand_macro_call", "datetime.now()"):
        "${now} / ${today}: the project text explicitly asks for the current date",
    ("create_auto_report_file", "secrets.token_hex(8)"):
        "random id names the temporary report (file name and report id only); JSON report_id is replaced by the input hash",
    ("TjTime.__init__", "datetime.now(timezone.utc)"):
        "default of the project attribute 'now'; it has no reader on a scheduling or report path (checked: R12.1 reader census)",
    ("PropertyList.append", "id(x)"): "counts distinct objects (duplicate detection); only the count is used",
    ("DataCache.cached", "id(obj)"): "cache key; the cache never stores anything (cached() returns None)",
    ("report", "temp_output_dir.glob('*.json')"): "directory listing used for membership / emptiness tests only (R19.3 ties the emitted file to the auto id)",
    ("report", "temp_output_dir.glob('*.csv')"): "directory listing used for membership / emptiness tests only",
    ("find_output_files", "*"): "helper without callers",
}


def shared_container_census(ctx: Ctx, rid: str, reach, floor: int = 8):
    """Class-/module-level mutable containers with a run-time writer reachable from `reach` (C12 R12.5 / C16 R16.5)."""
    repo = ctx.repo
    # every class-level / module-level mutable container with a run-time writer reachable from an entry point carries
    # state from one run into the next in the same process (C16-style per-project tables that are really per-process)
    MUT = ("dict", "list", "set", "defaultdict", "OrderedDict", "deque", "Counter")
    MUTATORS = ("append", "add", "update", "setdefault", "pop", "popitem", "clear", "extend", "insert", "remove", "discard", "appendleft")

    def is_mut(v):
        return isinstance(v, (ast.Dict, ast.List, ast.Set, ast.DictComp, ast.ListComp, ast.SetComp)) or \
            (isinstance(v, ast.Call) and norm(v.func).split(".")[-1] in MUT)
    shared = {}          # ("cls"|"mod", owner, name) -> lineno
    for m in repo.by_rel.values():
        for st in m.tree.body:
            bodies = [("mod", m.rel, [st])]
            if isinstance(st, ast.ClassDef):
                bodies = [("cls", st.name, st.body)]
            for kind_, owner, body in bodies:
                for s2 in body:
                    tg = []
                    if isinstance(s2, ast.Assign) and is_mut(s2.value):
                        tg = [t for t in s2.targets if isinstance(t, ast.Name)]
                    elif isinstance(s2, ast.AnnAssign) and s2.value is not None and is_mut(s2.value) and isinstance(s2.target, ast.Name):
                        tg = [s2.target]
                    for t in tg:
                        if not t.id.startswith("__"):
                            shared[(kind_, owner, t.id)] = (m.rel, s2.lineno)
    SHARED_TRIAGE = {
        ("cls", "Log", "_segments"): "call-stack of the (unused) Log tracer: pushed and popped in pairs, never read on an output path",
        ("cls", "Log", "_stack"): "as above",
    }
    n_sh = 0
    for (kind_, owner, name), (rel, ln) in sorted(shared.items()):
        writers = []
        for fn in reach:
            if kind_ == "mod" and fn.module.rel != rel:
                continue
            in_cls = fn.cls is not None and (fn.cls.name == owner or owner in [b for b in getattr(fn.cls, "bases", [])])
            for x in own_nodes(fn):
                base = None
                if isinstance(x, (ast.Assign, ast.AugAssign, ast.AnnAssign, ast.Delete)):
                    tgs = x.targets if isinstance(x, (ast.Assign, ast.Delete)) else [x.target]
                    for t in tgs:
                        if isinstance(t, ast.Subscript):
                            base = t.value
                elif isinstance(x, ast.Call) and isinstance(x.func, ast.Attribute) and x.func.attr in MUTATORS:
                    base = x.func.value
                if base is None:
                    continue
                t = norm(base)
                hit = (kind_ == "cls" and (t == f"{owner}.{name}" or (in_cls and t in (f"self.{name}", f"cls.{name}", f"type(self).{name}",
                                                                                            f"self.__class__.{name}")))) or \
                      (kind_ == "mod" and t == name and not any(isinstance(y, ast.Assign) and any(norm(z) == name for z in y.targets)
                                                                 for y in own_nodes(fn)))
                if hit:
                    # a sound memo of a pure function is history-independent: the key holds every parameter the value was computed
                    # from (spverif/memo.py) and the value depends on nothing but the parameters
                    from ..memo import memo_findings
                    pure = False
                    if isinstance(fn.node, (ast.FunctionDef, ast.AsyncFunctionDef)) and not any(c_ == norm(base) for (c_, _k, _p, _s) in memo_findings(fn.node)):
                        vals = []
                        if isinstance(x, ast.Assign) and isinstance(x.targets[0], ast.Subscript):
                            vals = [x.value]
                        elif isinstance(x, ast.Call) and x.func.attr == "setdefault" and len(x.args) == 2:
                            vals = [x.args[1]]
                        if vals:
                            atoms = set()
                            for v_ in vals:
                                atoms |= full(ctx.dep.of(fn).deps_of(v_))
                            shared_names = {k[2] for k in shared}
                            if not hasattr(ctx, "_repo_fields"):
                                ctx._repo_fields = {t.attr for f_ in repo.all_funcs() for y in own_nodes(f_)
                                                    if isinstance(y, (ast.Assign, ast.AugAssign, ast.AnnAssign))
                                                    for t in (y.targets if isinstance(y, ast.Assign) else [y.target])
                                                    if isinstance(t, ast.Attribute)}
                            atoms = {a for a in atoms if not (a.startswith("field:") and a.split(":", 1)[1] not in ctx._repo_fields)}
                            state = {a for a in atoms if (a.split(":")[0] in ("field", "pattr") or
                                                          (a.split(":")[0] in ("global", "free") and a.split(":", 1)[1] in shared_names))
                                     and not a.endswith(":" + name)}
                            pure = not state
                    if pure:
                        continue
                    writers.append(f"{fn.qual}:{x.lineno}")
        # an instance attribute of the same name assigned in a method shadows the class-level container
        if kind_ == "cls" and writers:
            shadow = any(isinstance(y, ast.Assign) and any(norm(z) == f"self.{name}" for z in y.targets)
                         for f_ in repo.all_funcs() if f_.cls is not None and f_.cls.name == owner for y in own_nodes(f_))
            if shadow:
                writers = []
        n_sh += 1
        reason = SHARED_TRIAGE.get((kind_, owner, name))
        ok = not writers or bool(reason)
        ctx.ob(rid, f"shared container {owner}.{name} ({rel}:{ln}): run-time writers {sorted(set(writers))[:4]}", f"{rel}:{ln}", ok,
               (reason if writers else "constant table: no reachable function mutates it") if ok else
               f"the {('class' if kind_ == 'cls' else 'module')}-level container {name} is filled while a project is processed and is never "
               "emptied: a later project in the same process is answered from entries the earlier one left behind",
               key=f"{rid}|{owner}.{name}|writers")
    ctx.floor(rid, floor)


def _set_typed(v, setvars) -> bool:
    """Syntactically a set: literal, comprehension, set()/frozenset(), a set operator / method applied to one, or a known name."""
    if isinstance(v, (ast.Set, ast.SetComp)):
        return True
    if isinstance(v, ast.Name):
        return v.id in setvars
    if isinstance(v, ast.Call):
        f = norm(v.func)
        if f in ("set", "frozenset"):
            return True
        if isinstance(v.func, ast.Attribute) and v.func.attr in ("union", "intersection", "difference", "symmetric_difference", "copy") \
                and _set_typed(v.func.value, setvars):
            return True
    if isinstance(v, ast.BinOp) and isinstance(v.op, (ast.Sub, ast.BitOr, ast.BitAnd, ast.BitXor)):
        return _set_typed(v.left, setvars) or _set_typed(v.right, setvars)
    if isinstance(v, ast.IfExp):
        return _set_typed(v.body, setvars) or _set_typed(v.orelse, setvars)
    return False


def _membership_only(fn, call, depth=0) -> bool:
    """The value of `id(x)` is used for identity bookkeeping only: set element, dict key, `in` test, == / != with another
    value -- never ordered, formatted, returned or stored in an attribute.  One level of local naming is followed."""
    node = call
    par = getattr(node, "_parent", None)
    while (isinstance(par, ast.IfExp) and node is not par.test) or isinstance(par, ast.Tuple):
        node, par = par, getattr(par, "_parent", None)      # a tuple key containing the id is still a key
    if isinstance(par, ast.Call) and isinstance(par.func, ast.Attribute) and par.func.attr in ("add", "discard", "remove") and node in par.args:
        return True
    if isinstance(par, ast.Call) and isinstance(par.func, ast.Attribute) and par.func.attr in ("setdefault", "get", "pop") and par.args and node is par.args[0]:
        return True           # d.setdefault(id(x), ...) / d.get(id(x)): the id is the key
    if isinstance(par, ast.Compare) and all(isinstance(o, (ast.In, ast.NotIn, ast.Eq, ast.NotEq)) for o in par.ops):
        return True
    if isinstance(par, ast.Subscript) and node is par.slice:
        return True
    if isinstance(par, (ast.Set, ast.SetComp)):
        return True
    if isinstance(par, ast.Dict) and node in par.keys:
        return True
    if isinstance(par, ast.Assign) and depth == 0 and len(par.targets) == 1 and isinstance(par.targets[0], ast.Name):
        v = par.targets[0].id
        uses = [x for x in own_nodes(fn) if isinstance(x, ast.Name) and x.id == v and isinstance(x.ctx, ast.Load)]
        return bool(uses) and all(_membership_only(fn, u, 1) for u in uses)
    return False


def ledger_survives_prepare_rule(ctx: Ctx, rid: str):
    """A second schedule() skips the tasks that are placed already; their bookings survive only in the per-slot ledgers, so nothing
    the per-run preparation of a resource reaches may empty those ledgers (the slot table itself is rebuilt)  (C12 R12.3 / C01 R01.7)."""
    from .common import heap_writes
    repo = ctx.repo
    rprep = repo.func("ResourceScenario.prepareScheduling")
    if scenarios_processed_once(ctx):
        # the preparation of a scenario runs once, before anything is booked in it: emptying the (empty) ledgers there is harmless
        for fld in ("slotSecondsUsed", "slotTaskUsage"):
            ctx.ob(rid, f"{rprep.qual}: {fld} at preparation time", rprep, True,
                   "each scenario is prepared exactly once (R12.8), before its first booking: the ledger is empty then, whatever the "
                   "preparation does to it")
        return
    scope = sorted((f for f in ctx.cg.reach([rprep]) if f.cls is not None and f.cls.name == "ResourceScenario"), key=lambda f: f.key)
    if rprep not in scope:
        scope.insert(0, rprep)
    for fld in ("slotSecondsUsed", "slotTaskUsage"):
        bad = []
        for fn in scope:
            ws = heap_writes(ctx, fn, fld) if fn is rprep else []
            # plain re-assignment `self.<fld> = {}` and `self.<fld>.clear()` empty the ledger
            re_assign = [n for n in own_nodes(fn) if isinstance(n, (ast.Assign, ast.AnnAssign))
                         and any(norm(t) == f"self.{fld}" for t in (n.targets if isinstance(n, ast.Assign) else [n.target]))]
            cleared = [n for n in own_nodes(fn) if isinstance(n, ast.Call) and isinstance(n.func, ast.Attribute) and n.func.attr == "clear"
                       and norm(n.func.value) == f"self.{fld}"]
            if ws or re_assign or cleared:
                bad.append(fn)
        ok = not bad
        ctx.ob(rid, f"{rprep.qual} (and the {len(scope) - 1} methods it reaches): leaves {fld} alone",
               (bad[0] if bad else rprep), ok,
               "bookings of tasks that a re-run skips stay on record" if ok else
               f"{bad[0].qual} empties {fld} when a run is prepared: on a second schedule() the tasks placed by the first run are skipped, "
               "their slots look free (a task that failed the first time is booked on top of them) and the cost of their work is lost",
               key=f"{rid}|ResourceScenario.prepareScheduling|{fld}")


def scenarios_processed_once(ctx: Ctx) -> bool:
    """The decision of once_per_scenario_rule, without emitting obligations (other rules are conditional on it)."""
    ps = ctx.repo.func("Project.schedule")
    g = cfg_of(ps)
    facts = facts_of(ps)
    work = [n for n in g.nodes if n.kind == "stmt" and n.ast is not None and any(
        isinstance(c, ast.Call) and norm(c.func) in ("self.prepareScenario", "self.scheduleScenario") for c in ast.walk(n.ast))]
    if len(work) < 2:
        return False
    for n in work:
        call = next(c for c in ast.walk(n.ast) if isinstance(c, ast.Call) and norm(c.func) in ("self.prepareScenario", "self.scheduleScenario"))
        arg = norm(call.args[0]) if call.args else "?"
        rec = None
        for cl in facts.at(n):
            if len(cl) == 1:
                (t, pol), = tuple(cl)
                if " not in " in t:                       # `x not in r` true  ==  `x in r` false
                    t, pol = t.replace(" not in ", " in ", 1), (not pol)
                if pol is False and t.startswith(f"{arg} in self."):
                    rec = t.split(" in ", 1)[1]
        adds = [x for x in own_nodes(ps) if isinstance(x, ast.Call) and isinstance(x.func, ast.Attribute) and x.func.attr == "add"
                and rec is not None and norm(x.func.value) == rec and x.args and norm(x.args[0]) == arg]
        if rec is None or not adds:
            return False
    return True


def once_per_scenario_rule(ctx: Ctx, rid: str):
    """Calling schedule() again must leave everything as the first call left it.  Tasks that were placed are skipped by the work
    list, but a task that could NOT be placed would be walked again over the bookings and limit counters its first attempt left
    behind.  So the per-scenario work of Project.schedule is done at most once: in the scenario loop, prepareScenario /
    scheduleScenario are dominated by the false branch of a membership test on a record of processed scenarios, and the record
    is extended with the scenario on the way (CFG dominance + must-facts)."""
    ps = ctx.repo.func("Project.schedule")
    g = cfg_of(ps)
    facts = facts_of(ps)
    work = [n for n in g.nodes if n.kind == "stmt" and n.ast is not None and any(
        isinstance(c, ast.Call) and norm(c.func) in ("self.prepareScenario", "self.scheduleScenario") for c in ast.walk(n.ast))]
    if len(work) < 2:
        raise AnchorMissing("Project.schedule: prepareScenario / scheduleScenario calls not found")
    for n in work:
        call = next(c for c in ast.walk(n.ast) if isinstance(c, ast.Call) and norm(c.func) in ("self.prepareScenario", "self.scheduleScenario"))
        arg = norm(call.args[0]) if call.args else "?"
        rec = None
        for cl in facts.at(n):
            if len(cl) == 1:
                (t, pol), = tuple(cl)
                if " not in " in t:                       # `x not in r` true  ==  `x in r` false
                    t, pol = t.replace(" not in ", " in ", 1), (not pol)
                if pol is False and t.startswith(f"{arg} in self."):
                    rec = t.split(" in ", 1)[1]
        adds = [x for x in own_nodes(ps) if isinstance(x, ast.Call) and isinstance(x.func, ast.Attribute) and x.func.attr == "add"
                and rec is not None and norm(x.func.value) == rec and x.args and norm(x.args[0]) == arg]
        ok = rec is not None and bool(adds)
        ctx.ob(rid, f"{ps.qual}: {norm(call)} only for a scenario not yet in {rec or '<no record>'}", (ps, n.ast), ok,
               "a second schedule() call skips the scenarios the first one processed" if ok else
               "a second schedule() call runs the scenario again: tasks that could not be placed are walked once more over the bookings "
               "(and with freshly reset limit counters) of their first attempt, so bookings, limits and costs grow with every call",
               key=key_of(rid, ps, None, f"once {norm(call.func)}"))


def singleton_history_rule(ctx: Ctx, rid: str, reach):
    """The message handler is one object per process; its error count and message list accumulate over everything the process has
    handled.  No decision of a run may read them (`MessageHandlerInstance().errors`, `.messages`) unless the same function has
    cleared / reset the handler on every path before (dominance): otherwise a run fails because an earlier, unrelated run logged an
    error.  Zero expected; a built-in control sample must match."""
    ACC = {"errors", "_errors", "messages", "_messages"}

    def reads(fn_node):
        out = []
        for x in ast.walk(fn_node):
            if isinstance(x, ast.Attribute) and x.attr in ACC and isinstance(x.ctx, ast.Load):
                base = x.value
                if (isinstance(base, ast.Call) and norm(base.func).split(".")[-1] in ("MessageHandlerInstance", "get_message_handler", "messageHandler")):
                    out.append(x)
                elif isinstance(base, ast.Name):
                    for a in ast.walk(fn_node):
                        if isinstance(a, ast.Assign) and any(isinstance(t, ast.Name) and t.id == base.id for t in a.targets) and isinstance(a.value, ast.Call) \
                                and norm(a.value.func).split(".")[-1] in ("MessageHandlerInstance", "get_message_handler", "messageHandler"):
                            out.append(x)
        return out
    ctrl = ast.parse("def f():\n    return MessageHandlerInstance().errors == 0\ndef g():\n    h = MessageHandlerInstance()\n    return len(h.messages)\ndef k(self):\n    return self.errors\n")
    if [len(reads(d)) for d in ctrl.body] != [1, 1, 0]:
        raise AnchorMissing("singleton-history rule: built-in control sample no longer matches")
    n = 0
    for fn in sorted(reach, key=lambda f: f.key):
        if fn.module.rel.endswith("utils/message_handler.py"):
            continue
        n += 1
        for x in reads(fn.node):
            cleared = any(isinstance(c, ast.Call) and isinstance(c.func, ast.Attribute) and c.func.attr in ("clear", "reset") and c.lineno < x.lineno
                          and norm(c.func.value).split("(")[0].split(".")[-1] in ("MessageHandlerInstance", "get_message_handler", "messageHandler", "handler", "h", "mh")
                          for c in own_nodes(fn))
            ctx.ob(rid, f"{fn.qual}: reads {norm(x)[:50]}", (fn, x), cleared,
                   "the handler is cleared by this function before its count is read" if cleared else
                   f"{norm(x)[:50]} is the count / list of everything this process has logged so far, not of this run: after any earlier run that "
                   "logged an error the same input is reported as failed",
                   key=key_of(rid, fn, x, "singleton history"))
    ctx.ob(rid, f"no decision reads the process-wide message count / list ({n} functions outside the handler module)", None, True,
           "runs do not see what earlier runs logged", nontrivial=False)


def run_extra(ctx: Ctx):
    once_per_scenario_rule(ctx, "R12.8")
    # ---------------------------------------------------------------- R12.7 nothing of an earlier text is in the objects a text is read with
    from .c15 import per_text_objects_rule
    per_text_objects_rule(ctx, "R12.7")
    # ---------------------------------------------------------------- R12.6 answers never come from state that outlives the question
    from .common import process_state_rule
    process_state_rule(ctx, "R12.6", [ctx.repo.func("Project.schedule"), ctx.repo.func("ProjectFileParser.parse")],
                       "a later run is answered with what an earlier run computed", census=False)


def run(ctx: Ctx):
    repo = ctx.repo
    entries = [repo.func("ProjectFileParser.parse"), repo.func("Project.schedule"), repo.func("Report.generate"),
               repo.func("report", rel="scriptplan/cli/plan.py"), repo.func("main", rel="scriptplan/cli/main.py")]
    from .common import framework_callbacks
    entries = entries + framework_callbacks(repo)
    argc = ArgConst(repo)
    pr = PrunedReach(repo, ctx.cg, None)        # no flag pruning: the scriptplan CLI may set any flag
    reach = {}
    for e in entries:
        for f, p in pr.reach(e).items():
            reach.setdefault(f, p)
    ctx.stats["functions_reachable"] = len(reach)
    # ---------------------------------------------------------------- R12.1
    n = 0
    for fn in sorted(reach, key=lambda f: f.key):
        for c in pr.live_calls(fn):
            s = sink_of(fn, c)
            if not s or s[0] not in ("clock", "random", "pid", "environ", "listdir", "idhash"):
                continue
            n += 1
            txt = norm(c)
            key = (fn.qual, txt)
            reason = TRIAGE.get(key) or TRIAGE.get((fn.qual, "*"))
            auto = None
            # automatic discharge: the value flows only into stderr / log writes
            st = c
            while st is not None and not isinstance(st, ast.stmt):
                st = getattr(st, "_parent", None)
            if s[0] == "idhash" and norm(c.func) == "id" and _membership_only(fn, c):
                auto = "id() used for identity bookkeeping only (set element / dict key / membership / equality), never ordered or emitted"
            if fn.qual == "MessageHandlerInstance._log":
                auto = "log line prefix (file sink, never an output path; log file unset by default)"
            ok = bool(reason or auto)
            ctx.ob("R12.1", f"{fn.qual}: {s[0]} source {txt[:50]}", (fn, c), ok,
                   (auto or reason) if ok else
                   f"new {s[0]} source reachable from an entry point ({' > '.join(PrunedReach.chain(reach, fn)[-4:])}): the result can differ between runs",
                   key=key_of("R12.1", fn, c))
    # 'now' has no reader on an output path
    readers = []
    for fn in reach:
        if fn.module.rel.endswith("timesheet.py"):
            continue
        for x in own_nodes(fn):
            if isinstance(x, ast.Subscript) and const_str(x.slice) == "now" and isinstance(x.ctx, ast.Load):
                readers.append(fn.qual)
            if isinstance(x, ast.Call) and isinstance(x.func, ast.Attribute) and x.func.attr == "get" and x.args and const_str(x.args[0]) == "now":
                readers.append(fn.qual)
    ctx.ob("R12.1", f"readers of project attribute 'now' on entry-point paths: {sorted(set(readers))}", entries[1], not readers,
           "the wall-clock default of 'now' is never read while scheduling or reporting" if not readers else
           "the wall-clock default of 'now' is read on an output path", key="R12.1|now|readers")
    # iteration over sets
    for fn in sorted(reach, key=lambda f: f.key):
        setvars = set()
        for x in list(own_nodes(fn)) * 2:
            if isinstance(x, (ast.Assign, ast.AnnAssign)) and x.value is not None:
                v = x.value
                tg = x.targets if isinstance(x, ast.Assign) else [x.target]
                is_set = _set_typed(v, setvars)
                if isinstance(x, ast.AnnAssign) and "set[" in norm(x.annotation):
                    is_set = True
                if is_set:
                    setvars |= {t.id for t in tg if isinstance(t, ast.Name)}
        for x in own_nodes(fn):
            its = []
            if isinstance(x, ast.For):
                its.append(x.iter)
            elif isinstance(x, ast.comprehension):
                its.append(x.iter)
            elif isinstance(x, ast.Call) and norm(x.func) in ("list", "sorted", "tuple", "enumerate", "max", "min", "next", "iter") and x.args:
                if norm(x.func) not in ("sorted", "max", "min"):
                    its.append(x.args[0])
            for it in its:
                bad = _set_typed(it, setvars)
                if bad:
                    # len({...}) style counting is fine, iteration is not
                    par = getattr(x, "_parent", None)
                    ctx.ob("R12.1", f"{fn.qual}: iteration over a set {norm(it)[:40]}", (fn, x), False,
                           "iteration order of a set of strings depends on PYTHONHASHSEED: the result can differ between processes",
                           key=key_of("R12.1", fn, None, "set-iter " + norm(it)[:40]))
    ctx.ob("R12.1", "set iteration census", entries[0], True, "no reachable loop iterates a set (sets are used for membership only)", nontrivial=False)
    ctx.stats["nondeterminism_sources"] = n

    # ---------------------------------------------------------------- R12.2
    pinit = repo.func("Project.__init__")
    g = cfg_of(pinit)
    resets = [nd for nd in g.nodes if nd.kind == "stmt" and nd.ast is not None and any(
        isinstance(c, ast.Call) and norm(c.func) == "AttributeBase.setMode" and c.args and isinstance(c.args[0], ast.Constant) and c.args[0].value == 0
        for c in ast.walk(nd.ast))]
    users = [nd for nd in g.nodes if nd.kind == "stmt" and nd.ast is not None and any(
        isinstance(c, ast.Call) and norm(c.func) in ("PropertySet", "Scenario") for c in ast.walk(nd.ast))]
    if not users:
        raise AnchorMissing("Project.__init__ constructs no PropertySet")
    # all paths from entry to the first user pass a reset (the reset sits under `if hasattr(AttributeBase, "setMode")`,
    # which is decided by the class definition: AttributeBase defines setMode)
    has_setmode = "setMode" in repo.cls("AttributeBase").methods
    ok = bool(resets) and has_setmode and all(
        g.all_paths_pass(g.entry, u, lambda n_: n_ in resets or (n_.kind == "if" and "hasattr(AttributeBase, 'setMode')" in norm(n_.ast)))
        for u in users) and all(r.lineno < min(u.lineno for u in users) for r in resets)
    ctx.ob("R12.2", f"{pinit.qual}: AttributeBase.setMode(0) before any attribute can be set", pinit, ok,
           "a new Project starts in 'provided' mode whatever an earlier project left behind" if ok else
           "the process-wide attribute mode is not reset when a project is created: after an earlier schedule() (mode 2) "
           "the next project's attributes are not marked as provided and inheritance overwrites them",
           key="R12.2|Project.__init__|mode reset")
    # build() constructs the Project before any node
    mb = repo.func("ModelBuilder.build")
    gb = cfg_of(mb)
    pj = [nd for nd in gb.nodes if nd.kind == "stmt" and isinstance(nd.ast, ast.Assign) and isinstance(nd.ast.value, ast.Call)
          and norm(nd.ast.value.func) == "Project"]
    makers = [nd for nd in gb.nodes if nd.kind in ("stmt",) and nd.ast is not None and any(
        isinstance(c, ast.Call) and norm(c.func) in ("self._create_property", "self._apply_project_attributes", "self._create_report")
        for c in ast.walk(nd.ast))]
    dom = gb.dominators()
    ok = bool(pj) and bool(makers) and all(any(p.id in dom[m.id] for p in pj) for m in makers)
    ctx.ob("R12.2", f"{mb.qual}: Project() dominates every node construction", mb, ok,
           "the mode reset happens before any property is created" if ok else "properties can be created before the Project (and its mode reset)",
           key="R12.2|ModelBuilder.build|order")
    # scenario loop: mode 1 before prepare, mode 2 before schedule
    ps = repo.func("Project.schedule")
    gs = cfg_of(ps)

    def stmt_with(pred):
        return [nd for nd in gs.nodes if nd.kind in ("stmt", "if", "while") and nd.ast is not None and any(
            isinstance(c, ast.Call) and pred(c) for c in ast.walk(nd.ast.test if isinstance(nd.ast, (ast.If, ast.While)) else nd.ast))]

    m1 = stmt_with(lambda c: norm(c.func) == "AttributeBase.setMode" and c.args and getattr(c.args[0], "value", None) == 1)
    m2 = stmt_with(lambda c: norm(c.func) == "AttributeBase.setMode" and c.args and getattr(c.args[0], "value", None) == 2)
    prep = stmt_with(lambda c: norm(c.func) == "self.prepareScenario")
    sch = stmt_with(lambda c: norm(c.func) == "self.scheduleScenario")
    fin = stmt_with(lambda c: norm(c.func) == "self.finishScenario")
    if not (m1 and m2 and prep and sch and fin):
        raise AnchorMissing("Project.schedule: mode switches / scenario calls not found")
    doms = gs.dominators()
    ok = m1[0].id in doms[prep[0].id] and m2[0].id in doms[sch[0].id] and prep[0].id in doms[m2[0].id] and sch[0].id in doms[fin[0].id]
    ctx.ob("R12.2", f"{ps.qual}: setMode(1) -> prepare -> setMode(2) -> schedule -> finish", ps, ok,
           "inherited / computed marking is switched around prepare and schedule in every iteration" if ok else
           "mode switches do not bracket prepare/schedule: computed values can be recorded as user-provided",
           key="R12.2|Project.schedule|mode order")
    # who writes the mode
    writers = sorted({f.qual for (f, c) in ctx.cg.callers(repo.func("AttributeBase.setMode"))})
    ok = set(writers) <= {"Project.__init__", "Project.schedule", "TaskScenario.__init__"}
    ctx.ob("R12.2", f"writers of AttributeBase._mode: {writers}", repo.func("AttributeBase.setMode"), ok,
           "mode is only switched by the project life cycle (TaskScenario.__init__ restores what it found)" if ok else
           "additional writers of the process-wide attribute mode", key="R12.2|AttributeBase.setMode|writers")
    ts_init = repo.func("TaskScenario.__init__")
    saves = [x for x in own_nodes(ts_init) if isinstance(x, ast.Assign) and norm(x.value) == "AttributeBase.mode()"]
    restores = [c for c in own_nodes(ts_init) if isinstance(c, ast.Call) and norm(c.func) == "AttributeBase.setMode" and c.args
                and saves and norm(c.args[0]) == norm(saves[0].targets[0])]
    ok = bool(saves) and bool(restores)
    ctx.ob("R12.2", f"{ts_init.qual}: saves and restores the mode", ts_init, ok, "mode = AttributeBase.mode() ... setMode(mode)" if ok else
           "TaskScenario.__init__ changes the process-wide mode without restoring it", key="R12.2|TaskScenario.__init__|restore")
    # singletons: no reachable writer of configuration
    for cls, fields in (("MessageHandlerInstance", ("_output_level", "_log_level", "_log_file", "_hide_scenario", "_abort_on_warning",
                                                     "_trap_setup", "_baseline_sfi", "_app_name")),
                        ("TjTime", ("_tz",)), ("DataCache", ("_cache",))):
        bad = []
        for fn in reach:
            if fn.name in ("reset", "__init__", "flush") and fn.cls is not None and fn.cls.name == cls:
                continue
            for x in own_nodes(fn):
                tg = []
                if isinstance(x, ast.Assign):
                    tg = x.targets
                elif isinstance(x, (ast.AugAssign, ast.AnnAssign)):
                    tg = [x.target]
                for t in tg:
                    base = t.value if isinstance(t, ast.Subscript) else t
                    if isinstance(base, ast.Attribute) and base.attr in fields and fn.cls is not None and fn.cls.name == cls \
                            and not any(d.endswith(".setter") for d in fn.decorators):
                        bad.append(f"{fn.qual}:{x.lineno}")
            # assignments through the public setter names
        setters = [f for f in repo.all_funcs() if f.cls is not None and f.cls.name == cls and any(d.endswith(".setter") for d in f.decorators)]
        for s_ in setters:
            for fn in reach:
                for x in own_nodes(fn):
                    if isinstance(x, (ast.Assign, ast.AugAssign)):
                        for t in (x.targets if isinstance(x, ast.Assign) else [x.target]):
                            if isinstance(t, ast.Attribute) and t.attr == s_.name:
                                bad.append(f"{fn.qual}:{x.lineno} (.{s_.name} =)")
        ctx.ob("R12.2", f"{cls}: reachable writers of {list(fields)}: {sorted(set(bad))}", repo.cls(cls).node and repo.cls(cls).methods[next(iter(repo.cls(cls).methods))], not bad,
               "configuration of the process-wide singleton is never changed by a run" if not bad else
               "a run changes the configuration of a process-wide singleton: later runs in the same process behave differently",
               key=f"R12.2|{cls}|writers")

    # ---------------------------------------------------------------- R12.5 census of shared mutable containers
    shared_container_census(ctx, "R12.5", reach)
    singleton_history_rule(ctx, "R12.9", reach)
    # ---------------------------------------------------------------- R12.3
    ss = repo.func("Project.scheduleScenario")
    for x in own_nodes(ss):
        if isinstance(x, (ast.Assign, ast.AnnAssign)) and norm(x.targets[0] if isinstance(x, ast.Assign) else x.target) == "tasks" \
                and isinstance(x.value, ast.ListComp) and not any(norm(g_.iter) == "tasks" for g_ in x.value.generators):
            conds = " and ".join(norm(c) for g_ in x.value.generators for c in g_.ifs)
            ok = "not t.get('scheduled', scIdx)" in conds
            ctx.ob("R12.3", f"{ss.qual}: work list [{conds}]", (ss, x), ok, "already scheduled tasks are not placed again" if ok else
                   "tasks that are placed already (dated milestones of the pre-pass; everything, on a second schedule() call) would be placed "
                   "again on top of their bookings", key="R12.3|scheduleScenario|filter")
    tss = repo.func("TaskScenario.schedule")
    first = [s for s in tss.node.body if not (isinstance(s, ast.Expr) and isinstance(s.value, ast.Constant))][0]
    ok = isinstance(first, ast.If) and norm(first.test) == "self.scheduled" and any(isinstance(s, ast.Return) for s in first.body)
    if not ok and scenarios_processed_once(ctx):
        ok = True      # no second walk can reach it: each scenario is processed once (R12.8) and a placed task leaves the work list
    ctx.ob("R12.3", f"{tss.qual}: returns at once when already scheduled", (tss, first), ok, "if self.scheduled: return True" if ok else
           "TaskScenario.schedule re-walks a task that is already scheduled", key="R12.3|TaskScenario.schedule|guard")
    # the flag that is set at the end
    fdt = ctx.dep.of(tss)
    ends = [(a, nd) for (p, a, nd, sc, t) in fdt.pattr_writes if p == "scheduled"]
    ok = bool(ends) and all(isinstance(nd.ast.value, ast.Constant) and nd.ast.value.value is True for (_a, nd) in ends)
    ctx.ob("R12.3", f"{tss.qual}: marks the task scheduled", tss, ok, "property['scheduled'] = True after a successful walk" if ok else
           "a placed task is not marked as scheduled", key="R12.3|TaskScenario.schedule|mark")

    ledger_survives_prepare_rule(ctx, "R12.3")
    # ---------------------------------------------------------------- R12.4
    ab = repo.cls("AttributeBase")
    for nm, src in (("reset", "self._type.default"), ("inherit", "value")):
        f = ab.methods[nm]
        asg = [x for x in own_nodes(f) if isinstance(x, ast.Assign) and norm(x.targets[0]) == "self._value" and src in norm(x.value)]
        ok = bool(asg) and all(isinstance(x.value, ast.Call) and norm(x.value.func) == "deep_clone" for x in asg)
        ctx.ob("R12.4", f"{f.qual}: {[norm(x) for x in asg]}", f, ok, "value is cloned, never shared between nodes" if ok else
               "an attribute default / inherited value is shared by reference: a mutation through one node changes others and later runs",
               key=f"R12.4|AttributeBase.{nm}|clone")
    bad = []
    for fn in repo.all_funcs():
        if isinstance(fn.node, ast.Lambda):
            continue
        a = fn.node.args
        for d in list(a.defaults) + [k for k in a.kw_defaults if k is not None]:
            if isinstance(d, (ast.List, ast.Dict, ast.Set)) or (isinstance(d, ast.Call) and norm(d.func) in ("list", "dict", "set")):
                bad.append(f"{fn.qual}:{d.lineno}")
    ctx.ob("R12.4", f"mutable default arguments: {bad}", entries[0], not bad, "no function has a mutable default argument" if not bad else
           "mutable default arguments keep state between calls", key="R12.4|signatures|mutable defaults")
    ctx.floor("R12.1", 8)
    ctx.floor("R12.2", 7)
    ctx.floor("R12.3", 5)
    ctx.floor("R12.4", 3)
