"""C09 — lower-priority work never disturbs higher-priority work (thin structural clauses).

Decided:
  R09.1  scheduling order is antitone in priority with declaration order as tie-break, and the scan
         restarts after each placement (shared with C07): a task of strictly lowest priority on which nothing
         depends is placed after every other task that is ready at the same time
  R09.2  no all-task aggregate feeds a placement except through dependency edges: every loop over
         project.tasks in placement code selects tasks by identity of an edge's predecessor with this task
  R09.3  the horizon extension (the only project-wide aggregate) can only move the project end later
  R09.4  attribute inheritance (priority) is transitive: values the parent inherited are passed on like provided ones
  R09.5  every priority of the valid range 1..1000 is stored by the parser (boundary values included)
  R09.6  no task identity through the local id in scheduling code (shared rule)
Not decided: the two-run non-interference relation itself.
"""
from __future__ import annotations

import ast

from ..core import Ctx, key_of
from ..model import AnchorMissing, const_str, norm, own_nodes
from ..order import local_resolver, order_table
from ..cfg import cfg_of
from .c07 import scan_rules, sort_rules
from .common import facts_of

META = {
    "level": "other",
    "technique": "static analysis: sort-key monotonicity, scan-restart reachability, census of all-task loops in placement code, order table of the horizon update",
    "explanation": "Necessary structural conditions of priority non-interference: order antitone in priority, restart of "
                   "the scan, all-task loops in placement code select by dependency-edge identity only, horizon extension "
                   "is raise-only. The relation between two runs is NOT decided."
                   " Also: truth table of the inheritance guard (provided or inherited), evaluation of any priority range guard at 1 / 500 / 1000, the default deadline of backward tasks being the declared project end, and the local-id identity census."
                   " Round 3: the scheduling horizon is never written as a task date (value closure through names and parameters), inheritance guard read as a formula whichever accessor spells it, limit-copy completeness, process-state rule."
                   " Round 4: inheritance guard evaluated over the must-facts at the call (early exits count), priority range probes. Round 8: nothing that varies with the task is compared before the priority in the sort key.",
    "assumptions": [],
}


def horizon_not_a_date_rule(ctx: Ctx, rid: str):
    """The scheduling horizon (project 'end' once _extendProjectEndIfNeeded has moved it with the total effort) bounds the slot
    walk but is never written into a task's start / end: a task added elsewhere would move that date.  Syntactic value closure
    over the Project methods under Project.schedule, through local names and through parameters to their call sites."""
    repo = ctx.repo
    sched = repo.func("Project.schedule")
    scope = [f for f in ctx.cg.reach([sched]) if f.cls is not None and f.cls.name == "Project"]
    by_node = {f.node: f for f in repo.all_funcs()}

    def is_horizon(e) -> bool:
        t = norm(e).replace('"', "'")
        return t in ("self['end']", "self.attributes['end']", "self.attributes.get('end')", "self.project['end']",
                     "self.project.attributes['end']", "self.project.attributes.get('end')")

    def closure(fn, e, seen, depth=0):
        """horizon reads the value of e may carry (data only)"""
        out = []
        if depth > 6:
            return out
        res = local_resolver(fn.node)
        for x in ast.walk(e):
            if is_horizon(x):
                out.append((fn, x))
            elif isinstance(x, ast.Name) and isinstance(x.ctx, ast.Load) and (fn.key, x.id) not in seen:
                seen.add((fn.key, x.id))
                for v in res(x) or []:
                    out += closure(fn, v, seen, depth + 1)
                if x.id in fn.params:
                    idx = fn.params.index(x.id)
                    for caller in scope + [fn]:
                        for c in own_nodes(caller):
                            if isinstance(c, ast.Call) and ((isinstance(c.func, ast.Name) and c.func.id == fn.name) or
                                                            (isinstance(c.func, ast.Attribute) and c.func.attr == fn.name and norm(c.func.value) == "self")):
                                off = 1 if (fn.params and fn.params[0] == "self") else 0
                                k = idx - off if isinstance(c.func, ast.Attribute) else idx
                                args = list(c.args)
                                if 0 <= k < len(args):
                                    out += closure(caller, args[k], seen, depth + 1)
                                for kw in c.keywords:
                                    if kw.arg == x.id:
                                        out += closure(caller, kw.value, seen, depth + 1)
        return out
    n = 0
    for fn in sorted(scope, key=lambda f: f.key):
        for w in own_nodes(fn):
            if not (isinstance(w, ast.Assign) and len(w.targets) == 1 and isinstance(w.targets[0], ast.Subscript)):
                continue
            sl = w.targets[0].slice
            if not (isinstance(sl, ast.Tuple) and sl.elts and const_str(sl.elts[0]) in ("start", "end")):
                continue
            if norm(w.targets[0].value) in ("self", "self.attributes"):
                continue
            n += 1
            hits = closure(fn, w.value, set())
            ok = not hits
            ctx.ob(rid, f"{fn.qual}: {norm(w)[:70]}", (fn, w), ok,
                   "the date written comes from the task tree, not from the scheduling horizon" if ok else
                   f"the date written can be {norm(hits[0][1])} (read in {hits[0][0].qual}): at that point the project end is the horizon that "
                   "_extendProjectEndIfNeeded moves with the total effort, so adding a task elsewhere moves this task",
                   key=key_of(rid, fn, w.targets[0], "horizon"))
    if n < 4:
        raise AnchorMissing(f"{n} writes of task start/end found in Project methods under schedule()")


def run_extra(ctx: Ctx):
    # ---------------------------------------------------------------- R09.9 limit counters of one scenario must not be those of another: what the added task books in one scenario would block existing tasks in the next (= C05 R05.7)
    from .c05 import limit_copy_rule
    limit_copy_rule(ctx, "R09.9")
    # ---------------------------------------------------------------- R09.7 answers never come from state that outlives the question
    from .common import process_state_rule
    process_state_rule(ctx, "R09.7", [ctx.repo.func("Project.schedule"), ctx.repo.func("ProjectFileParser.parse")],
                       "what an added task leaves behind in the kept state changes the answers given to the existing tasks")


def run(ctx: Ctx):
    repo = ctx.repo
    sort_rules(ctx, "R09.1")
    scan_rules(ctx, "R09.1")
    # ---------------------------------------------------------------- R09.2
    n = 0
    for fn in sorted(repo.all_funcs(), key=lambda f: f.key):
        if fn.cls is None or fn.cls.name != "TaskScenario":
            continue
        for l in own_nodes(fn):
            if isinstance(l, ast.For) and norm(l.iter) == "self.project.tasks":
                n += 1
                from .common import edge_selects_me
                ident = [c for c in ast.walk(l) if edge_selects_me(ctx, fn, c)]
                appends = [c for c in ast.walk(l) if isinstance(c, ast.Call) and isinstance(c.func, ast.Attribute) and c.func.attr == "append"]
                guarded = all(any(any(x is a for x in ast.walk(i)) for i in ast.walk(l) if isinstance(i, ast.If)
                                  and any(cmp_ in list(ast.walk(i.test)) for cmp_ in ident)) for a in appends)
                ok = bool(ident) and guarded
                ctx.ob("R09.2", f"{fn.qual}: loop over all tasks selects by edge identity", (fn, l), ok,
                       "other tasks matter only when one of their edges points at this task" if ok else
                       "an all-task loop in placement code lets unrelated tasks influence this task's placement",
                       key=key_of("R09.2", fn, None, "all-task loop"))
    if n < 2:
        raise AnchorMissing(f"all-task loops in TaskScenario: {n}")
    # ---------------------------------------------------------------- R09.3
    ext = repo.func("Project._extendProjectEndIfNeeded")
    ups = [i for i in own_nodes(ext) if isinstance(i, ast.If) and any(isinstance(s, ast.Assign) and "attributes['end']" in norm(s.targets[0])
                                                                    for s in i.body)]
    if not ups:
        raise AnchorMissing("_extendProjectEndIfNeeded: end update not found")
    for i in ups:
        asg = next(s for s in i.body if isinstance(s, ast.Assign))
        tab = order_table(i.test, lambda e: norm(e) == norm(asg.value), lambda e: "attributes['end']" in norm(e))
        ok = tab["<"] is False and tab["="] is False and tab[">"] is True
        ctx.ob("R09.3", f"{ext.qual}: {norm(i.test)}", (ext, i), ok, "the project end can only move later" if ok else
               f"horizon update is not raise-only ({tab}): adding a task could shorten the horizon of the others",
               key="R09.3|_extendProjectEndIfNeeded|raise-only")
    writes = [n_ for n_ in own_nodes(ext) if isinstance(n_, ast.Assign) and "attributes" in norm(n_.targets[0])]
    ok = all("'end'" in norm(w.targets[0]) for w in writes)
    ctx.ob("R09.3", f"{ext.qual}: writes only the project end", ext, ok, "no other project attribute is touched" if ok else
           "horizon extension writes other project attributes", key="R09.3|_extendProjectEndIfNeeded|writes")
    # the extended horizon must not move anybody: the default deadline of backward-scheduled tasks is the DECLARED end
    tsched = repo.func("TaskScenario.schedule")
    fdt = ctx.dep.of(tsched)
    from ..dep import full as _full
    inits = [n for n in own_nodes(tsched) if isinstance(n, ast.Assign) and norm(n.targets[0]) == "latest_end"
             and "project" in norm(n.value) and "end" in norm(n.value).lower()]
    if not inits:
        raise AnchorMissing("TaskScenario.schedule: default deadline (latest_end) initialisation not found")
    for n in inits:
        a = _full(fdt.deps_of(n.value))
        ok = bool({"field:declaredEnd", "str:declaredEnd"} & a)
        ctx.ob("R09.3", f"{tsched.qual}: default deadline {norm(n.value)[:60]}", (tsched, n), ok,
               "backward tasks without a deadline are anchored at the declared project end" if ok else
               "the default deadline is the project end that _extendProjectEndIfNeeded moves with the total effort: adding a task that "
               "fits (own resource, lowest priority) shifts every backward-scheduled task of the project",
               key="R09.3|TaskScenario.schedule|default deadline")
    horizon_not_a_date_rule(ctx, "R09.8")
    # ---------------------------------------------------------------- R09.4 inheritance is transitive
    # a container's priority reaches tasks nested more than one level down only if a value the parent itself inherited is
    # passed on: every guard of `my_attr.inherit(parent_attr.get())` accepts provided OR inherited parent values
    inh = repo.func("PropertyTreeNode.inheritAttributes")
    n_inh = 0
    for c in own_nodes(inh):
        if not (isinstance(c, ast.Call) and isinstance(c.func, ast.Attribute) and c.func.attr == "inherit" and c.args
                and "parent" in norm(c.args[0])):
            continue
        from .common import enclosing_ifs
        guards = [(i, b) for (i, b) in enclosing_ifs(c, inh.node) if "parent" in norm(i.test) and norm(i.test) != "self.parent"]
        n_inh += 1

        def ev(e, prov, inhd):
            if isinstance(e, ast.BoolOp):
                vs = [ev(v, prov, inhd) for v in e.values]
                if any(v is None for v in vs):
                    return None
                return all(vs) if isinstance(e.op, ast.And) else any(vs)
            if isinstance(e, ast.UnaryOp) and isinstance(e.op, ast.Not):
                v = ev(e.operand, prov, inhd)
                return None if v is None else not v
            t = norm(e)
            if t == "parent_attr.provided" or (isinstance(e, ast.Call) and norm(e.func) == "self.parent.provided"):
                return prov
            if t == "parent_attr.inherited" or (isinstance(e, ast.Call) and norm(e.func) == "self.parent.inherited"):
                return inhd
            if t == "self.parent":
                return True
            if t == "my_attr.provided" or (isinstance(e, ast.Call) and norm(e.func) == "self.provided"):
                return False              # the child under consideration has no value of its own
            return None
        # the conditions under which the call is reached: the must-facts at the call (enclosing tests AND earlier exits such as
        # `if <parent was given nothing>: continue`).  The call must stay reachable when the parent's value is provided, and
        # when it is inherited only: a clause all of whose literals are definitely false for such a parent blocks it.
        node = cfg_of(inh).node_containing(c)
        clauses = facts_of(inh).at(node) if node is not None else frozenset()

        def lit(t_, pol, prov, inhd):
            try:
                e_ = ast.parse(t_, mode="eval").body
            except SyntaxError:
                return None
            # any(<x>.provided for <x> in <the parent's attributes>): "the parent was given something" -- in the worst case
            # nothing but the attribute in question, so it is as true as `provided`
            if isinstance(e_, ast.Call) and norm(e_.func) == "any" and e_.args and isinstance(e_.args[0], ast.GeneratorExp) \
                    and "parent" in norm(e_.args[0]) and norm(e_.args[0].elt).endswith(".provided"):
                v_ = prov
            elif isinstance(e_, ast.Call) and norm(e_.func) == "any" and e_.args and isinstance(e_.args[0], ast.GeneratorExp) \
                    and "parent" in norm(e_.args[0]) and norm(e_.args[0].elt).endswith(".inherited"):
                v_ = inhd
            else:
                v_ = ev(e_, prov, inhd)
            return None if v_ is None else (v_ if pol else not v_)
        ok = True
        blocked = []
        for prov, inhd in ((True, False), (False, True), (True, True)):
            for cl in clauses:
                if not any("parent" in t_ for (t_, _p) in cl):
                    continue
                vals = [lit(t_, p_, prov, inhd) for (t_, p_) in cl]
                if vals and all(v_ is False for v_ in vals):
                    ok = False
                    blocked.append((prov, inhd, sorted(t_ for t_, _ in cl)))
        ctx.ob("R09.4", f"{inh.qual}: {norm(c)} under {[norm(i.test) for i, _ in guards]}", (inh, c), ok,
               "a value is passed on whether the parent provided or inherited it" if ok else
               "a value the parent inherited itself is not passed on: a container's priority stops one nesting level down and deeper "
               "tasks compete with the default priority",
               key=key_of("R09.4", inh, None, f"inherit guard {n_inh}"))
    if n_inh < 2:
        raise AnchorMissing(f"inheritAttributes: {n_inh} parent inheritance sites found")
    ctx.floor("R09.4", 2)
    # ---------------------------------------------------------------- R09.5 every valid priority reaches the model
    # the whole range 1..1000 must be stored as written: a guard in the parser branch that skips the store may not reject
    # 1, 500 or 1000 (boundary values decide "strictly lowest priority")
    from ..order import eval_points
    ap = repo.func("ModelBuilder._apply_property_attributes")
    branches = [i for i in own_nodes(ap) if isinstance(i, ast.If) and norm(i.test).replace("'", '"') == 'key == "priority"']
    if not branches:
        raise AnchorMissing("_apply_property_attributes: priority branch not found")
    for br in branches:
        stores = [x for st in br.body for x in ast.walk(st) if isinstance(x, ast.Assign) and "priority" in norm(x.targets[0])]
        guards = [x for st in br.body for x in ast.walk(st) if isinstance(x, ast.If) and any(isinstance(n_, ast.Name) and n_.id == "value" for n_ in ast.walk(x.test))]
        ok = bool(stores)
        why = ""
        for gd in guards:
            skips = any(isinstance(y, (ast.Continue, ast.Return, ast.Raise, ast.Break)) for st in gd.body for y in ast.walk(st))
            holds_store = any(x in list(ast.walk(gd)) for x in stores)
            for pt in (1, 500, 1000):
                v = eval_points(gd.test, [(lambda e: isinstance(e, ast.Name) and e.id == "value", pt)])
                if v is None:
                    from ..model import Inconclusive
                    raise Inconclusive(f"_apply_property_attributes: priority guard {norm(gd.test)} cannot be evaluated")
                if (skips and v is True) or (holds_store and not skips and v is False):
                    ok = False
                    why = f"priority {pt} is not stored (guard {norm(gd.test)})"
        ctx.ob("R09.5", f"{ap.qual}: priority stored for the whole range 1..1000", (ap, br), ok,
               "the declared priority is stored unconditionally or under a guard that accepts 1, 500 and 1000" if ok else
               f"{why}: the task silently keeps the default 500 and competes as a middle-priority task",
               key="R09.5|_apply_property_attributes|priority range")
    # ---------------------------------------------------------------- R09.5 (cont.) a priority outside 1..1000 does not reach the model:
    # the scheduler's sort key reads `priority or 500`, so 0 -- the value somebody writes for "lowest of all" -- would compete as 500
    tp = repo.func("TJPTransformer.task_priority")
    res_tp = local_resolver(tp.node)
    pname = None
    for a in own_nodes(tp):
        if isinstance(a, (ast.Assign, ast.AnnAssign)) and a.value is not None and any(isinstance(c_, ast.Call) and norm(c_.func) == "int" for c_ in ast.walk(a.value)):
            t_ = a.targets[0] if isinstance(a, ast.Assign) else a.target
            if isinstance(t_, ast.Name):
                pname = t_.id
    rejects = [i for i in own_nodes(tp) if isinstance(i, ast.If) and any(isinstance(x, ast.Raise) for x in i.body)]
    verdict = {}
    for pt in (0, 1, 500, 1000, 1001):
        v = None
        for i in rejects:
            v_ = eval_points(i.test, [(lambda e: isinstance(e, ast.Name) and e.id == pname, pt)]) if pname else None
            v = v_ if v is None else (v or v_)
        verdict[pt] = v
    ok = verdict[0] is True and verdict[1001] is True and verdict[1] is False and verdict[500] is False and verdict[1000] is False
    ctx.ob("R09.5", f"{tp.qual}: rejects {[p_ for p_, v_ in verdict.items() if v_]} of the probes 0, 1, 500, 1000, 1001", tp, ok,
           "0 and 1001 are rejected, 1, 500 and 1000 pass" if ok else
           "a priority outside 1..1000 is handed on: `priority 0` is read as `0 or 500` by the sort key, so the task meant to be the very last "
           "competes in the middle of the queue",
           key="R09.5|TJPTransformer.task_priority|range rejected")
    # ---------------------------------------------------------------- R09.6 task identity (terminal test of the backward pass)
    from .common import local_id_identity_rule
    local_id_identity_rule(ctx, "R09.6", ("core/project.py", "core/task_scenario.py", "core/task.py"),
                           "a task added elsewhere in the tree then changes which of the existing tasks count as terminal")
    ctx.floor("R09.1", 10)
    ctx.floor("R09.2", 2)
