"""C02 — work is booked only inside the resource's working time.

Decided:
  R02.1  availability (ResourceScenario.available) and the on-shift test depend on every calendar
         input: project vacations, resource leaves, shift or own working hours, resource time zone and
         the project default calendar — by whichever route (direct test or the slot table)
  R02.2  every `return True` of available() is reached only under the on-shift fact for that slot
  R02.3  all constructors of leave intervals widen a single date to a non-empty interval
  R02.4  the shift branch and the own-hours branch of onShift pass the same (slot, timezone)
  R02.5  interval tests have the documented half-open shape: start <= t < end blocks (vacation,
         leave); default calendar Mon-Fri 09:00-17:00; working-hours interval start <= m < end,
         cross-midnight (end <= start): m >= start or m < end, spill-over from the previous weekday
  R02.7  a slot whose scoreboard entry is a blocking marker is offered only when part of it was released
  R02.8  a value remembered between calendar queries is keyed by the parameters it was computed from (no lossy memo key)
  R02.9  available() answers True only when the slot-table entry is known not to be a blocking marker (leave / off-shift)
  R02.10 project-level `workinghours` accepted by the grammar reach the default calendar (known finding F46)
  R02.11 the duration of a blocking `booking` is converted for every unit of the grammar (no silent default)
  R02.12 leaves declared inside a shift reach the model and are consulted by the shift branch of onShift
  R02.6  local time: weekday / minute are taken after the time-zone conversion
Not decided: minute-exact containment when shift edges are not slot aligned, DST arithmetic.
"""
from __future__ import annotations

import ast

from ..cfg import cfg_of
from ..core import Ctx, key_of
from ..dep import data, full
from ..model import AnchorMissing, Inconclusive, dotted, norm, own_nodes
from ..order import interval_profile, matches, order_table
from .common import facts_of, heap_writes, key_of_text, returns, maybe_true

META = {
    "level": "other",
    "technique": "static analysis: dependence closure through the slot table, must-fact dominance, sibling agreement of interval constructors, order tables on interval tests, complete finite decision tables (weekday x hour; orderings of minute/start/end) read off the syntax tree",
    "explanation": "Rule instances over ResourceScenario.available/onShift/initScoreboard, WorkingHours.onShift, "
                   "Project._isDefaultWorkingTime and the parser's leave constructors: dependence of availability on every "
                   "calendar input, dominance of the on-shift fact over every positive answer, agreement of the five "
                   "interval constructors on single-date widening, and order tables of each interval comparison."
                   " Also: memo-key soundness of everything reachable from the calendar decision, the fact that a blocking marker is never offered, the evening/next-morning split of cross-midnight shifts, exhaustive unit conversion of blocking bookings, shift leaves reaching model and decision, and whether project-level working hours are consulted (known finding F46)."
                   " Round 3: leave loops are half-open in slots (affine bounds), a day range is decided per ordering of its two ends (wrap-around), single-slot and invalidation forms of the memo rule."
                   " Round 4: UTC to local time goes through astimezone / fromutc on the tagged instant; clamp forms of the leave loops; on-shift facts may come from the slot table's markers.",
    "assumptions": ["the default calendar is Mon-Fri 09:00-17:00 (property anchor: project.py:_isDefaultWorkingTime)"],
}

HALF_OPEN_LO = {"<": False, "=": True, ">": True}     # t vs start : inside iff t >= start
HALF_OPEN_HI = {"<": True, "=": False, ">": False}    # t vs end   : inside iff t < end


def _table(test, lhs, rhs):
    return order_table(test, lhs, rhs)


def memo_rule(ctx: Ctx, rid: str):
    """Memo-key soundness in everything reachable from available()/onShift() (C02 R02.8 / C08 R08.9)."""
    from .common import process_state_rule
    process_state_rule(ctx, rid, [ctx.repo.func("ResourceScenario.available"), ctx.repo.func("ResourceScenario.onShift")],
                       "the calendar answer for one slot is given for another", census=False)


def _default_calendar_table(fn):
    """{(weekday, hour): bool} of a function whose body is assignments / ifs / returns over <param>.weekday(), <param>.hour, integer
    constants, comparisons and boolean connectives; None when it uses anything else (the caller then falls back to pattern rules)."""
    if len(fn.params) < 2:
        return None
    date = fn.params[1]

    class _No(Exception):
        pass
    _DATE = object()          # the table is over actual dates: the parameter is not None

    def ev(e, env, d, h):
        if isinstance(e, ast.Constant) and (isinstance(e.value, (int, bool)) or e.value is None):
            return e.value
        if isinstance(e, ast.Name):
            if e.id in env:
                return env[e.id]
            if e.id == date:
                return _DATE
            raise _No()
        if isinstance(e, ast.Compare) and len(e.ops) == 1 and isinstance(e.ops[0], (ast.Is, ast.IsNot)):
            a, b = ev(e.left, env, d, h), ev(e.comparators[0], env, d, h)
            return (a is b) if isinstance(e.ops[0], ast.Is) else (a is not b)
        if isinstance(e, ast.Call) and not e.args and not e.keywords and norm(e.func) == f"{date}.weekday":
            return d
        if isinstance(e, ast.Attribute) and norm(e) == f"{date}.hour":
            return h
        if isinstance(e, ast.UnaryOp) and isinstance(e.op, ast.Not):
            return not ev(e.operand, env, d, h)
        if isinstance(e, ast.BoolOp):
            r = None
            for v in e.values:
                r = ev(v, env, d, h)
                if isinstance(e.op, ast.And) and not r:
                    return r
                if isinstance(e.op, ast.Or) and r:
                    return r
            return r
        if isinstance(e, ast.Compare):
            left = ev(e.left, env, d, h)
            for op, c in zip(e.ops, e.comparators):
                right = ev(c, env, d, h)
                if isinstance(op, (ast.In, ast.NotIn)):
                    raise _No()
                fns = {ast.Lt: lambda a, b: a < b, ast.LtE: lambda a, b: a <= b, ast.Gt: lambda a, b: a > b, ast.GtE: lambda a, b: a >= b,
                       ast.Eq: lambda a, b: a == b, ast.NotEq: lambda a, b: a != b}
                if type(op) not in fns or left is None or right is None:
                    raise _No()
                if not fns[type(op)](left, right):
                    return False
                left = right
            return True
        if isinstance(e, ast.IfExp):
            return ev(e.body, env, d, h) if ev(e.test, env, d, h) else ev(e.orelse, env, d, h)
        if isinstance(e, ast.Call) and norm(e.func) == "bool" and len(e.args) == 1:
            return bool(ev(e.args[0], env, d, h))
        raise _No()

    class _Ret(Exception):
        def __init__(self, v):
            self.v = v

    def run_block(stmts, env, d, h):
        for st in stmts:
            if isinstance(st, ast.Expr) and isinstance(st.value, ast.Constant):
                continue
            if isinstance(st, ast.Pass):
                continue
            if (isinstance(st, ast.Assign) and len(st.targets) == 1 and isinstance(st.targets[0], ast.Name)) or \
                    (isinstance(st, ast.AnnAssign) and isinstance(st.target, ast.Name) and st.value is not None):
                tg = st.targets[0] if isinstance(st, ast.Assign) else st.target
                try:
                    env[tg.id] = ev(st.value, env, d, h)
                except _No:
                    env.pop(tg.id, None)     # not a function of (weekday, hour): any later use of it makes the table undecidable
            elif isinstance(st, ast.If):
                run_block(st.body if ev(st.test, env, d, h) else st.orelse, env, d, h)
            elif isinstance(st, ast.Return):
                raise _Ret(ev(st.value, env, d, h) if st.value is not None else None)
            elif isinstance(st, ast.For) and not st.orelse and \
                    all(isinstance(r.value, ast.Constant) and r.value.value is False for r in ast.walk(st) if isinstance(r, ast.Return)) and \
                    not any(isinstance(x, ast.Name) and isinstance(x.ctx, ast.Store) and x not in ast.walk(st.target) for x in ast.walk(st)):
                continue          # a loop that can only veto (holidays): the table describes a date no entry vetoes
            else:
                raise _No()
        return None

    tab = {}
    try:
        for d in range(7):
            for h in range(24):
                try:
                    run_block(fn.node.body, {}, d, h)
                    tab[(d, h)] = False
                except _Ret as r:
                    tab[(d, h)] = bool(r.v)
    except _No:
        return None
    return tab


def blocked_interval_rule(ctx: Ctx, rid: str):
    """Leave intervals are marked half-open in slots, [slot(start), slot(end)): no slot before the leave and no slot after its end
    is blocked, and the sibling loops (project-wide and own leaves) agree  (C02 R02.13 / C08 R08.11)."""
    from ..order import affine
    fn = ctx.repo.func("ResourceScenario.initScoreboard")

    def nearest_def(name: str, before: ast.AST):
        """the assignment to `name` closest before `before` (by position) inside the function"""
        best = None
        for d in own_nodes(fn):
            if isinstance(d, (ast.Assign, ast.AnnAssign)) and d.value is not None and d.lineno < before.lineno \
                    and any(isinstance(t, ast.Name) and t.id == name for t in (d.targets if isinstance(d, ast.Assign) else [d.target])):
                if best is None or d.lineno > best.lineno:
                    best = d
        return best

    def unclamp(e):
        # max(x, 0) / min(x, size): clipping to the slot table does not move a bound that lies inside it
        while isinstance(e, ast.Call) and isinstance(e.func, ast.Name) and e.func.id in ("max", "min") and len(e.args) == 2:
            rest = [a for a in e.args if not (isinstance(a, ast.Constant) or norm(a) in (
                "size", "self.project.scoreboardSize()", "len(self.scoreboard)", "size - 1", "self.project.scoreboardSize() - 1", "len(self.scoreboard) - 1"))]
            if len(rest) != 1:
                break
            e = rest[0]
        return e

    def is_root(e):
        return isinstance(e, ast.Call) and isinstance(e.func, ast.Attribute) and e.func.attr == "dateToIdx"
    n = 0
    for loop in own_nodes(fn):
        if not (isinstance(loop, ast.For) and isinstance(loop.iter, ast.Call) and norm(loop.iter.func) == "range" and len(loop.iter.args) == 2):
            continue
        def bound(e, depth=0, loop=loop):
            """(root text, offset) of a range bound: clamps to the slot table dropped, local names followed to their nearest
            preceding definition, +/- integer constants accumulated"""
            if depth > 8:
                return None
            e = unclamp(e)
            if is_root(e):
                return (norm(e), 0)
            if isinstance(e, ast.Name):
                d = nearest_def(e.id, loop)
                return bound(d.value, depth + 1) if d is not None else None
            if isinstance(e, ast.BinOp) and isinstance(e.op, (ast.Add, ast.Sub)) and isinstance(e.right, ast.Constant) and isinstance(e.right.value, int):
                a = bound(e.left, depth + 1)
                return (a[0], a[1] + (e.right.value if isinstance(e.op, ast.Add) else -e.right.value)) if a else None
            if isinstance(e, ast.Call) and isinstance(e.func, ast.Name) and e.func.id == "int" and len(e.args) == 1:
                return bound(e.args[0], depth + 1)
            return None
        offs = [(which, e, bound(e)) for which, e in zip(("start", "end"), loop.iter.args)]
        if not all(a is not None and f".interval.{which}" in a[0] or (a is not None and a[0].endswith(f".{which})")) for which, _e, a in offs):
            if any(a is not None and ".interval." in a[0] for _w, _e, a in offs) or any("interval" in norm(e) for _w, e, _a in offs):
                raise Inconclusive(f"initScoreboard:{loop.lineno}: bounds {norm(loop.iter)} of an interval loop are not slot(start) + c / slot(end) + c")
            continue
        n += 1
        # the conversion of a leave bound is total: a leave that overlaps the project window only partly must still block the part
        # inside it, so the bound may be clamped but the leave may not be skipped because one of its ends lies outside the window
        for d_ in own_nodes(fn):
            if isinstance(d_, ast.Call) and isinstance(d_.func, ast.Attribute) and d_.func.attr == "dateToIdx" and "interval" in norm(d_) \
                    and abs(getattr(d_, "lineno", 0) - loop.lineno) <= 12 and d_.lineno <= loop.lineno:
                recv = norm(d_.func.value)
                forced = (len(d_.args) >= 2 and isinstance(d_.args[1], ast.Constant) and d_.args[1].value is True) or \
                    any(k.arg == "forceIntoProject" and isinstance(k.value, ast.Constant) and k.value.value is True for k in d_.keywords)
                partial = not (recv.endswith("project") or forced)
                p_, skipping = getattr(d_, "_parent", None), False
                while p_ is not None and p_ is not fn.node:
                    if isinstance(p_, ast.Try) and any(d_ is x for st_ in p_.body for x in ast.walk(st_)) and any(
                            isinstance(x, (ast.Continue, ast.Pass, ast.Break)) for h_ in p_.handlers for x in ast.walk(h_)):
                        skipping = True
                    p_ = getattr(p_, "_parent", None)
                bad_ = partial or skipping
                ctx.ob(rid, f"{fn.qual}: {norm(d_)[:70]} is defined for every date", (fn, d_), not bad_,
                       "raw slot index of the project (dates outside the window give indices outside it, clamped by the loop bounds)" if not bad_ else
                       "the bound is converted by a function that raises for a date outside the project window" + (" and the handler skips the leave" if skipping else "") +
                       ": a leave that begins before the project start or ends after its end is dropped as a whole and its days inside the window are worked",
                       key=key_of_text(rid, fn.qual, f"total conversion {norm(d_)[:60]}"))
        for which, e, a in offs:
            ok = a[1] == 0
            ctx.ob(rid, f"{fn.qual}: loop {norm(loop.iter)[:60]}: {which} bound = {a[0][:50]} {a[1]:+d}", (fn, loop), ok,
                   f"the blocked range {'begins' if which == 'start' else 'ends'} with the slot of the interval's {which}" if ok else
                   (f"the blocked range ends {a[1]:+d} slot(s) from the slot the interval ends in: the slot that begins at the end of a leave is "
                    "blocked although the resource works in it" if which == "end" and a[1] > 0 else
                    f"the blocked range is moved by {a[1]:+d} slot(s) at its {which}: a slot inside the leave stays bookable, or a slot outside it is blocked"),
                   key=key_of_text(rid, fn.qual, f"{which} {a[0]}"))
    if n < 2:
        raise AnchorMissing(f"initScoreboard: {n} leave interval loops found (project-wide and own leaves expected)")
    # a project-wide leave closes slots through the markers written here and nothing else (onShift() does not look at project-wide
    # leaves), so a leave that ENDS inside a slot must close that slot too: its end bound is the ceiling slot -- the floor index plus
    # one when the end lies inside the slot (`if idxToDate(end_idx) < end: end_idx += 1`) -- not the floor
    for loop in own_nodes(fn):
        if not (isinstance(loop, ast.For) and isinstance(loop.iter, ast.Call) and norm(loop.iter.func) == "range" and len(loop.iter.args) == 2):
            continue
        outer = getattr(loop, "_parent", None)
        while outer is not None and not isinstance(outer, ast.For):
            outer = getattr(outer, "_parent", None)
        if outer is None:
            continue
        src = norm(outer.iter)
        srcs = [src] + [norm(d.value) for d in own_nodes(fn) if isinstance(d, (ast.Assign, ast.AnnAssign)) and d.value is not None and isinstance(outer.iter, ast.Name)
                        and any(isinstance(t, ast.Name) and t.id == outer.iter.id for t in (d.targets if isinstance(d, ast.Assign) else [d.target]))]
        if not any("self.project.attributes" in x and "leaves" in x for x in srcs):
            continue
        end_names = {x.id for x in ast.walk(loop.iter.args[1]) if isinstance(x, ast.Name)}
        for _ in range(3):                 # ... and the names those are defined from (hi = min(end_idx, size))
            for d_ in ast.walk(outer):
                if isinstance(d_, ast.Assign) and any(isinstance(t_, ast.Name) and t_.id in end_names for t_ in d_.targets):
                    end_names |= {x.id for x in ast.walk(d_.value) if isinstance(x, ast.Name)}
        end_names -= {"size", "max", "min", "int", "self", "len"}
        ceil = [a for a in ast.walk(outer) if isinstance(a, ast.AugAssign) and isinstance(a.op, ast.Add) and isinstance(a.target, ast.Name)
                and a.target.id in end_names and isinstance(a.value, ast.Constant) and a.value.value == 1
                and any(isinstance(i, ast.If) and a in i.body and "idxToDate" in norm(i.test) and ".interval.end" in norm(i.test)
                        for i in ast.walk(outer))]
        direct = "Ceil" in norm(loop.iter.args[1]) or any("ceil" in norm(d.value).lower() for d in ast.walk(outer) if isinstance(d, ast.Assign)
                                                            and any(isinstance(t, ast.Name) and t.id in end_names for t in d.targets))
        ok = bool(ceil) or direct
        ctx.ob(rid, f"{fn.qual}: project-wide leave, loop {norm(loop.iter)[:50]}: a leave ending inside a slot closes that slot", (fn, loop), ok,
               "end bound = slot of the end, plus one when the end lies inside it" if ok else
               "the end bound of a project-wide leave is the slot its end falls in, exclusive: `leaves holiday 09:00 - 12:30` leaves the 12:00 slot "
               "open and it is booked as a whole although its first half is leave (witness findings/witness/global_leave_ends_mid_slot.tjp)",
               key=key_of_text(rid, fn.qual, "project-wide leave end ceiling"))
    # every slot of the range that is still open (table entry None: on shift, nothing marked yet) receives the leave marker:
    # onShift() looks at a slot's first second only, so the marker written here is what closes the slot in which a leave BEGINS
    for loop in own_nodes(fn):
        if not (isinstance(loop, ast.For) and isinstance(loop.iter, ast.Call) and norm(loop.iter.func) == "range" and len(loop.iter.args) == 2):
            continue
        if not any("interval" in norm(d.value) for d in own_nodes(fn) if isinstance(d, (ast.Assign, ast.AnnAssign)) and d.value is not None
                   and any(isinstance(x, ast.Name) and x.id in {y.id for y in ast.walk(loop.iter) if isinstance(y, ast.Name)}
                           for x in ast.walk(d.targets[0] if isinstance(d, ast.Assign) else d.target))):
            continue

        def writes(stmts):
            return any(isinstance(a, ast.Assign) and any(isinstance(t, ast.Subscript) and norm(t.value) == "self.scoreboard" for t in a.targets) for a in stmts)
        marks_open = writes(loop.body)
        for st in loop.body:
            if isinstance(st, ast.If):
                t = norm(st.test)
                if t.endswith("is not None") and writes(st.orelse):
                    marks_open = True
                if t.endswith("is None") and writes(st.body):
                    marks_open = True
        ctx.ob(rid, f"{fn.qual}: loop {norm(loop.iter)[:50]} marks the slots that are still open", (fn, loop), marks_open,
               "an open slot inside the interval gets the leave marker" if marks_open else
               "slots of the interval whose table entry is still None are skipped: the slot in which a leave or booking BEGINS mid-slot passes "
               "the first-second test of onShift(), keeps no marker and is booked although part of it lies in the leave",
               key=key_of_text(rid, fn.qual, f"open slots marked {norm(loop.iter)[:40]}"))


def day_range_rule(ctx: Ctx, rid: str):
    """`workinghours fri - mon` means Fri, Sat, Sun, Mon: a day range runs from its first day forward to its last, wrapping over the
    week end.  The two indices are touched only through slices of the week list and one comparison, so the three orderings of
    (first, last) decide everything: first <= last must give the single slice [first : last+1], first > last the two-part
    list [first:] + [:last+1]; the lower bound derives from the first item only, the upper bound from the second only."""
    from ..order import local_resolver, order_table
    fn = ctx.repo.func("TJPTransformer.day_spec")
    res = local_resolver(fn.node)
    p_items = fn.params[1] if len(fn.params) > 1 else "items"

    def item_refs(e, seen=None, depth=0):
        """which of items[0] / items[1] the expression is computed from (through local names; tuple unpacking joins)"""
        seen = seen if seen is not None else set()
        out = set()
        for x in ast.walk(e):
            if isinstance(x, ast.Subscript) and norm(x.value) == p_items and isinstance(x.slice, ast.Constant):
                out.add(x.slice.value)
            elif isinstance(x, ast.Name) and isinstance(x.ctx, ast.Load) and x.id not in seen and depth < 8:
                seen.add(x.id)
                for v in res(x):
                    out |= item_refs(v, seen, depth + 1)
                # names bound by tuple unpacking: joined over the whole right-hand side
                for a in own_nodes(fn):
                    if isinstance(a, ast.Assign) and any(isinstance(t, (ast.Tuple, ast.List)) and any(isinstance(el, ast.Name) and el.id == x.id for el in t.elts)
                                                         for t in a.targets):
                        out |= item_refs(a.value, seen, depth + 1)
        return out
    week = [a for a in own_nodes(fn) if isinstance(a, (ast.Assign, ast.AnnAssign)) and isinstance(a.value, ast.List) and len(a.value.elts) == 7]
    if not week:
        raise AnchorMissing("day_spec: week list not found")
    wk = norm(week[0].targets[0] if isinstance(week[0], ast.Assign) else week[0].target)

    def slices(e):
        """[(lower, upper)] of a concatenation of slices of the week list, or None"""
        if isinstance(e, ast.BinOp) and isinstance(e.op, ast.Add):
            a, b = slices(e.left), slices(e.right)
            return a + b if a is not None and b is not None else None
        if isinstance(e, ast.Subscript) and norm(e.value) == wk and isinstance(e.slice, ast.Slice) and e.slice.step is None:
            return [(e.slice.lower, e.slice.upper)]
        return None
    from .common import enclosing_ifs
    rets = [r for r in own_nodes(fn) if isinstance(r, ast.Return) and r.value is not None and slices(r.value) is not None]
    if not rets:
        raise Inconclusive("day_spec: the range branch does not return slices of the week list (shape not interpreted)")
    covered = {"<": False, "=": False, ">": False}
    for r in rets:
        sl = slices(r.value)
        lo, hi = sl[0][0], sl[-1][1]
        lo_refs = item_refs(lo) if lo is not None else set()
        hi_refs = item_refs(hi) if hi is not None else set()
        ok_ends = lo_refs == {0} and hi_refs == {1} and isinstance(hi, ast.BinOp) and isinstance(hi.op, ast.Add) and norm(hi.right) == "1"
        ctx.ob(rid, f"{fn.qual}: {norm(r.value)[:70]}: begins at the first day, ends with the last", (fn, r), ok_ends,
               "lower bound from items[0] only, upper bound = index of items[1] + 1" if ok_ends else
               f"the range's lower bound is computed from item(s) {sorted(lo_refs)} and its upper bound from {sorted(hi_refs)}: the listed days do "
               "not run from the first named day to the last (e.g. the two ends are sorted, so `fri - mon` becomes Mon..Fri)",
               key=key_of_text(rid, fn.qual, f"ends {len(sl)}"))
        if not ok_ends:
            continue
        # orderings under which this return is taken: the must-facts at the return (enclosing tests and earlier exits alike)
        tab = {"<": True, "=": True, ">": True}
        names_lo = lambda e: norm(e) == norm(lo)
        names_hi = lambda e: isinstance(hi, ast.BinOp) and norm(e) == norm(hi.left)
        node = cfg_of(fn).node_containing(r)
        for cl in (facts_of(fn).at(node) if node is not None else ()):
            if len(cl) != 1:
                continue
            (txt, pol), = tuple(cl)
            try:
                te = ast.parse(txt, mode="eval").body
            except SyntaxError:
                continue
            t = order_table(te, names_lo, names_hi)
            if all(v is None for v in t.values()):
                continue
            for k in tab:
                v = t[k]
                v = (not v) if (pol is False and v is not None) else v
                tab[k] = tab[k] and (v is not False)
        single = len(sl) == 1
        okshape = (single and not tab[">"]) or (len(sl) == 2 and not tab["<"] and not tab["="] and sl[0][1] is None and sl[1][0] is None)
        for k in tab:
            covered[k] = covered[k] or (tab[k] and okshape)
        ctx.ob(rid, f"{fn.qual}: {norm(r.value)[:70]} taken when first {'/'.join(k for k in tab if tab[k])} last", (fn, r), okshape,
               "single slice for first <= last, wrap-around pair for first > last" if okshape else
               "this form of the list is returned under an ordering of the two days for which it is wrong (a single slice is empty when the "
               "first day lies after the last; the two-part list repeats days otherwise)",
               key=key_of_text(rid, fn.qual, f"shape {len(sl)}"))
    okc = all(covered.values())
    ctx.ob(rid, f"{fn.qual}: orderings handled {covered}", fn, okc, "first < last, first = last and first > last all yield the forward range" if okc else
           "an ordering of the two days has no correct form: a wrap-around range such as `fri - mon` or `sun - tue` gets the wrong days",
           key=key_of_text(rid, fn.qual, "orderings"))


def aware_conversion_rule(ctx: Ctx, rid: str):
    """UTC -> local time of a resource goes through an aware datetime: in WorkingHours._convert_to_timezone every returned value
    that is not the input itself is derived from `.astimezone(` (or `tz.fromutc(`) applied to the UTC-tagged instant.  A zone
    offset looked up with the naive UTC value read as local wall-clock time is off by the DST step around every switch."""
    fn = ctx.repo.func("WorkingHours._convert_to_timezone")
    fd = ctx.dep.of(fn)
    p_dt = fn.params[1] if len(fn.params) > 1 else "dt"
    n = 0
    for r in returns(fn):
        if r.value is None or (isinstance(r.value, ast.Name) and r.value.id == p_dt) or (isinstance(r.value, ast.Constant) and r.value.value is None):
            continue
        atoms = data(fd.deps_of(r.value))
        n += 1
        ok = bool(atoms & {"call:astimezone", "call:fromutc"})
        ctx.ob(rid, f"{fn.qual}: return {norm(r.value)[:50]}", (fn, r), ok,
               "the local time is obtained by converting the UTC-tagged instant" if ok else
               "the local time is computed without astimezone()/fromutc() on the UTC instant (an offset taken for the naive value, or a "
               "remembered one): wrong by the DST step in the hours around each switch",
               key=key_of(rid, fn, r.value, "aware conversion"))
    if not n:
        raise AnchorMissing("_convert_to_timezone: no converting return found")


def run(ctx: Ctx):
    repo = ctx.repo
    avail = repo.func("ResourceScenario.available")
    onshift = repo.func("ResourceScenario.onShift")
    initsb = repo.func("ResourceScenario.initScoreboard")
    wh = repo.func("WorkingHours.onShift")
    dflt = repo.func("Project._isDefaultWorkingTime")

    # ---------------------------------------------------------------- R02.1
    need = [("pattr:vacations", "project vacations"), ("pattr:leaves", "resource leaves"),
            ("pattr:timezone", "resource time zone"), ("call:isWorkingTime", "project default calendar")]
    for fn in (avail, onshift):
        atoms = full(ctx.dep.summary(fn).ret)
        if fn is avail:
            atoms = ctx.dep.close_heap(atoms) if "call:onShift" not in atoms else atoms
            if "call:onShift" not in atoms:
                # available() may rely on the slot table alone: initScoreboard writes a blocking marker (an int) into every slot for
                # which onShift() is false, and available() refuses int entries (R02.2 / R02.9 check that guard); the calendar inputs
                # then reach the answer through the table
                sb_w = set()
                for a_, _n, _t in heap_writes(ctx, initsb, "scoreboard"):
                    sb_w |= full(a_)
                marker_guard = any(isinstance(c_, ast.Call) and norm(c_.func) == "isinstance" and "scoreboard" in norm(c_.args[0]) and norm(c_.args[1]) == "int"
                                   for c_ in own_nodes(avail) if isinstance(c_, ast.Call) and len(c_.args) == 2)
                if "call:onShift" in sb_w and marker_guard:
                    atoms = atoms | full(ctx.dep.summary(onshift).ret) | {"call:onShift"}
        for a, what in need:
            ok = a in atoms
            ctx.ob("R02.1", f"{fn.qual} depends on {what}", fn, ok,
                   f"answer depends on {a}" if ok else f"the answer of {fn.name}() cannot depend on {what}: that calendar input is ignored",
                   key=f"R02.1|{fn.qual}|{a}")
        ok = "pattr:shifts" in atoms and "pattr:workinghours" in atoms
        ctx.ob("R02.1", f"{fn.qual} depends on shift and own working hours", fn, ok,
               "answer depends on pattr:shifts and pattr:workinghours" if ok else
               f"{fn.name}() ignores the resource's shift or its own working hours", key=f"R02.1|{fn.qual}|hours")
    # the working-hours object's answer depends on its table and on the slot's local time
    atoms = full(ctx.dep.summary(wh).ret)
    for a, what in (("field:_hours", "weekday -> intervals table"), ("call:weekday", "weekday of the slot"),
                    ("field:hour", "hour of the slot"), ("field:minute", "minute of the slot"),
                    ("param:timezone", "time zone argument"), ("call:idxToDate", "slot -> time conversion")):
        ok = a in atoms
        ctx.ob("R02.1", f"{wh.qual} depends on {what}", wh, ok, f"depends on {a}" if ok else f"WorkingHours.onShift ignores the {what}",
               key=f"R02.1|{wh.qual}|{a}")

    # ---------------------------------------------------------------- R02.2
    facts = facts_of(avail)
    g = cfg_of(avail)
    slotp = avail.params[1]
    cnt = 0
    for r in returns(avail):
        if maybe_true(r):
            cnt += 1
            node = g.node_of(r)
            cl = facts.holds(node, lambda t, p: (p and t == f"self.onShift({slotp})") or
                             (p and t == f"self.scoreboard[{slotp}] is None") or
                             # every off-shift slot carries an int marker (initScoreboard): "not a marker" implies on shift
                             (p is False and t == f"isinstance(self.scoreboard[{slotp}], int)"))
            ctx.ob("R02.2", f"{avail.qual}: return True", (avail, r), cl is not None,
                   f"reached only under {sorted(t for t, _ in cl)}" if cl else
                   "available() can answer True on a path that never established that the slot is on shift",
                   key=key_of("R02.2", avail, None, "return True"))
    if not cnt:
        raise AnchorMissing("available() has no `return True`")

    # ---------------------------------------------------------------- R02.3 leave constructors
    sites = []
    for fname in ("ModelBuilder._apply_global_attributes", "ModelBuilder._apply_property_attributes"):
        fn = repo.func(fname)
        fd = ctx.dep.of(fn)
        for c in own_nodes(fn):
            if isinstance(c, ast.Call) and dotted(c.func) == "TimeInterval" and len(c.args) == 2:
                sites.append((fn, fd, c))
    if len(sites) < 5:
        raise AnchorMissing(f"leave interval constructors: found {len(sites)}, expected 5")
    for fn, fd, c in sites:
        end_atoms = data(fd.deps_of(c.args[1]))
        widened = "call:timedelta" in end_atoms
        # which branch (key == "...")
        br = "?"
        child, p = c, getattr(c, "_parent", None)
        while p is not None and p is not fn.node:
            if isinstance(p, ast.If) and isinstance(p.test, ast.Compare) and norm(p.test.left) == "key" and child in p.body:
                br = norm(p.test.comparators[0])
                break
            child, p = p, getattr(p, "_parent", None)
        ctx.ob("R02.3", f"{fn.qual} [{br}]: {norm(c)}", (fn, c), widened,
               "interval end is start + a positive duration when a single date is given" if widened else
               "interval end can equal the start (single date): [d, d) is empty and the day off is worked",
               key=key_of("R02.3", fn, None, f"{br} {norm(c)}"))

    # ---------------------------------------------------------------- R02.4
    calls = [c for c in own_nodes(onshift) if isinstance(c, ast.Call) and isinstance(c.func, ast.Attribute)
             and c.func.attr == "onShift"]
    sigs = {(tuple(norm(a) for a in c.args), tuple(sorted((k.arg, norm(k.value)) for k in c.keywords))) for c in calls}
    ok = len(calls) >= 2 and len(sigs) == 1 and any(k == "timezone" for s in sigs for (k, _v) in s[1])
    ctx.ob("R02.4", f"{onshift.qual}: {len(calls)} working-hours tests, argument lists {sorted(sigs)}", onshift, ok,
           "shift branch and own-hours branch test the same slot in the resource's time zone" if ok else
           "the shift branch and the own-hours branch of onShift do not pass the same (slot, timezone)",
           key="R02.4|ResourceScenario.onShift|args")
    fdo = ctx.dep.of(onshift)
    for c in calls:
        tz = next((k.value for k in c.keywords if k.arg == "timezone"), None)
        ok = tz is not None and "pattr:timezone" in full(fdo.deps_of(tz))
        ctx.ob("R02.4", f"{onshift.qual}: {norm(c)[:50]} timezone source", (onshift, c), ok,
               "timezone argument is the resource's timezone attribute" if ok else "working-hours test is not given the resource's time zone",
               key=key_of("R02.4", onshift, c, "tz"))

    # ---------------------------------------------------------------- R02.5 interval shapes
    def blocking_tests(fn, what_attr):
        """if-tests inside fn that compare <x>.interval.start / .end against a date and return False"""
        out = []
        for n in own_nodes(fn):
            if isinstance(n, ast.If) and "interval.start" in norm(n.test) and "interval.end" in norm(n.test):
                if any(isinstance(s, ast.Return) and isinstance(s.value, ast.Constant) and s.value.value is False for s in n.body):
                    out.append(n)
        return out

    def is_date(e):
        return isinstance(e, ast.Name) and e.id == "date"

    for fn, exp in ((onshift, 2), (dflt, 1)):
        tests = blocking_tests(fn, None)
        ctx.ob("R02.5", f"{fn.qual}: {len(tests)} blocking interval test(s)", fn, len(tests) >= exp,
               "vacations / leaves each block their interval" if len(tests) >= exp else
               f"{fn.qual} has {len(tests)} blocking interval tests where {exp} calendar inputs (vacations, leaves) must block",
               key=f"R02.5|{fn.qual}|blocking count")
        for n in tests:
            # conjunct that carries the comparison
            parts = n.test.values if isinstance(n.test, ast.BoolOp) and isinstance(n.test.op, ast.And) else [n.test]
            prof = interval_profile(n.test, is_date, lambda e: norm(e).endswith("interval.start"),
                                    lambda e: norm(e).endswith("interval.end"))
            ok = matches(prof, [False, True, True, False, False])
            ctx.ob("R02.5", f"{fn.qual}: {norm(n.test)[:80]}", (fn, n), ok,
                   "blocked iff start <= t < end" if ok else
                   f"blocking interval test is not start <= t < end (profile over t<start, =start, inside, =end, >end: {prof})",
                   key=key_of("R02.5", fn, None, "block " + norm(n.test)[-60:]))
    # default calendar
    wk = hr = None
    tab = _default_calendar_table(dflt)
    if tab is not None:
        # the function is a finite decision over (day of week, hour): its table is read off the syntax tree, whatever the statement shape
        bad_wk = sorted({d for (d, h), v in tab.items() if d >= 5 and v})
        bad_hr = sorted({h for (d, h), v in tab.items() if d < 5 and v != (9 <= h < 17)})
        wk = hr = True
        ctx.ob("R02.5", f"{dflt.qual}: decision table over weekday: weekend", dflt, not bad_wk,
               "Saturday and Sunday (weekday >= 5) are never working time" if not bad_wk else f"weekend test is not weekday >= 5 -> not working (working on weekdays {bad_wk})",
               key="R02.5|Project._isDefaultWorkingTime|weekend")
        ctx.ob("R02.5", f"{dflt.qual}: decision table over hour: Mon-Fri", dflt, not bad_hr,
               "working iff 9 <= hour < 17" if not bad_hr else f"default hours are not 9 <= hour < 17 (differs at hours {bad_hr})",
               key="R02.5|Project._isDefaultWorkingTime|hours")
    for n in (own_nodes(dflt) if tab is None else ()):
        if isinstance(n, ast.If) and isinstance(n.test, ast.Compare) and "weekday" in norm(n.test.left):
            wk = _table(n.test, lambda e: isinstance(e, ast.Name) and e.id == "weekday", lambda e: isinstance(e, ast.Constant) and e.value == 5)
            wk_ret_false = any(isinstance(s, ast.Return) and isinstance(s.value, ast.Constant) and s.value.value is False for s in n.body)
            ok = wk == {"<": False, "=": True, ">": True} and wk_ret_false
            ctx.ob("R02.5", f"{dflt.qual}: {norm(n.test)}", (dflt, n), ok,
                   "Saturday and Sunday (weekday >= 5) are never working time" if ok else f"weekend test is not weekday >= 5 -> not working ({wk})",
                   key="R02.5|Project._isDefaultWorkingTime|weekend")
    res_names = {}
    for n in own_nodes(dflt):
        if isinstance(n, (ast.Assign, ast.AnnAssign)) and isinstance(n.value, ast.Compare) and "hour" in norm(n.value):
            res_names[norm(n.targets[0] if isinstance(n, ast.Assign) else n.target)] = n.value
    for r in (returns(dflt) if tab is None else ()):
        v = r.value
        if isinstance(v, ast.Name) and v.id in res_names:
            v = res_names[v.id]
        if isinstance(v, ast.Compare) and "hour" in norm(v):
            prof = [__import__("spverif.order", fromlist=["eval_points"]).eval_points(
                v, [(lambda e: isinstance(e, ast.Name) and e.id == "hour", h)]) for h in (8, 9, 12, 16, 17, 18)]
            ok = prof == [False, True, True, True, False, False]
            hr = ok
            ctx.ob("R02.5", f"{dflt.qual}: {norm(v)}", (dflt, r), ok,
                   "working iff 9 <= hour < 17" if ok else f"default hours are not 9 <= hour < 17 (hours 8,9,12,16,17,18 -> {prof})",
                   key="R02.5|Project._isDefaultWorkingTime|hours")
    if wk is None or hr is None:
        raise AnchorMissing("_isDefaultWorkingTime: weekend / hours tests not found")
    # working-hours intervals (python fallback; the compiled twin is compared under C13)
    def m(e):
        return isinstance(e, ast.Name) and e.id == "slot_minutes"

    def s_(e):
        return isinstance(e, ast.Name) and e.id == "start_minutes"

    def e_(e):
        return isinstance(e, ast.Name) and e.id == "end_minutes"

    from ..order import eval_points
    if _working_hours_by_table(ctx, wh):
        pass          # decided from the function's ordering table; the pattern form below is the fall-back
    else:
        _working_hours_by_pattern(ctx, wh, m, s_, e_, eval_points)
    _after_working_hours(ctx, repo, wh, dflt)


def _working_hours_by_table(ctx, wh) -> bool:
    """WorkingHours.onShift (Python path, custom hours): its complete decision table over
         - every weak ordering of (slot minute m, interval start s, interval end e)   [27 assignments from a 3-element set],
         - which of today's / yesterday's entries exist (missing, empty, one interval, a non-matching interval first),
         - the weekday (Monday, whose yesterday wraps to Sunday, and a mid-week day)
       compared with:  on shift  iff  today has an interval with (s < e and s <= m < e) or (e <= s and m >= s),
                                  or yesterday has an interval with e <= s and m < e.
       The code touches m, s, e through comparisons only (the evaluator refuses anything else), so the orderings are exhaustive."""
    from ..minieval import Interp, Model, Unknown

    class DT(Model):
        def __init__(self, wd, minute_of_day):
            self.hour, self.minute, self._wd = minute_of_day // 60, minute_of_day % 60, wd

        def weekday(self):
            return self._wd
    if len(wh.params) < 2:
        return False
    slot = wh.params[1]
    tz = wh.params[2] if len(wh.params) > 2 else None

    def iv(s, e):
        return ((s // 60, s % 60), (e // 60, e % 60))

    def same(s, e, m):
        return (s < e and s <= m < e) or (e <= s and m >= s)

    def prev(s, e, m):
        return e <= s and m < e
    V = (300, 600, 900)
    NOISE = iv(0, 1)                 # a plain interval that contains none of the minutes used
    bad = {"cross": [], "normal": [], "shape": [], "prev": [], "no early return": [], "prev iter": []}
    n_cases = 0
    try:
        for wd in (0, 3):
            yd = (wd - 1) % 7
            for s in V:
                for e in V:
                    for m in V:
                        scen = [
                            ("cross" if e <= s else "normal", {wd: [iv(s, e)]}, same(s, e, m)),
                            ("shape", {wd: [NOISE, iv(s, e)]}, same(s, e, m)),
                            ("prev", {yd: [iv(s, e)], wd: [NOISE]}, prev(s, e, m)),
                            ("no early return", {yd: [iv(s, e)]}, prev(s, e, m)),
                            ("no early return", {yd: [iv(s, e)], wd: []}, prev(s, e, m)),
                            ("prev iter", {yd: [NOISE, iv(s, e)], (wd + 1) % 7: [iv(900, 300)], (wd - 2) % 7: [iv(900, 300)]}, prev(s, e, m)),
                        ]
                        for what, hours, want in scen:
                            env = {"self._hours": hours, "self._custom_hours_set": True, "_USE_CYTHON": False, slot: 7}
                            if tz:
                                env[tz] = None
                            it = Interp(env, calls={"self.project.idxToDate": lambda idx, wd=wd, m=m: DT(wd, m)})
                            got = bool(it.result(wh.node.body))
                            n_cases += 1
                            if got != want:
                                bad[what].append((wd, s, e, m, got))
            it = Interp({"self._hours": {}, "self._custom_hours_set": True, "_USE_CYTHON": False, slot: 7, **({tz: None} if tz else {})},
                        calls={"self.project.idxToDate": lambda idx: DT(0, 600)})
            if it.result(wh.node.body):
                bad["shape"].append(("no hours at all", True))
    except Unknown as u:
        ctx.stats["working_hours_table"] = f"not applicable: {u}"
        return False
    ctx.stats["working_hours_table_cases"] = n_cases

    def ex(k):
        return f" (weekday, start, end, minute, answer: {bad[k][0]})" if bad[k] else ""
    ctx.ob("R02.5", f"{wh.qual}: ordering table, intervals that cross midnight (end <= start)", wh, not bad["cross"],
           "same-day part of a wrapping shift: on shift iff m >= start" if not bad["cross"] else
           "a shift with end <= start is not answered by (m >= start) on its own day" + ex("cross"), key="R02.5|WorkingHours.onShift|cross")
    ctx.ob("R02.5", f"{wh.qual}: ordering table, plain intervals (start < end)", wh, not bad["normal"],
           "on shift iff start <= m < end" if not bad["normal"] else "plain-interval answer is not start <= m < end" + ex("normal"),
           key="R02.5|WorkingHours.onShift|normal")
    ctx.ob("R02.5", f"{wh.qual}: ordering table, every interval of the day is examined", wh, not bad["shape"],
           "an interval that does not contain the minute does not end the search" if not bad["shape"] else
           "the same-day loop no longer answers True from one wrapping test and one plain test" + ex("shape"), key="R02.5|WorkingHours.onShift|shape")
    ctx.ob("R02.5", f"{wh.qual}: ordering table, yesterday's spill-over", wh, not bad["prev"],
           "early-morning part of yesterday's wrapping shift: end <= start and m < end" if not bad["prev"] else
           "previous-day spill-over is not (end <= start and m < end)" + ex("prev"), key="R02.5|WorkingHours.onShift|prev")
    ctx.ob("R02.5", f"{wh.qual}: ordering table, days without hours of their own", wh, not bad["no early return"],
           "yesterday's cross-midnight shift is examined whether or not today has hours" if not bad["no early return"] else
           "a weekday without hours of its own returns False before yesterday's cross-midnight shift is examined: the morning tail of "
           "Friday's night shift is lost on Saturday" + ex("no early return"), key="R02.5|WorkingHours.onShift|no early return")
    ctx.ob("R02.5", f"{wh.qual}: ordering table, which day's hours spill over", wh, not bad["prev iter"],
           "hours of the previous weekday ((weekday - 1) mod 7, Monday -> Sunday) and of no other day" if not bad["prev iter"] else
           "spill-over does not come from the previous weekday's hours" + ex("prev iter"), key="R02.5|WorkingHours.onShift|prev iter")
    return True


def _working_hours_by_pattern(ctx, wh, m, s_, e_, eval_points):
    loops = [l for l in own_nodes(wh) if isinstance(l, ast.For) and ("self._hours[" in norm(l.iter) or "self._hours.get(" in norm(l.iter))]
    if len(loops) != 2:
        raise AnchorMissing(f"WorkingHours.onShift: {len(loops)} interval loops, expected 2 (same day, previous day)")
    same, prev = loops

    def rets_true(i):
        return any(isinstance(x, ast.Return) and isinstance(x.value, ast.Constant) and x.value.value is True for x in i.body)

    # same-day loop: `if <wraps>: if <wrapping test>: return True  else: if <plain test>: return True`
    outer = [i for i in same.body if isinstance(i, ast.If)]
    if len(outer) != 1:
        raise AnchorMissing("WorkingHours.onShift: same-day loop does not consist of one wraps/plain decision")
    o = outer[0]
    tab = _table(o.test, e_, s_) if isinstance(o.test, ast.Compare) else None
    ok = tab == {"<": True, "=": True, ">": False}
    ctx.ob("R02.5", f"{wh.qual}: cross-midnight condition {norm(o.test)}", (wh, o), ok,
           "interval wraps past midnight iff end <= start" if ok else f"cross-midnight condition is not end <= start ({tab})",
           key="R02.5|WorkingHours.onShift|crosscond")
    inner_w = [i for i in o.body if isinstance(i, ast.If) and rets_true(i)]
    inner_p = [i for i in o.orelse if isinstance(i, ast.If) and rets_true(i)]
    if len(inner_w) != 1 or len(inner_p) != 1:
        ctx.ob("R02.5", f"{wh.qual}: wrapping / plain interval tests", (wh, o), False,
               "the same-day loop no longer answers True from one wrapping test and one plain test", key="R02.5|WorkingHours.onShift|shape")
    else:
        t = inner_w[0].test
        prof = [eval_points(t, [(m, p), (s_, 20), (e_, 10)]) for p in (5, 10, 15, 20, 25)]
        prof2 = [eval_points(t, [(m, p), (s_, 10), (e_, 10)]) for p in (5, 10, 15)]
        # a shift that crosses midnight covers the EVENING of its own day (m >= start); its morning part belongs to the next
        # day and is answered by the previous-day loop -- counting it on the same day too makes the first morning of the
        # week working although no shift began the evening before
        ok = prof == [False, False, False, True, True] and prof2 == [False, True, True]
        ctx.ob("R02.5", f"{wh.qual}: wrapping interval {norm(t)}", (wh, inner_w[0]), ok,
               "same-day part of a wrapping shift: on shift iff m >= start" if ok else
               f"the same-day test of a wrapping shift is not (m >= start): {prof} / {prof2}; `or m < end` also books the early morning "
               "of the shift's own day (Monday 00:00-06:00 of a mon-fri night shift)",
               key="R02.5|WorkingHours.onShift|cross")
        t = inner_p[0].test
        prof = interval_profile(t, m, s_, e_)
        ok = prof == [False, True, True, False, False]
        ctx.ob("R02.5", f"{wh.qual}: plain interval {norm(t)}", (wh, inner_p[0]), ok,
               "on shift iff start <= m < end" if ok else f"plain-interval test is not start <= m < end: {prof}",
               key="R02.5|WorkingHours.onShift|normal")
    # the previous-day loop is reached on days without hours of their own (Saturday morning after Friday's night shift)
    gwh = cfg_of(wh)
    early = [n for n in gwh.nodes if n.kind == "stmt" and isinstance(n.ast, ast.Return) and isinstance(n.ast.value, ast.Constant)
             and n.ast.value.value is False and n.ast.lineno < prev.lineno
             and any("_hours" in norm(i.test) and "weekday" in norm(i.test) for (i, b) in __import__("spverif.rules.common", fromlist=["enclosing_ifs"]).enclosing_ifs(n.ast, wh.node))]
    ctx.ob("R02.5", f"{wh.qual}: the previous-day loop is reached on days without hours of their own", (wh, prev), not early,
           "no early `return False` for a weekday without hours before yesterday's spill-over is examined" if not early else
           "a weekday without hours of its own returns False before yesterday's cross-midnight shift is examined: the morning tail of "
           "Friday's night shift is lost on Saturday",
           key="R02.5|WorkingHours.onShift|no early return")
    pv = [i for i in prev.body if isinstance(i, ast.If) and rets_true(i)]
    if len(pv) != 1:
        ctx.ob("R02.5", f"{wh.qual}: previous-day spill-over test", (wh, prev), False,
               "the previous-day loop no longer answers True from exactly one spill-over test", key="R02.5|WorkingHours.onShift|prev shape")
    else:
        t = pv[0].test
        prof = [eval_points(t, [(m, p), (s_, 20), (e_, 10)]) for p in (5, 10, 15)]       # wrapping
        prof2 = [eval_points(t, [(m, p), (s_, 10), (e_, 20)]) for p in (5, 15, 25)]      # plain
        ok = prof == [True, False, False] and prof2 == [False, False, False]
        ctx.ob("R02.5", f"{wh.qual}: previous-day spill-over {norm(t)}", (wh, pv[0]), ok,
               "early-morning part of yesterday's wrapping shift: end <= start and m < end" if ok else
               f"previous-day spill-over test is not (end <= start and m < end): {prof} / {prof2}",
               key="R02.5|WorkingHours.onShift|prev")
    ok = "prev_weekday" in norm(prev.iter)
    ctx.ob("R02.5", f"{wh.qual}: spill-over loop iterates {norm(prev.iter)}", (wh, prev), ok, "hours of the previous weekday" if ok else
           "spill-over loop does not iterate the previous weekday's hours", key="R02.5|WorkingHours.onShift|prev iter")
    # previous weekday = (weekday - 1) mod 7 in Python semantics
    pw = [n for n in own_nodes(wh) if isinstance(n, ast.Assign) and norm(n.targets[0]) == "prev_weekday"]
    ok = any(norm(n.value).replace(" ", "") in ("(weekday-1)%7", "(weekday+6)%7") for n in pw)
    ctx.ob("R02.5", f"{wh.qual}: previous weekday {[norm(n.value) for n in pw]}", wh, ok,
           "previous weekday = (weekday - 1) mod 7" if ok else "previous weekday is not (weekday - 1) mod 7",
           key="R02.5|WorkingHours.onShift|prev_weekday")


def _after_working_hours(ctx, repo, wh, dflt):
    onshift = repo.func("ResourceScenario.onShift")
    # ---------------------------------------------------------------- R02.5 (cont.) the project's slot table is opened by the default calendar itself:
    # every `table[i] = None` (slot open) in Project.initScoreboards is decided by _isDefaultWorkingTime of that slot's date -- not by a
    # second classification of the slot (its position in the day, say), which is only right for projects that start at midnight UTC
    isb = repo.func("Project.initScoreboards")
    fdi = ctx.dep.of(isb)
    opens = [(atoms, node) for fld in ("scoreboard", "scoreboardNoLeaves") for (atoms, node, tgt) in heap_writes(ctx, isb, fld)
             if isinstance(node.ast, ast.Assign) and isinstance(node.ast.value, ast.Constant) and node.ast.value.value is None
             and isinstance(node.ast.targets[0], ast.Subscript)]
    if not opens:
        raise AnchorMissing("Project.initScoreboards: no write that opens a slot (table[i] = None) found")
    for atoms, node in opens:
        d = full(atoms) | {a.lstrip("~") for a in fdi.ctl_atoms(node)}
        ok = "call:_isDefaultWorkingTime" in d and "call:idxToDate" in d
        ctx.ob("R02.5", f"{isb.qual}: {norm(node.ast)} decided by the default calendar", (isb, node.ast), ok,
               "the slot is opened iff _isDefaultWorkingTime(idxToDate(i))" if ok else
               "a slot of the project table is opened without asking the default calendar about that slot's date: a second classification "
               "(by the slot's position in the day / week) agrees with it only for projects that start at midnight on the assumed weekday",
               key=key_of("R02.5", isb, None, "opened by default calendar " + norm(node.ast.targets[0])))
    # ---------------------------------------------------------------- R02.6
    fdw = ctx.dep.of(wh)
    for n in own_nodes(wh):
        if isinstance(n, ast.Assign) and norm(n.targets[0]) in ("weekday", "slot_minutes"):
            d = full(fdw.deps_of(n.value))
            ok = "call:_convert_to_timezone" in d
            ctx.ob("R02.6", f"{wh.qual}: {norm(n)}", (wh, n), ok,
                   "taken from the time converted to the resource's zone" if ok else
                   "weekday / minute of the slot are not taken from the zone-converted time",
                   key=key_of("R02.6", wh, n))
    # ---------------------------------------------------------------- R02.8 memo-key soundness in the calendar decision
    memo_rule(ctx, "R02.8")
    blocked_interval_rule(ctx, "R02.13")
    day_range_rule(ctx, "R02.14")
    aware_conversion_rule(ctx, "R02.15")
    ctx.floor("R02.14", 5)
    # ---------------------------------------------------------------- R02.10 project-level working hours reach the default calendar
    # the grammar accepts `workinghours` as a project attribute and the builder stores it; the calendar used for resources
    # without hours of their own must consult it
    grammar = open(__import__("os").path.join(repo.root, "scriptplan", "parser", "tjp.lark")).read()
    import re as _re
    m_ = _re.search(r"^project_attribute:(.*?)^\S", grammar, _re.S | _re.M)
    accepts = bool(m_ and _re.search(r"\bworkinghours\b", m_.group(1)))
    atoms_d = full(ctx.dep.summary(dflt).ret) | full(ctx.dep.summary(repo.func("Project.isWorkingTime")).ret)
    consults = bool({"pattr:workinghours", "str:workinghours", "field:workinghours"} & atoms_d)
    if accepts:
        ctx.ob("R02.10", f"{dflt.qual}: the default calendar consults the project's workinghours", dflt, consults,
               "project-level working hours decide the default calendar" if consults else
               "the grammar accepts `workinghours` in the project header and the builder stores it, but the default calendar is the "
               "constant Mon-Fri 9-17: resources without hours of their own are booked outside the declared project working hours",
               key="R02.10|Project._isDefaultWorkingTime|project workinghours")
    else:
        ctx.ob("R02.10", "the grammar does not accept project-level workinghours", dflt, None, "nothing to apply", info=True)
    # ---------------------------------------------------------------- R02.11 blocking bookings: every duration unit of the grammar is converted
    import re as _re2
    mu = _re2.search(r"^DURATION_UNIT:\s*/\[([a-z]+)\]\+/", grammar, _re2.M)
    if not mu:
        raise AnchorMissing("tjp.lark: DURATION_UNIT terminal not found")
    letters = set(mu.group(1))
    units = {u for u in ("min", "h", "d", "w", "m", "y") if set(u) <= letters}
    apa = repo.func("ModelBuilder._apply_property_attributes")
    bk = [i for i in own_nodes(apa) if isinstance(i, ast.If) and norm(i.test).replace("'", '"') == 'key == "booking"']
    if not bk:
        raise AnchorMissing("_apply_property_attributes: booking branch not found")
    handled, fallbacks = set(), []
    for i in ast.walk(bk[0]):
        if isinstance(i, ast.If) and isinstance(i.test, ast.Compare) and norm(i.test.left) == "unit" and isinstance(i.test.ops[0], ast.Eq):
            c = i.test.comparators[0]
            if isinstance(c, ast.Constant):
                handled.add(c.value)
            if i.orelse and not (len(i.orelse) == 1 and isinstance(i.orelse[0], ast.If)):
                fallbacks.append(i.orelse)
    # table form: {unit: converter}.get(unit) / [unit] -- the keys are the handled units; a missing key must be an error
    for d_ in ast.walk(bk[0]):
        if isinstance(d_, ast.Dict) and d_.keys and all(isinstance(k, ast.Constant) and isinstance(k.value, str) for k in d_.keys) \
                and len({k.value for k in d_.keys} & units) >= 2:
            handled |= {k.value for k in d_.keys}
            holder = getattr(d_, "_parent", None)
            nm = None
            if isinstance(holder, (ast.Assign, ast.AnnAssign)):
                tg = holder.targets[0] if isinstance(holder, ast.Assign) else holder.target
                nm = tg.id if isinstance(tg, ast.Name) else None
            for c_ in ast.walk(bk[0]):
                if isinstance(c_, ast.Call) and isinstance(c_.func, ast.Attribute) and c_.func.attr == "get" and \
                        ((nm and norm(c_.func.value) == nm) or c_.func.value is d_):
                    res = getattr(c_, "_parent", None)
                    rn = None
                    if isinstance(res, (ast.Assign, ast.AnnAssign)):
                        tg = res.targets[0] if isinstance(res, ast.Assign) else res.target
                        rn = tg.id if isinstance(tg, ast.Name) else None
                    guarded = len(c_.args) == 1 and not c_.keywords and rn is not None and any(
                        isinstance(i2, ast.If) and norm(i2.test) in (f"{rn} is None", f"not {rn}")
                        and any(isinstance(x, ast.Raise) for st in i2.body for x in ast.walk(st)) for i2 in ast.walk(bk[0]))
                    if not guarded:
                        fallbacks.append([c_])
    silent = [f for f in fallbacks if not any(isinstance(x, ast.Raise) for st in f for x in ast.walk(st))]
    ok = units <= handled and not silent
    ctx.ob("R02.11", f"{apa.qual}: booking duration units handled {sorted(handled)} of {sorted(units)}", (apa, bk[0]), ok,
           "every unit the grammar accepts is converted; an unknown unit is an error" if ok else
           f"units {sorted(units - handled)} fall through to a default conversion: a booking of one week blocks the resource for one hour",
           key="R02.11|_apply_property_attributes|booking units")
    # ---------------------------------------------------------------- R02.12 leaves of a shift apply to the resources working it
    shift_ifs = [i for i in own_nodes(onshift) if isinstance(i, ast.If) and norm(i.test) == "shift"]
    if not shift_ifs:
        raise AnchorMissing("ResourceScenario.onShift: shift branch not found")
    for i in shift_ifs:
        def iter_text(l, i=i):
            """the loop's iterable with local names replaced by their nearest preceding definition inside the branch"""
            t = norm(l.iter).replace('"', "'")
            for nm in {x.id for x in ast.walk(l.iter) if isinstance(x, ast.Name)}:
                ds = [d for d in ast.walk(i) if isinstance(d, ast.Assign) and len(d.targets) == 1 and isinstance(d.targets[0], ast.Name)
                      and d.targets[0].id == nm and d.lineno < l.lineno]
                if ds:
                    t += " <- " + norm(max(ds, key=lambda d: d.lineno).value).replace('"', "'")
            return t
        lv = [l for l in ast.walk(i) if isinstance(l, ast.For) and "shift.get('leaves'" in iter_text(l)
              and any(isinstance(x, ast.Return) and isinstance(x.value, ast.Constant) and x.value.value is False for x in ast.walk(l))]
        # ... and before the branch answers from the shift's hours
        rets = [x for x in ast.walk(i) if isinstance(x, ast.Return)]
        ok = bool(lv) and all(l.lineno < min(r.lineno for r in rets if not any(r is y for y in ast.walk(l))) for l in lv)
        ctx.ob("R02.12", f"{onshift.qual}: shift branch consults the shift's leaves", (onshift, i), ok,
               "a slot inside a leave of the shift is off shift for everybody working that shift" if ok else
               "the shift branch answers from the shift's working hours only: leaves declared inside the shift are ignored and its resources "
               "are booked on the shift's holidays",
               key="R02.12|ResourceScenario.onShift|shift leaves")
    sa = repo.func("TJPTransformer.shift_attr")
    keys = {const_ for r in returns(sa) if isinstance(r.value, ast.Tuple) and r.value.elts and isinstance(r.value.elts[0], ast.Constant)
            for const_ in [r.value.elts[0].value]}
    m2 = _re.search(r"^shift_attr:(.*?)^\S", grammar, _re.S | _re.M)
    alts = set(_re.findall(r'"(workinghours|leaves)"', m2.group(1))) if m2 else set()
    ok = bool(alts) and alts <= keys
    ctx.ob("R02.12", f"{sa.qual}: grammar alternatives {sorted(alts)} -> keyed results {sorted(keys)}", sa, ok,
           "every shift attribute the grammar accepts reaches the model builder under its key" if ok else
           f"the transformer does not hand {sorted(alts - keys)} of a shift body to the model builder (the statement is parsed and dropped)",
           key="R02.12|TJPTransformer.shift_attr|keys")
    # ---------------------------------------------------------------- R02.7 blocked scoreboard entries (shared with C01 R01.5)
    # a scoreboard entry that is not None (leave / vacation marker or another task) is offered only after a partial release
    from .c01 import partial_reoffer_rule
    partial_reoffer_rule(ctx, "R02.7")
    ctx.floor("R02.7", 1)
    from .c01 import marker_never_offered_rule
    marker_never_offered_rule(ctx, "R02.9")
    ctx.floor("R02.9", 1)
    ctx.floor("R02.1", 16)
    ctx.floor("R02.3", 5)
    ctx.floor("R02.5", 9)
    ctx.floor("R02.6", 2)
