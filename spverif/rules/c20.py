"""C20 — CLI runs leave no trace and do not interfere with each other.

Decided (structural, necessary conditions):
  R20.1  typestate of every temp file/dir acquired under `plan report` over normal, exceptional and
         SystemExit edges: released or returned on every path
  R20.2  census of file-creating calls reachable from `plan report` (after constant pruning of the
         argparse flags run_scriptplan leaves at their defaults): each path derives from a tempfile
         result or the user's --output; a path component taken from project text passes a sanitiser
  R20.3  names created in shared directories come from mkstemp/mkdtemp/token_hex; the report output
         directory handed to the engine is the private temp dir and is installed before generation
Not decided: behaviour of N truly concurrent processes (they share nothing but these files).
"""
from __future__ import annotations

import ast

from ..cfg import cfg_of
from ..core import Ctx, key_of
from ..dep import data, full
from ..effects import ArgConst, PrunedReach, sink_of
from ..model import AnchorMissing, dotted, norm, own_nodes
from ..typestate import TempTypestate, make_sysexit_reach

META = {
    "level": "other",
    "explanation": "Static typestate / effect analysis of the `plan report` command: every temporary file or "
                   "directory is followed over all CFG paths (normal, exception, SystemExit raised by callees) to a "
                   "release or ownership transfer; every file-creating call reachable from the command is "
                   "enumerated and its path expression's dataflow origin is classified. Necessary conditions only."
                   " Round 4: the output directory is not taken from the environment in preference to --output-dir.",
    "assumptions": ["Path(name)/str(name) and plain moves cannot raise (DESIGN A.3)",
                    "exceptions raised inside an except handler (double faults) are out of scope",
                    "KeyboardInterrupt at arbitrary points is reported as informational, not as a violation"],
}

SANITISERS = ("basename", "secure_filename")


def plan_env(ctx: Ctx):
    repo = ctx.repo
    entry = repo.func("report", rel="scriptplan/cli/plan.py")
    argc = ArgConst(repo)
    if not argc.ok:
        ctx.note(f"argparse constant propagation unavailable: {argc.reason}; no pruning applied")
    pr = PrunedReach(repo, ctx.cg, argc if argc.ok else None)
    prev = pr.reach(entry)
    plan_mod = repo.module("scriptplan/cli/plan.py")
    class_table = {c.name: (c.base_names[0].split(".")[-1] if c.base_names else None) for c in plan_mod.classes.values()}
    return entry, argc, pr, prev, class_table


def r20_1(ctx: Ctx, entry, pr, prev, class_table):
    sx = make_sysexit_reach(ctx, pr, entry)
    plan_funcs = [f for f in prev if f.module.rel == "scriptplan/cli/plan.py"]
    n_res = 0
    for fn in sorted(plan_funcs, key=lambda f: f.lineno):
        ts = TempTypestate(fn, ctx, pr, sx, class_table)
        if not ts.acq:
            continue
        leaks = ts.run()
        ctx.stats.setdefault("typestate_states", 0)
        ctx.stats["typestate_states"] += ts.states_explored
        by_res = {}
        for lk in leaks:
            by_res.setdefault((lk.res_node.id, lk.end_kind), []).append(lk)
        for rid, (desc, aliases) in sorted(ts.acq.items()):
            n_res += 1
            node = ts.g.nodes[rid]
            kinds = ["return", "exit-call", "exception", "base-exception"]
            for kind in kinds:
                lks = by_res.get((rid, kind), [])
                inst = f"{fn.qual}: {desc} -> {sorted(aliases)} / end={kind}"
                if not lks:
                    ctx.ob("R20.1", inst, (fn, node.ast), True,
                           f"every {kind} path releases or transfers the resource")
                    continue
                vias = sorted({(lk.via.lineno if lk.via is not None else lk.end_node.lineno) for lk in lks})
                detail = (f"temp resource acquired at line {node.lineno} is still owned when the function is left by "
                          f"{kind} (offending statement(s) at line(s) {vias})")
                wit = {"acquired": fn.loc(node.ast), "escape_lines": vias}
                if kind == "base-exception" and getattr(lks[0], "sysx", None):
                    wit["system_exit_chain"] = lks[0].sysx[0][1]
                    detail += "; SystemExit raised in a callee is not caught by `except Exception`: " + " > ".join(lks[0].sysx[0][1])
                ctx.ob("R20.1", inst, (fn, node.ast), False, detail, witness=wit,
                       key=key_of("R20.1", fn, node.ast, kind))
    # informational: KeyboardInterrupt
    g = cfg_of(entry)
    has_finally = any(isinstance(n, ast.Try) and n.finalbody for n in own_nodes(entry))
    ctx.ob("R20.1", f"{entry.qual}: cleanup on KeyboardInterrupt", entry, None,
           "cleanup lives in `except Exception` handlers" + ("" if not has_finally else " and a finally block")
           + "; an asynchronous KeyboardInterrupt is not covered by the property's failure paths", info=True)
    return n_res


def _path_origin(ctx: Ctx, fn, expr) -> set:
    fd = ctx.dep.of(fn)
    return fd.deps_of(expr, control=False)


def r20_2(ctx: Ctx, entry, pr, prev):
    """write census"""
    n = 0
    for fn in sorted(prev, key=lambda f: f.key):
        for c in pr.live_calls(fn):
            s = sink_of(fn, c)
            if not s or s[0] not in ("fwrite", "makedirs", "fdopen", "mkstemp", "mkdtemp"):
                continue
            n += 1
            kind, what = s
            inst = f"{fn.qual}: {norm(c)[:80]}"
            if kind in ("mkstemp", "mkdtemp"):
                # name uniqueness comes from the OS; directory must be the default temp dir
                dirarg = [k for k in c.keywords if k.arg == "dir"] or (c.args[2:3] if kind == "mkstemp" else c.args[2:3])
                ctx.ob("R20.2", inst, (fn, c), not dirarg, "tempfile in the default temp directory" if not dirarg
                       else "tempfile created in an explicit directory", key=key_of("R20.2", fn, c))
                continue
            patharg = c.args[0] if c.args else None
            if patharg is None:
                ctx.ob("R20.2", inst, (fn, c), False, "file-creating call without a visible path", key=key_of("R20.2", fn, c))
                continue
            atoms = full(_path_origin(ctx, fn, patharg))
            from_temp = bool(atoms & {"call:mkstemp", "call:mkdtemp"})
            from_user_output = fn is entry and "param:output" in atoms
            from_outputdir = "field:outputDir" in atoms
            ok = from_temp or from_user_output or from_outputdir
            detail = ("path derives from " + ", ".join(x for x, f_ in (("a tempfile result", from_temp),
                      ("the user's --output", from_user_output), ("project.outputDir (R20.3 ties it to the temp dir)", from_outputdir)) if f_)
                      ) if ok else f"path of a file-creating call has no temp/--output origin: atoms {sorted(a for a in atoms if a.startswith(('param', 'field', 'pattr')))[:8]}"
            ctx.ob("R20.2", inst, (fn, c), ok, detail, key=key_of("R20.2", fn, c))
    ctx.stats["file_creating_calls"] = n
    # sanitiser on text-derived components
    gp = ctx.repo.func("Report._get_output_path")
    fd = ctx.dep.of(gp)
    for node in own_nodes(gp):
        if isinstance(node, ast.Return) and node.value is not None:
            atoms = data(fd.deps_of(node.value))
            text_derived = sorted(a for a in atoms if a in ("field:name", "field:id", "field:fullId", "pattr:name", "pattr:id"))
            sanitised = any(a.startswith("call:") and (a[5:] in SANITISERS or "sanit" in a.lower() or "safe" in a.lower())
                            for a in atoms)
            # Path(x).name idiom
            for sub in ast.walk(gp.node):
                if isinstance(sub, ast.Attribute) and sub.attr == "name" and isinstance(sub.value, ast.Call) \
                        and dotted(sub.value.func) in ("Path", "PurePath", "pathlib.Path"):
                    sanitised = True
            ok = not text_derived or sanitised
            ctx.ob("R20.2s", f"{gp.qual}: {norm(node.value)}", (gp, node), ok,
                   "output path component comes from the report name/id in the project text "
                   f"({text_derived}) without a sanitiser: a name like '../x' escapes the private output directory"
                   if not ok else "text-derived component is sanitised or absent",
                   key=key_of("R20.2s", gp, node.value))
    return n


def r20_3(ctx: Ctx, entry, argc, pr):
    repo = ctx.repo
    # (a) run_scriptplan is called from report with the temp dir as output_dir
    fd = ctx.dep.of(entry)
    found = False
    for c in pr.live_calls(entry):
        if dotted(c.func) == "run_scriptplan":
            found = True
            arg = c.args[1] if len(c.args) > 1 else next((k.value for k in c.keywords if k.arg == "output_dir"), None)
            atoms = full(fd.deps_of(arg)) if arg is not None else set()
            ok = "call:mkdtemp" in atoms
            ctx.ob("R20.3", f"{entry.qual}: {norm(c)}", (entry, c), ok,
                   "engine output directory derives from mkdtemp" if ok else
                   "engine output directory is not the private temp dir (reports would land in a shared directory)",
                   key=key_of("R20.3", entry, c))
    if not found:
        raise AnchorMissing("call to run_scriptplan not found in plan.report")
    # (b) output_dir reaches the parser: constant propagation saw --output-dir in the literal argv
    ok = argc.ok and "output_dir" in argc.given
    rs = repo.func("run_scriptplan", rel="scriptplan/cli/main.py")
    ctx.ob("R20.3", "run_scriptplan passes --output-dir", rs, ok,
           "argv built by run_scriptplan contains --output-dir" if ok else f"--output-dir not passed ({argc.reason})",
           key="R20.3|run_scriptplan|--output-dir")
    # (c) generate_reports installs args.output_dir into project.outputDir before any report.generate()
    gr = repo.func("ScriptPlan.generate_reports")
    g = cfg_of(gr)
    assign_nodes, gen_nodes = [], []
    for n in g.nodes:
        if n.kind == "stmt" and isinstance(n.ast, ast.Assign):
            for t in n.ast.targets:
                if isinstance(t, ast.Attribute) and t.attr == "outputDir":
                    assign_nodes.append(n)
        if n.ast is not None and n.kind == "stmt":
            for c in ast.walk(n.ast):
                if isinstance(c, ast.Call) and isinstance(c.func, ast.Attribute) and c.func.attr == "generate":
                    gen_nodes.append(n)
    fdg = ctx.dep.of(gr)
    dom = g.dominators()
    for gn in gen_nodes:
        ok = any(a.id in dom[gn.id] and "field:output_dir" in full(fdg.deps_of(a.ast.value)) for a in assign_nodes)
        # ... and the directory is the one the command passed, not one named by the process environment (shared by every
        # concurrent invocation and outside the private temporary directory)
        env = [a for a in assign_nodes if a.id in dom[gn.id] and ({"field:environ", "call:getenv"} & full(fdg.deps_of(a.ast.value)))]

        def env_first(fn_node):
            """some assignment of the function lets the environment win over what was passed: `environ.get(K, passed)` / `env or passed`
            (as a fallback AFTER the passed value, `passed or environ.get(K)`, it is dead code for this command, which always passes one)"""
            for x in ast.walk(fn_node):
                if isinstance(x, ast.Assign):
                    v = x.value
                    if isinstance(v, ast.Call) and "environ" in norm(v.func) and len(v.args) >= 2:
                        return True
                    if isinstance(v, ast.Call) and norm(v.func).endswith("getenv") and len(v.args) >= 2:
                        return True
                    if isinstance(v, ast.BoolOp) and isinstance(v.op, ast.Or) and ("environ" in norm(v.values[0]) or "getenv" in norm(v.values[0])):
                        return True
            return False
        if env and not env_first(gr.node):
            env = []
        if env:
            ctx.ob("R20.3", f"{gr.qual}: {norm(env[0].ast)[:60]} depends on the environment", (gr, env[0].ast), False,
                   "the output directory can be taken from an environment variable in preference to --output-dir: the report files of "
                   "concurrent runs land in one shared directory, outside the private temporary directory, and stay there",
                   key=key_of("R20.3", gr, None, "output dir from environment"))
        ctx.ob("R20.3", f"{gr.qual}: outputDir installed before {norm(gn.ast)[:50]}", (gr, gn.ast), ok,
               "project.outputDir := args.output_dir dominates report.generate()" if ok else
               "report.generate() can run with the default './' output directory (writes into the cwd)",
               key=key_of("R20.3", gr, gn.ast))
    if not gen_nodes:
        raise AnchorMissing("no report.generate() call in ScriptPlan.generate_reports")
    # (d) no fixed or pid-based file names under plan.report: the random id comes from secrets
    ca = repo.func("create_auto_report_file")
    fda = ctx.dep.of(ca)
    for node in own_nodes(ca):
        if isinstance(node, ast.Return) and node.value is not None and isinstance(node.value, ast.Tuple) and len(node.value.elts) >= 2:
            atoms = full(fda.deps_of(node.value.elts[1]))
            ok = bool(atoms & {"call:token_hex", "call:uuid4", "call:token_urlsafe"})
            ctx.ob("R20.3", f"{ca.qual}: report id {norm(node.value.elts[1])}", (ca, node), ok,
                   "auto report id derives from a CSPRNG token" if ok else
                   "auto report id is not random: concurrent runs would write the same report file name",
                   key=key_of("R20.3", ca, node.value.elts[1]))


def run(ctx: Ctx):
    entry, argc, pr, prev, class_table = plan_env(ctx)
    ctx.stats["functions_reachable_from_plan_report"] = len(prev)
    ctx.stats["branches_decided_by_constants"] = 0
    n_res = r20_1(ctx, entry, pr, prev, class_table)
    r20_2(ctx, entry, pr, prev)
    r20_3(ctx, entry, argc, pr)
    ctx.stats["branches_decided_by_constants"] = len(set(pr.pruned_branches))
    ctx.floor("R20.1", 3 * 4)      # 4 temp resources today (stdin copy, output dir, auto file x2 frames)
    ctx.floor("R20.2", 6)
    ctx.floor("R20.3", 4)
