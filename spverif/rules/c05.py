"""C05 — daily and weekly limits are never exceeded.

Decided:
  R05.1  checked = incremented: the limit holders consulted on the booking path (resource, every
         ancestor resource, task + ancestors) are exactly the holders whose counters are incremented by a
         booking, with the same resource argument; both walk the whole ancestor chain
  R05.2  every booking passes all three ok() families (facts established under C01/C03 are re-stated)
  R05.3  horizon: counters derived from the project end at parse time must keep counting in the part
         of the horizon Project.schedule adds: no fail-open answer and no dropped increment beyond the
         original end for limits on the project's default interval
  R05.4  Limit.ok for an upper limit answers count < value; ok and inc index the counters with the
         same period function; the value is converted hours -> slots with the slot length
  R05.5  counters are reset by prepareScheduling before each scenario
  R05.6  the daily / weekly period index is a difference of calendar DATES (not date-times)
  R05.7  Limit.copy passes every constructor argument from the same-named field (per-scenario copies keep all settings)
  R05.8  a slot is booked only under the task-limit fact for that slot and resource (shared with C03 R03.6)
Not decided: the per-day / per-week sums themselves.
"""
from __future__ import annotations

import ast

from ..cfg import cfg_of
from ..core import Ctx, key_of
from ..dep import data, full
from ..model import AnchorMissing, const_str, dotted, norm, own_nodes
from ..order import order_table
from .common import calls_named, facts_of, returns, maybe_true

META = {
    "level": "other",
    "technique": "static analysis: sibling agreement of check/increment sites, must-fact dominance in Limit.ok/inc, order tables, dependence closure",
    "explanation": "Rule instances over ResourceScenario.available/book, TaskScenario.limitsOk/incLimits/getAllLimits and "
                   "Limit.ok/inc/_idx_to_sb_idx/Limits.setLimit: the set of limit holders checked equals the set incremented, "
                   "ancestor chains are walked completely, the upper-limit comparison is strict, and no path answers "
                   "'allowed' merely because the slot lies beyond the horizon known at parse time."
                   " Also: the period index is typed as a difference of calendar dates (returns enumerated per period value by three-valued evaluation of the branch tests) and must depend on the interval start; Limit.copy passes every constructor field and aliases no counter list; the booking guard facts of C03."
                   " Round 3: duration-unit cross-check (minutes are not months), process-state rule."
                   " Round 4: limit increments on every booking path, hours to slots never rounded up.",
    "assumptions": [],
}


def period_index_rule(ctx: Ctx, rid: str):
    """Limit._idx_to_sb_idx: the daily / weekly period index is a difference of calendar dates (C05 R05.6 / C07 R07.7)."""
    repo = ctx.repo
    idxf = repo.func("Limit._idx_to_sb_idx")
    from ..order import local_resolver
    res_i = local_resolver(idxf.node)

    def kind(e, depth=0):
        """DT datetime | D date | ORD ordinal | TD | ?"""
        if depth > 6:
            return "?"
        if isinstance(e, ast.Call) and isinstance(e.func, ast.Attribute):
            if e.func.attr == "date" and not e.args:
                return "D"
            if e.func.attr == "toordinal":
                return "ORD"
            if e.func.attr == "replace" and any(k.arg in ("hour", "minute") for k in e.keywords):
                return kind(e.func.value, depth + 1)
        if isinstance(e, ast.Call) and (dotted(e.func) or "").split(".")[-1] == "timedelta":
            return "TD"
        if isinstance(e, ast.Attribute) and norm(e) in ("self.interval_start", "self.interval_end"):
            return "DT"
        if isinstance(e, ast.Name):
            ks = {kind(v, depth + 1) for v in res_i(e)}
            return ks.pop() if len(ks) == 1 else "?"
        if isinstance(e, ast.BinOp) and isinstance(e.op, (ast.Add, ast.Sub)):
            a, b = kind(e.left, depth + 1), kind(e.right, depth + 1)
            if b == "TD":
                return a
            if a == "TD":
                return b
        return "?"
    n_idx = 0

    from .common import module_consts
    mconst = module_consts(idxf.module)

    def _const(e):
        try:
            return eval(compile(ast.Expression(e), "<const>", "eval"), {"__builtins__": {}}, dict(mconst))
        except Exception:
            return None

    def _truth(test, P):
        """value of a branch condition when self.period == P: True / False / None (unknown)"""
        if isinstance(test, ast.Compare) and len(test.ops) == 1 and norm(test.left) == "self.period" and isinstance(test.ops[0], (ast.Eq, ast.NotEq)):
            k = _const(test.comparators[0])
            if k is None:
                return None
            return (k == P) if isinstance(test.ops[0], ast.Eq) else (k != P)
        if isinstance(test, ast.BoolOp):
            vs = [_truth(v, P) for v in test.values]
            if isinstance(test.op, ast.And):
                return False if any(v is False for v in vs) else (True if all(v is True for v in vs) else None)
            return True if any(v is True for v in vs) else (False if all(v is False for v in vs) else None)
        if isinstance(test, ast.UnaryOp) and isinstance(test.op, ast.Not):
            v = _truth(test.operand, P)
            return None if v is None else not v
        return None

    def _reach(stmts, P, out):
        """returns reachable when self.period == P; result: True if the block always returns"""
        for st in stmts:
            if isinstance(st, ast.Return):
                out.append(st)
                return True
            if isinstance(st, ast.If):
                t = _truth(st.test, P)
                a = _reach(st.body, P, out) if t is not False else None
                b = _reach(st.orelse, P, out) if t is not True else None
                if (t is True and a) or (t is False and b) or (t is None and a and b):
                    return True
            elif isinstance(st, (ast.For, ast.While, ast.With, ast.Try)):
                for sub in ast.walk(st):
                    if isinstance(sub, ast.Return):
                        out.append(sub)
        return False
    per_returns = []
    for P in (86400, 604800):
        rs = []
        _reach(idxf.node.body, P, rs)
        per_returns += [(P, r_) for r_ in rs]
    for per, r in per_returns:
        if r.value is None:
            continue
        n_idx += 1
        name = "daily" if per == 86400 else "weekly"
        exprs, seen_n = [r.value], set()
        for e_ in exprs:
            for x in ast.walk(e_):
                if isinstance(x, ast.Name) and x.id not in seen_n and len(exprs) < 12:
                    seen_n.add(x.id)
                    exprs += [v for v in res_i(x) if kind(v) == "?"]
        diffs = [x for e_ in exprs for x in ast.walk(e_) if isinstance(x, ast.BinOp) and isinstance(x.op, ast.Sub)
                 and {kind(x.left), kind(x.right)} <= {"D", "DT", "ORD"}]
        fdi_ = ctx.dep.of(idxf)
        if "field:interval_start" not in data(fdi_.deps_of(r.value)):
            ctx.ob(rid, f"{idxf.qual}: {name} index {norm(r.value)[:60]}", (idxf, r), False,
                   f"the {name} period index does not depend on the interval start: periods are counted as fixed-length blocks from "
                   "the first slot instead of calendar days / weeks, so for a project that does not start at midnight (on a Monday) one "
                   "calendar period is split over two counters and the limit can be exceeded",
                   key=key_of(rid, idxf, None, f"{name} index"))
            continue
        if not diffs:
            from ..model import Inconclusive
            raise Inconclusive(f"Limit._idx_to_sb_idx: {name} index {norm(r.value)[:60]} is not a difference of two dates the rule can type")
        for x in diffs:
            ks = (kind(x.left), kind(x.right))
            ok = ks in (("D", "D"), ("ORD", "ORD"))
            ctx.ob(rid, f"{idxf.qual}: {name} index {norm(x)[:60]} : {ks[0]} - {ks[1]}", (idxf, r), ok,
                   "period index is a difference of calendar dates" if ok else
                   f"the {name} period index is a difference of date-TIMES ({ks[0]} - {ks[1]}): it counts elapsed 24-hour spans from the "
                   "interval start's time of day, so a calendar day / week is split over two counters and the limit can be "
                   "exceeded within one calendar period",
                   key=key_of(rid, idxf, None, f"{name} index"))
    if n_idx < 2:
        raise AnchorMissing("Limit._idx_to_sb_idx: daily / weekly branches not found")



def limit_copy_rule(ctx: Ctx, rid: str):
    """Limit.copy passes every constructor argument from the same-named field (C05 R05.7 / C16 / C14)."""
    repo = ctx.repo
    cp = repo.func("Limit.copy")
    init = repo.func("Limit.__init__")
    params = [a.arg for a in init.node.args.args if a.arg != "self"] + [a.arg for a in init.node.args.kwonlyargs]
    for r in returns(cp):
        c = r.value
        if isinstance(c, ast.Name):
            from ..order import local_resolver
            vals = local_resolver(cp.node)(c)
            nm = c.id
            if len(vals) == 1:
                c = vals[0]
            # what is stored into the new object after construction must not alias this object's mutable state
            for st in own_nodes(cp):
                if isinstance(st, ast.Assign) and isinstance(st.targets[0], ast.Attribute) and norm(st.targets[0].value) == nm \
                        and isinstance(st.value, ast.Attribute) and norm(st.value.value) == "self" and st.value.attr in ("_scoreboard",):
                    ctx.ob(rid, f"{cp.qual}: {norm(st)}", (cp, st), False,
                           "the copy shares the usage counters of the original: all per-scenario copies count into one list, so a scenario "
                           "starts with the days / weeks an earlier scenario used already filled",
                           key=key_of(rid, cp, st, "aliased counters"))
        if not (isinstance(c, ast.Call) and (dotted(c.func) or "").split(".")[-1] in ("Limit", "__class__", "type")):
            from ..model import Inconclusive
            raise Inconclusive(f"Limit.copy returns {norm(c)[:60]}: not a constructor call the rule understands")
        passed = {}
        for i, a in enumerate(c.args):
            if isinstance(a, ast.Starred):
                from ..model import Inconclusive
                raise Inconclusive("Limit.copy passes *args")
            if i < len(params):
                passed[params[i]] = a
        for k in c.keywords:
            if k.arg is None:
                from ..model import Inconclusive
                raise Inconclusive("Limit.copy passes **kwargs")
            passed[k.arg] = k.value
        # fields assigned after construction count too (c = Limit(...); c.x = self.x is not used today)
        for prm in params:
            a = passed.get(prm)
            ok = a is not None and norm(a) == f"self.{prm}"
            ctx.ob(rid, f"{cp.qual}: {prm} := {norm(a) if a is not None else '<default>'}", (cp, r), ok,
                   "the per-scenario copy carries this setting of the declared limit" if ok else
                   f"Limit.copy() does not pass self.{prm}: the copies the scheduler works with fall back to the default for "
                   f"{prm} (e.g. open_ended=False: counters stop at the declared project end and the limit is not enforced beyond it)",
                   key=key_of(rid, cp, None, f"copy {prm}"))


def _limit_calls(fn, meth):
    """calls x.<meth>(...) where x is a limits object: returns [(call, receiver text, in ancestor loop?)]"""
    out = []
    for n in own_nodes(fn):
        if isinstance(n, ast.Call) and isinstance(n.func, ast.Attribute) and n.func.attr == meth and "limits" in norm(n.func.value).lower():
            loop = None
            p = getattr(n, "_parent", None)
            while p is not None and p is not fn.node:
                if isinstance(p, (ast.While, ast.For)):
                    loop = p
                    break
                p = getattr(p, "_parent", None)
            out.append((n, norm(n.func.value), loop))
    return out


def _anc(n):
    p = getattr(n, "_parent", None)
    while p is not None:
        yield p
        p = getattr(p, "_parent", None)


def _walks_parent_chain(loop) -> bool:
    if isinstance(loop, ast.While):
        var = norm(loop.test).replace(" is not None", "")
        return any(isinstance(s, ast.Assign) and norm(s.targets[0]) == var and norm(s.value) == f"{var}.parent" for s in loop.body)
    return False


def limit_slots_rule(ctx: Ctx, rid: str):
    """A limit given in hours is converted to whole slots by cutting the fraction off (int / floor / //), never by rounding: a limit
    that is not a whole number of slots may admit fewer slots than its value, not more."""
    fn = ctx.repo.func("Limits.setLimit")
    res = local_resolver(fn.node) if False else None
    n = 0
    for a in own_nodes(fn):
        if isinstance(a, (ast.Assign, ast.AnnAssign)) and a.value is not None and "slot" in norm(a.targets[0] if isinstance(a, ast.Assign) else a.target).lower() \
                and any(isinstance(x, ast.BinOp) and isinstance(x.op, (ast.Div, ast.FloorDiv)) for x in ast.walk(a.value)):
            calls = {norm(c.func).split(".")[-1] for c in ast.walk(a.value) if isinstance(c, ast.Call)}
            if not (calls & {"int", "floor", "round", "ceil", "trunc"}) and not any(isinstance(x, ast.BinOp) and isinstance(x.op, ast.FloorDiv) for x in ast.walk(a.value)):
                continue
            n += 1
            up = sorted(calls & {"round", "ceil"})
            ctx.ob(rid, f"{fn.qual}: {norm(a)[:70]}", (fn, a), not up,
                   "the fraction of a slot is cut off" if not up else
                   f"the number of slots is obtained with {', '.join(up)}(): a limit whose value is not a whole number of slots (3.5h at 1h slots) is "
                   "rounded UP and one slot more than the limit is booked in every period",
                   key=key_of(rid, fn, None, "hours to slots"))
    if not n:
        raise AnchorMissing("Limits.setLimit: conversion of the limit value to slots not found")


def run_extra(ctx: Ctx):
    limit_slots_rule(ctx, "R05.12")
    # ---------------------------------------------------------------- R05.11 every booking is counted against every limit that covers it
    from .c01 import book_effects_rule
    book_effects_rule(ctx, "R05.11", ("own_limit", "parent_limit", "task_limit"))
    # ---------------------------------------------------------------- R05.10 every duration parser tells minutes from months
    from .common import duration_unit_rule
    duration_unit_rule(ctx, "R05.10")
    # ---------------------------------------------------------------- R05.9 answers never come from state that outlives the question
    from .common import process_state_rule
    process_state_rule(ctx, "R05.9", [ctx.repo.func("Project.schedule"), ctx.repo.func("ProjectFileParser.parse")],
                       "a limit or its counters are answered from another scenario's or project's")


def run(ctx: Ctx):
    repo = ctx.repo
    avail = repo.func("ResourceScenario.available")
    book = repo.func("ResourceScenario.book")
    lok = repo.func("TaskScenario.limitsOk")
    linc = repo.func("TaskScenario.incLimits")
    gal = repo.func("TaskScenario.getAllLimits")
    L_ok = repo.func("Limit.ok")
    L_inc = repo.func("Limit.inc")
    Ls_ok = repo.func("Limits.ok")
    Ls_inc = repo.func("Limits.inc")
    setl = repo.func("Limits.setLimit")

    # ---------------------------------------------------------------- R05.1
    def families(fn, meth):
        """calls on the resource's own limits / on the limits of every ancestor.  One walk that starts at the resource itself
        (`node = self.property; while node: ...; node = node.parent`) covers both."""
        own, anc = [], []
        for (c, recv, loop) in _limit_calls(fn, meth):
            if loop is not None and _walks_parent_chain(loop):
                anc.append(c)
                var = norm(loop.test).replace(" is not None", "")
                inits = [a for a in own_nodes(fn) if isinstance(a, (ast.Assign, ast.AnnAssign)) and a.value is not None
                         and norm(a.targets[0] if isinstance(a, ast.Assign) else a.target) == var and not any(a is y for y in ast.walk(loop))]
                if inits and all(norm(a.value) == "self.property" for a in inits):
                    own.append(c)
            elif loop is None:
                own.append(c)
        return own, anc

    a_own, a_anc = families(avail, "ok")
    b_own, b_anc = families(book, "inc")
    for fam, chk, inc_ in (("own resource limits", a_own, b_own), ("limits of every ancestor resource", a_anc, b_anc)):
        ok = bool(chk) and bool(inc_)
        ctx.ob("R05.1", f"{fam}: checked in available() x{len(chk)}, incremented in book() x{len(inc_)}", avail, ok,
               "holder is both consulted before and counted at a booking" if ok else
               f"{fam}: consulted={bool(chk)} but incremented={bool(inc_)} — the counter and its check cover different holders",
               key=f"R05.1|resource|{fam}")
    # a refusing limit refuses the slot
    for c in a_own + a_anc:
        iff = next((p_ for p_ in _anc(c) if isinstance(p_, ast.If) and any(c is x for x in ast.walk(p_.test))), None)
        neg = iff is not None and any(isinstance(u, ast.UnaryOp) and isinstance(u.op, ast.Not) and any(c is x for x in ast.walk(u.operand))
                                      for u in ast.walk(iff.test))
        # `return False`, or -- when the walk lives in a helper that N-inline folded back -- the result variable set to False and the walk left
        ok = neg and any((isinstance(s_, ast.Return) and isinstance(s_.value, ast.Constant) and s_.value.value is False) or
                         (isinstance(s_, ast.Assign) and isinstance(s_.value, ast.Constant) and s_.value.value is False
                          and isinstance(s_.targets[0], ast.Name) and any(isinstance(r_, ast.Return) and isinstance(r_.value, ast.Name)
                                                                          and r_.value.id == s_.targets[0].id for r_ in own_nodes(avail)))
                         for s_ in iff.body)
        ctx.ob("R05.1", f"{avail.qual}: failing {norm(c)} refuses the slot", (avail, c), ok,
               "if not limits.ok(slot): return False" if ok else "a limit that refuses the slot does not make available() answer False",
               key=key_of("R05.1", avail, c, "refuses"))
    # same slot argument
    for c in a_own + a_anc:
        ok = c.args and norm(c.args[0]) == avail.params[1]
        ctx.ob("R05.1", f"{avail.qual}: {norm(c)}", (avail, c), bool(ok), "limit consulted for the slot being tested" if ok else
               "limit is consulted for a different slot", key=key_of("R05.1", avail, c))
    for c in b_own + b_anc:
        ok = c.args and norm(c.args[0]) == book.params[1]
        ctx.ob("R05.1", f"{book.qual}: {norm(c)}", (book, c), bool(ok), "counter incremented for the slot being booked" if ok else
               "counter is incremented for a different slot", key=key_of("R05.1", book, c))
    # the answer of available() is refused by the limit: `not limits.ok(..)` -> return False
    facts = facts_of(avail)
    g = cfg_of(avail)
    for r in returns(avail):
        # (a literal `return True`; when the answer is a variable computed by the walk over the limit holders, the "refuses"
        #  obligations above are the statement)
        if maybe_true(r) and isinstance(r.value, ast.Constant):
            node = g.node_of(r)
            # facts: limits falsy or ok(...) true
            cl = facts.holds(node, lambda t, p: ("limits" in t and not p and ".ok(" not in t) or (p and "limits.ok(" in t) or
                             ("hasattr(limits" in t and not p))
            walk_note = None
            if cl is None:
                # the walk form: one loop over the resource itself and every enclosing group, left only through `return False` or
                # when the chain is exhausted -- the `return True` behind it is reached after every holder allowed the slot
                for w in own_nodes(avail):
                    if not (isinstance(w, ast.While) and isinstance(w.test, ast.Name) and not w.orelse):
                        continue
                    v = w.test.id
                    inits = [d for d in own_nodes(avail) if isinstance(d, (ast.Assign, ast.AnnAssign)) and d.value is not None and d.lineno < w.lineno
                             and any(isinstance(t, ast.Name) and t.id == v for t in (d.targets if isinstance(d, ast.Assign) else [d.target]))]
                    if not inits or norm(max(inits, key=lambda d: d.lineno).value) != "self.property":
                        continue
                    if any(isinstance(x, ast.Break) for x in ast.walk(w)):
                        continue
                    steps = [d for d in ast.walk(w) if isinstance(d, ast.Assign) and any(isinstance(t, ast.Name) and t.id == v for t in d.targets)]
                    if not steps or any(norm(d.value) != f"{v}.parent" for d in steps):
                        continue
                    refuses = [c for c in a_own + a_anc if any(c is x for x in ast.walk(w))]
                    hdr = g.node_of(w)
                    if refuses and hdr is not None and g.all_paths_pass(g.entry, node, lambda n, hdr=hdr: n.id == hdr.id):
                        walk_note = f"reached only after the walk `while {v}` from the resource up its parents, which leaves early with False on a refusing limit"
            ctx.ob("R05.1", f"{avail.qual}: return True only when own limits allow the slot", (avail, r), cl is not None or walk_note is not None,
                   (f"fact: {sorted(cl)}" if cl else walk_note) if (cl or walk_note) else
                   "available() can answer True although the resource's limit refuses the slot",
                   key="R05.1|available|own fact")
    # task side
    t_chk = [c for c in own_nodes(lok) if isinstance(c, ast.Call) and isinstance(c.func, ast.Attribute) and c.func.attr == "ok"]
    t_inc = [c for c in own_nodes(linc) if isinstance(c, ast.Call) and isinstance(c.func, ast.Attribute) and c.func.attr == "inc"]
    if not t_chk or not t_inc:
        raise AnchorMissing("limitsOk / incLimits: ok()/inc() calls not found")
    for c in t_chk:
        iff = next((p_ for p_ in _anc(c) if isinstance(p_, ast.If) and any(c is x for x in ast.walk(p_.test))), None)
        def _negated_in(test, c=c):
            """the call stands negated in the test, alone or as a conjunct (`limits and not limits.ok(..)`)"""
            parts = test.values if isinstance(test, ast.BoolOp) and isinstance(test.op, ast.And) else [test]
            return any(isinstance(p_, ast.UnaryOp) and isinstance(p_.op, ast.Not) and any(c is x for x in ast.walk(p_.operand)) for p_ in parts)
        ok = iff is not None and _negated_in(iff.test) and any(
            isinstance(s_, ast.Return) and isinstance(s_.value, ast.Constant) and s_.value.value is False for s_ in iff.body)
        # ... or the conjunction form: `return all(limits.ok(...) for limits in ...)`
        if not ok:
            comp = next((p_ for p_ in _anc(c) if isinstance(p_, (ast.GeneratorExp, ast.ListComp)) and p_.elt is c), None)
            allc = getattr(comp, "_parent", None) if comp is not None else None
            ok = isinstance(allc, ast.Call) and norm(allc.func) == "all" and isinstance(getattr(allc, "_parent", None), ast.Return) \
                and not comp.generators[0].ifs
        ctx.ob("R05.1", f"{lok.qual}: failing {norm(c)[:50]} refuses", (lok, c), ok, "if not limits.ok(...): return False" if ok else
               "a refusing task limit does not make limitsOk() answer False", key=key_of("R05.1", lok, None, "refuses"))
    def _sources(fn):
        out = {norm(l.iter) for l in own_nodes(fn) if isinstance(l, ast.For)}
        for x in own_nodes(fn):
            if isinstance(x, (ast.GeneratorExp, ast.ListComp, ast.SetComp)):
                out |= {norm(gen.iter) for gen in x.generators}
        return out
    def _walks_up(fn):
        """the function visits this task and every ancestor: `v = self.property; while v [is not None]: .. v.get('limits', ..) .. v = v.parent`"""
        for w in own_nodes(fn):
            if not (isinstance(w, ast.While) and not w.orelse):
                continue
            t = w.test
            v = t.id if isinstance(t, ast.Name) else (t.left.id if isinstance(t, ast.Compare) and isinstance(t.left, ast.Name) and len(t.ops) == 1
                                                      and isinstance(t.ops[0], ast.IsNot) and norm(t.comparators[0]) == "None" else None)
            if v is None or any(isinstance(x, ast.Break) for x in ast.walk(w)):
                continue
            inits = [d for d in own_nodes(fn) if isinstance(d, (ast.Assign, ast.AnnAssign)) and d.value is not None and d.lineno < w.lineno
                     and any(isinstance(t_, ast.Name) and t_.id == v for t_ in (d.targets if isinstance(d, ast.Assign) else [d.target]))]
            steps = [d for d in ast.walk(w) if isinstance(d, ast.Assign) and any(isinstance(t_, ast.Name) and t_.id == v for t_ in d.targets)]
            reads = [c for c in ast.walk(w) if isinstance(c, ast.Call) and isinstance(c.func, ast.Attribute) and c.func.attr == "get"
                     and norm(c.func.value) == v and c.args and const_str(c.args[0]) == "limits"]
            if inits and norm(max(inits, key=lambda d: d.lineno).value) == "self.property" and steps \
                    and all(norm(d.value) == f"{v}.parent" for d in steps) and reads:
                return True
        return False
    gal = ctx.repo.func("TaskScenario.getAllLimits")

    def _family(fn):
        srcs = _sources(fn)
        if srcs == {"self.getAllLimits()"}:
            return "task and ancestors" if _walks_up(gal) else "getAllLimits (not a walk up the parents)"
        if not srcs and _walks_up(fn):
            return "task and ancestors"
        return f"other: {sorted(srcs)}"
    src_ok = {_family(lok)}
    src_inc = {_family(linc)}
    ok = src_ok == src_inc == {"task and ancestors"}
    ctx.ob("R05.1", f"task limits: checked over {sorted(src_ok)}, incremented over {sorted(src_inc)}", lok, ok,
           "task + ancestor limits are both consulted and counted" if ok else "task-limit check and increment enumerate different holders",
           key="R05.1|task|enumeration")
    ra = {norm(k.value) for c in t_chk for k in c.keywords if k.arg == "resource"}
    rb = {norm(k.value) for c in t_inc for k in c.keywords if k.arg == "resource"}
    ok = ra == rb and len(ra) == 1
    ctx.ob("R05.1", f"task limits: resource argument {sorted(ra)} / {sorted(rb)}", lok, ok,
           "check and increment select resource-specific limits with the same key" if ok else
           "check and increment pass different resource keys: a resource-specific limit is counted but not checked (or vice versa)",
           key="R05.1|task|resource arg")
    up = [k for c in t_chk for k in c.keywords if k.arg == "upper"]
    ok = all(isinstance(k.value, ast.Constant) and k.value.value is True for k in up) and bool(up)
    ctx.ob("R05.1", f"{lok.qual}: checks upper limits", lok, ok, "upper=True" if ok else "task limits are not checked as upper limits",
           key="R05.1|task|upper")
    # getAllLimits walks the whole chain
    wl = [w for w in own_nodes(gal) if isinstance(w, ast.While)]
    ok = bool(wl) and any(_walks_parent_chain(w) for w in wl) and "pattr:limits" in full(ctx.dep.summary(gal).ret)
    ctx.ob("R05.1", f"{gal.qual}: task + every ancestor", gal, ok, "walks .parent to the root collecting limits" if ok else
           "getAllLimits no longer walks the whole ancestor chain", key="R05.1|getAllLimits|walk")
    # incLimits is reached from book with the booked resource
    calls = calls_named(book, "incLimits")
    ok = bool(calls) and all(len(c.args) == 2 and norm(c.args[0]) == book.params[1] and norm(c.args[1]) == "self.property" for c in calls)
    ctx.ob("R05.1", f"{book.qual}: task counters incremented for the booked slot/resource", book, ok,
           "book() calls incLimits(slot, this resource)" if ok else "book() does not increment the task's limit counters for this slot and resource",
           key="R05.1|book|incLimits")
    # collection level: every member is consulted / counted
    ok = any(isinstance(n, ast.Call) and norm(n.func) == "all" for n in own_nodes(Ls_ok)) and \
        "field:_limits" in full(ctx.dep.summary(Ls_ok).ret)
    ctx.ob("R05.1", f"{Ls_ok.qual}: all member limits must agree", Ls_ok, ok, "all(limit.ok(...))" if ok else
           "Limits.ok is not the conjunction over all member limits", key="R05.1|Limits.ok|all")
    loops = [l for l in own_nodes(Ls_inc) if isinstance(l, ast.For)]
    ok = any(norm(l.iter) == "self._limits" and any(isinstance(x, ast.Call) and isinstance(x.func, ast.Attribute) and x.func.attr == "inc"
                                                     for x in ast.walk(l)) for l in loops)
    ctx.ob("R05.1", f"{Ls_inc.qual}: every member limit is incremented", Ls_inc, ok, "loop over self._limits" if ok else
           "Limits.inc does not increment every member limit", key="R05.1|Limits.inc|loop")

    # ---------------------------------------------------------------- R05.3 horizon
    fok = facts_of(L_ok)
    gok = cfg_of(L_ok)
    n_hi = 0
    for r in returns(L_ok):
        if not maybe_true(r):
            continue
        node = gok.node_of(r)
        fs = fok.at(node)
        hi = [cl for cl in fs if any(p and ">=" in t and "len(self._scoreboard)" in t for (t, p) in cl)]
        if not hi:
            continue
        n_hi += 1
        extra = [cl for cl in fs if cl not in hi and all("sb_idx" not in t and "index" not in t and "upper" not in t
                                                         and "resource" not in t for (t, _p) in cl)]
        ok = bool(extra)
        ctx.ob("R05.3", f"{L_ok.qual}: 'allowed' beyond the last counter", (L_ok, r), ok,
               f"only for limits with an explicit interval (fact {sorted(extra[0])})" if ok else
               "a slot beyond the counters sized at parse time is answered 'allowed' for every limit: after Project.schedule "
               "extends the project end the limit is not enforced in the added part of the horizon",
               key="R05.3|Limit.ok|fail-open")
    if n_hi == 0:
        ctx.ob("R05.3", f"{L_ok.qual}: no fail-open answer beyond the counters", L_ok, True, "no `return True` is guarded by an index >= len test")
    # increments are not dropped beyond the end for default-interval limits
    grows = [n for n in own_nodes(L_inc) if isinstance(n, ast.Call) and isinstance(n.func, ast.Attribute)
             and n.func.attr in ("extend", "append") and "_scoreboard" in norm(n.func.value)]
    guarded_inc = [n for n in own_nodes(L_inc) if isinstance(n, ast.If) and "len(self._scoreboard)" in norm(n.test)
                   and any(isinstance(s, ast.AugAssign) for s in n.body)]
    ok = bool(grows) or not guarded_inc
    ctx.ob("R05.3", f"{L_inc.qual}: bookings beyond the last counter are counted", L_inc, ok,
           "counters grow on demand" if ok else "an increment beyond the counters sized at parse time is silently dropped",
           key="R05.3|Limit.inc|dropped")
    # which limits are open-ended: those created with the project's default interval
    ctor = [c for c in own_nodes(setl) if isinstance(c, ast.Call) and dotted(c.func) == "Limit"]
    if not ctor:
        raise AnchorMissing("Limits.setLimit does not construct Limit")
    fds = ctx.dep.of(setl)
    for c in ctor:
        kws = {k.arg: k.value for k in c.keywords}
        extra_args = list(c.args[8:]) + [v for k, v in kws.items() if k not in ("resource", "slot_duration")]
        ok = any("param:interval" in full(fds.deps_of(v)) for v in extra_args)
        ctx.ob("R05.3", f"{setl.qual}: default-interval limits are marked", (setl, c), ok or n_hi == 0 and not guarded_inc,
               "Limit learns whether its interval is the project default" if ok else
               "Limit cannot tell a project-default interval from an explicit one", key="R05.3|Limits.setLimit|flag")
    # the default interval is the project interval
    d = full(fds.deps_of(ctor[0].args[2])) if len(ctor[0].args) > 2 else set()
    ok = "pattr:end" in d and "param:interval" in d
    ctx.ob("R05.3", f"{setl.qual}: interval end source", (setl, ctor[0]), ok, "explicit interval or project end" if ok else
           "limit interval end is neither the explicit interval nor the project end", key="R05.3|Limits.setLimit|end source")

    # ---------------------------------------------------------------- R05.4
    n_cmp = 0
    for r in returns(L_ok):
        if isinstance(r.value, ast.Compare) and "count" in norm(r.value) and "value" in norm(r.value):
            br = None
            p, child = getattr(r, "_parent", None), r
            while p is not None:
                if isinstance(p, ast.If) and norm(p.test) == "self.upper":
                    br = "upper" if child in p.body else "lower"
                    break
                child, p = p, getattr(p, "_parent", None)
            tab = order_table(r.value, lambda e: isinstance(e, ast.Name) and e.id == "count", lambda e: norm(e) == "self.value")
            exp = {"<": True, "=": False, ">": False} if br == "upper" else {"<": False, "=": True, ">": True}
            n_cmp += 1
            ctx.ob("R05.4", f"{L_ok.qual}: {br} limit answers {norm(r.value)}", (L_ok, r), tab == exp,
                   ("another slot is allowed iff count < value" if br == "upper" else "satisfied iff count >= value") if tab == exp else
                   f"{br}-limit comparison has the wrong shape ({tab}): a counter that already equals the limit would allow a further booking"
                   if br == "upper" else f"lower-limit comparison changed ({tab})",
                   key=f"R05.4|Limit.ok|{br}")
    if n_cmp < 2:
        raise AnchorMissing("Limit.ok: count/value comparisons not found")
    # count is the counter of the period of the slot
    fdo = ctx.dep.of(L_ok)
    for n in own_nodes(L_ok):
        if isinstance(n, ast.Assign) and norm(n.targets[0]) == "count" and "_scoreboard" in norm(n.value):
            ok = "call:_idx_to_sb_idx" in data(fdo.deps_of(n.value)) and "param:index" in data(fdo.deps_of(n.value))
            ctx.ob("R05.4", f"{L_ok.qual}: {norm(n)}", (L_ok, n), ok, "counter of the period containing the slot" if ok else
                   "the counter read is not the one of the slot's period", key="R05.4|Limit.ok|counter index")
    fdi = ctx.dep.of(L_inc)
    for n in own_nodes(L_inc):
        if isinstance(n, ast.AugAssign) and "_scoreboard" in norm(n.target):
            ok = isinstance(n.op, ast.Add) and isinstance(n.value, ast.Constant) and n.value.value == 1 \
                and "call:_idx_to_sb_idx" in data(fdi.deps_of(n.target.slice))
            ctx.ob("R05.4", f"{L_inc.qual}: {norm(n)}", (L_inc, n), ok, "one unit per booked slot in the slot's period" if ok else
                   "the increment is not +1 on the counter of the slot's period", key="R05.4|Limit.inc|+1")
    # resource filter identical in ok and inc
    def res_filter(fn):
        return {norm(n.test) for n in own_nodes(fn) if isinstance(n, ast.If) and "self.resource" in norm(n.test)}
    ok = res_filter(L_ok) == res_filter(L_inc) and len(res_filter(L_ok)) == 1
    ctx.ob("R05.4", f"Limit.ok / Limit.inc resource filter {sorted(res_filter(L_ok))} / {sorted(res_filter(L_inc))}", L_ok, ok,
           "a resource-specific limit counts and checks the same bookings" if ok else
           "resource filter differs between ok() and inc()", key="R05.4|Limit|resource filter")
    # hours -> slots
    for n in own_nodes(setl):
        if isinstance(n, ast.Assign) and norm(n.targets[0]) == "value_in_slots":
            d = data(fds.deps_of(n.value))
            ok = "param:value" in d and "pattr:scheduleGranularity" in d and isinstance(n.value, ast.Call) and norm(n.value.func) == "int"
            ctx.ob("R05.4", f"{setl.qual}: {norm(n)}", (setl, n), ok, "limit value converted to whole slots of the project granularity" if ok else
                   "limit value is not converted with the project's slot length", key="R05.4|setLimit|slots")
    # period table
    periods = {}
    for n in own_nodes(setl):
        if isinstance(n, ast.If) and isinstance(n.test, ast.Compare) and norm(n.test.left) == "name":
            nm = const_str(n.test.comparators[0])
            for s in n.body:
                if isinstance(s, ast.Assign) and norm(s.targets[0]) == "period":
                    try:
                        periods[nm] = eval(compile(ast.Expression(s.value), "<const>", "eval"), {"__builtins__": {}})
                    except Exception:
                        periods[nm] = None
                elif isinstance(s, ast.Assign) and norm(s.targets[0]) == "upper":
                    periods[nm + ":upper"] = isinstance(s.value, ast.Constant) and s.value.value
    # table form: {name: (period, upper)} consulted with the limit's name and unpacked into period / upper
    mod_consts, mod_tables = {}, {}
    for st in setl.module.tree.body:
        tg, val = (st.targets[0], st.value) if isinstance(st, ast.Assign) and len(st.targets) == 1 else \
            ((st.target, st.value) if isinstance(st, ast.AnnAssign) else (None, None))
        if not isinstance(tg, ast.Name) or val is None:
            continue
        if isinstance(val, ast.Dict):
            mod_tables[tg.id] = val
        else:
            try:
                mod_consts[tg.id] = eval(compile(ast.Expression(val), "<const>", "eval"), {"__builtins__": {}}, dict(mod_consts))
            except Exception:
                pass
    local_tables = {n.targets[0].id: n.value for n in own_nodes(setl) if isinstance(n, ast.Assign) and isinstance(n.targets[0], ast.Name)
                    and isinstance(n.value, ast.Dict)}
    for c_ in own_nodes(setl):
        tab = None
        if isinstance(c_, ast.Call) and isinstance(c_.func, ast.Attribute) and c_.func.attr == "get" and c_.args and norm(c_.args[0]) == "name" \
                and isinstance(c_.func.value, ast.Name):
            tab = local_tables.get(c_.func.value.id) or mod_tables.get(c_.func.value.id)
        elif isinstance(c_, ast.Subscript) and isinstance(c_.value, ast.Name) and norm(c_.slice) == "name":
            tab = local_tables.get(c_.value.id) or mod_tables.get(c_.value.id)
        if tab is None:
            continue
        # the looked-up pair must be what period / upper are unpacked from
        holder = getattr(c_, "_parent", None)
        while isinstance(holder, (ast.IfExp,)):
            holder = getattr(holder, "_parent", None)
        src = {norm(holder.targets[0])} if isinstance(holder, ast.Assign) else set()
        src.add(norm(c_))
        unpack = [n for n in own_nodes(setl) if isinstance(n, ast.Assign) and isinstance(n.targets[0], ast.Tuple)
                  and [norm(e) for e in n.targets[0].elts] == ["period", "upper"] and norm(n.value) in src]
        if not unpack:
            continue
        for k, v in zip(tab.keys, tab.values):
            nm = const_str(k) if k is not None else None
            if nm is None or not (isinstance(v, ast.Tuple) and len(v.elts) == 2):
                continue
            try:
                periods[nm] = eval(compile(ast.Expression(v.elts[0]), "<const>", "eval"), {"__builtins__": {}}, dict(mod_consts))
            except Exception:
                periods[nm] = None
            periods[nm + ":upper"] = isinstance(v.elts[1], ast.Constant) and v.elts[1].value
    exp = {"dailymax": 86400, "weeklymax": 604800, "dailymax:upper": True, "weeklymax:upper": True}
    ok = all(periods.get(k) == v for k, v in exp.items())
    ctx.ob("R05.4", f"{setl.qual}: period table {dict((k, periods.get(k)) for k in exp)}", setl, ok,
           "dailymax = 1 day, weeklymax = 7 days, both upper limits" if ok else "period / direction table of dailymax / weeklymax changed",
           key="R05.4|setLimit|periods")

    # ---------------------------------------------------------------- R05.6 period index = calendar-date difference
    period_index_rule(ctx, "R05.6")
    # ---------------------------------------------------------------- R05.7 copy() carries every constructor argument
    limit_copy_rule(ctx, "R05.7")
    ctx.floor("R05.7", 9)
    ctx.floor("R05.6", 2)

    # ---------------------------------------------------------------- R05.8 booking guard (shared with C03 R03.6)
    from .c03 import booking_guard_rule
    booking_guard_rule(ctx, "R05.8")
    ctx.floor("R05.8", 1)

    # ---------------------------------------------------------------- R05.5
    prep = repo.func("TaskScenario.prepareScheduling")
    ok = any(isinstance(c, ast.Call) and isinstance(c.func, ast.Attribute) and c.func.attr == "reset" and "limits" in norm(c.func.value)
             for c in own_nodes(prep))
    ctx.ob("R05.5", f"{prep.qual}: limit counters reset", prep, ok, "limits.reset() before each scenario" if ok else
           "task limit counters are not reset before scheduling", key="R05.5|prepareScheduling|reset")
    rs = repo.func("Limit.reset")
    z = [n for n in own_nodes(rs) if isinstance(n, ast.Assign) and "_scoreboard" in norm(n.targets[0]) and "[0]" in norm(n.value)]
    ctx.ob("R05.5", f"{rs.qual}: counters zeroed", rs, bool(z), "all period counters set to 0" if z else "reset does not zero the counters",
           key="R05.5|Limit.reset|zero")
    ctx.floor("R05.1", 12)
    ctx.floor("R05.3", 3)
    ctx.floor("R05.4", 7)
