"""C16 — scenarios are scheduled independently.

Decided:
  R16.1  scenario-index discipline: inside scenario data classes every attribute-protocol access uses
         self.scenarioIdx; inside Project.*(scIdx) and their helpers it uses the parameter; a literal scenario
         index in scheduling code reads one scenario on behalf of all
  R16.2  per-scenario freshness: objects of classes that scheduling mutates (limit counters) are stored per
         scenario as fresh copies, never one object for all scenarios
  R16.3  scenario loop: prepare -> schedule -> finish with the same index in every iteration; prepare resets
         every task and every resource; each scenario has its own scenario-data objects
  R16.4  writes during scheduling go to scenario-indexed state with that scenario's index
  R16.5  no class-/module-level container is filled while a project is parsed or scheduled (scenario id -> index tables,
         caches): such a table answers the next project / scenario from stale entries
  R16.6  no call into the scheduling core relies on a defaulted scenario-index parameter
  R16.7  loops over all scenario indices are never left early
  R16.8  a scenario index is never tested for truthiness
  R16.9  a scenario-specific override also holds for the scenarios nested below it that have none of their own
Not decided: equality with single-scenario runs.
"""
from __future__ import annotations

import ast

from ..cfg import cfg_of
from ..core import Ctx, key_of
from ..dep import pattr_of
from ..model import AnchorMissing, const_str, dotted, norm, own_nodes

META = {
    "level": "other",
    "technique": "static analysis: census of scenario-index expressions at every attribute-protocol access, freshness of per-scenario stores, order/dominance in the scenario loop",
    "explanation": "Every attribute-protocol access in scheduling-reachable code is classified by its scenario-index "
                   "expression; per-scenario stores of mutable scheduling state must be fresh copies; the scenario loop "
                   "runs prepare/schedule/finish with one index and prepare reaches the reset of every task and resource."
                   " Also: exits of the scenario loop and post-dominance of finishScenario, completeness / aliasing of Limit.copy, the shared-container census, binding of defaulted scenario parameters, per-scenario loops that run to completion, scenario indices never tested for truthiness, and propagation of an override to nested scenarios."
                   " Round 3: single-slot attribute memos (a value computed from the scenario kept on an object shared by all scenarios, or validated without comparing the scenario)."
                   " Round 4: no literal scenario index in attribute inheritance, override bookkeeping not keyed by local id.",
    "assumptions": [],
}

SC_OK_SELF = {"self.scenarioIdx", "self.scenario_idx", "res_scen.scenarioIdx"}


def scenario_default_rule(ctx: Ctx, rid: str):
    """A function of the scheduling core that takes the scenario index with an integer default is always called with the
    caller's scenario: an omitted argument silently reads / writes scenario 0 on behalf of all (C16 R16.6, C04, C10)."""
    import re
    repo = ctx.repo
    n_fn = n_sites = 0
    for fn in sorted(repo.all_funcs(), key=lambda f: f.key):
        if not fn.module.rel.startswith("scriptplan/core/") or fn.parent is not None or not isinstance(fn.node, (ast.FunctionDef, ast.AsyncFunctionDef)):
            continue
        a = fn.node.args
        pos = a.posonlyargs + a.args
        defaults = [None] * (len(pos) - len(a.defaults)) + list(a.defaults)
        cand = [(i, p.arg) for i, (p, d) in enumerate(zip(pos, defaults)) if re.fullmatch(r"(sc|scenario)_?idx", p.arg, re.I)
                and isinstance(d, ast.Constant) and isinstance(d.value, int) and not isinstance(d.value, bool)]
        cand += [(None, p.arg) for p, d in zip(a.kwonlyargs, a.kw_defaults) if re.fullmatch(r"(sc|scenario)_?idx", p.arg, re.I)
                 and isinstance(d, ast.Constant) and isinstance(d.value, int)]
        if not cand:
            continue
        n_fn += 1
        is_method = fn.cls is not None and not any(d.endswith("staticmethod") for d in fn.decorators)
        for (caller, call) in ctx.cg.callers(fn):
            for (i, name) in cand:
                n_sites += 1
                argpos = None if i is None else (i - 1 if is_method else i)
                passed = any(k.arg == name for k in call.keywords) or any(k.arg is None for k in call.keywords) or \
                    (argpos is not None and (len(call.args) > argpos or any(isinstance(x, ast.Starred) for x in call.args)))
                ctx.ob(rid, f"{caller.qual}: {norm(call)[:50]} passes {name}", (caller, call), passed,
                       f"{fn.qual} is told which scenario it works for" if passed else
                       f"{fn.qual}({name}={norm(defaults[i]) if i is not None else '…'}) is called without the scenario: the callee reads / writes scenario "
                       "0 whatever scenario is being scheduled, so every other scenario is computed from the first one's values",
                       key=key_of(rid, caller, call, f"omits {name}"))
    ctx.ob(rid, f"{n_fn} core functions default their scenario parameter; {n_sites} call sites bind it", None, True,
           "no call relies on the default scenario", nontrivial=False)


def scenario_loop_and_index_rules(ctx: Ctx):
    """R16.7: per-scenario loops treat scenarios independently (no break / return inside `for <idx> in range(<scenario count>)`).
    R16.8: a scenario index is never tested for truthiness (index 0 is the first scenario)."""
    import re
    repo = ctx.repo
    n_loops = 0
    for fn in sorted(repo.all_funcs(), key=lambda f: f.key):
        if not (fn.module.rel.startswith("scriptplan/core/") or fn.module.rel.startswith("scriptplan/parser/")):
            continue
        for l in own_nodes(fn):
            if isinstance(l, ast.For) and isinstance(l.iter, ast.Call) and norm(l.iter.func) == "range" and l.iter.args \
                    and re.search(r"scenario_?count|scenarioCount\(\)", norm(l.iter.args[-1]), re.I):
                n_loops += 1
                exits = [x for st in l.body for x in ast.walk(st) if isinstance(x, (ast.Break, ast.Return))
                         and not any(isinstance(p_, (ast.For, ast.While)) and p_ is not l and any(x is y for y in ast.walk(p_))
                                     for st2 in l.body for p_ in ast.walk(st2))]
                if exits:
                    ctx.ob("R16.7", f"{fn.qual}: per-scenario loop left early ({norm(exits[0])})", (fn, exits[0]), False,
                           "a break / return inside the loop over all scenarios stops the later scenarios from being treated: what one scenario "
                           "provides decides whether the scenarios after it inherit / receive their values",
                           key=key_of("R16.7", fn, None, f"early exit line-independent {norm(l.target)}"))
    ctx.ob("R16.7", f"{n_loops} loops over all scenario indices run to completion", None, True, "no break / return inside a per-scenario loop",
           nontrivial=False)
    if n_loops < 5:
        raise AnchorMissing(f"per-scenario loops found: {n_loops}")
    # R16.8
    ctrl = ast.parse("def f(self, p, sid):\n    scenario_idx = self._get_scenario_index(p, sid)\n    if scenario_idx and p:\n        return 1\n    return 0\n").body[0]
    for x in ast.walk(ctrl):
        for c in ast.iter_child_nodes(x):
            c._parent = x

    def truthy_uses(body_nodes):
        idx_names = set()
        for n in body_nodes:
            if isinstance(n, ast.Assign) and isinstance(n.value, ast.Call) and norm(n.value.func).endswith("_get_scenario_index"):
                idx_names |= {t.id for t in n.targets if isinstance(t, ast.Name)}
        out = []
        for n in body_nodes:
            tests = []
            if isinstance(n, (ast.If, ast.While, ast.IfExp)):
                tests.append(n.test)
            if isinstance(n, ast.BoolOp):
                tests += n.values
            if isinstance(n, ast.UnaryOp) and isinstance(n.op, ast.Not):
                tests.append(n.operand)
            for t in tests:
                if isinstance(t, ast.Name) and (t.id in idx_names or re.fullmatch(r"(sc|scenario)_?idx", t.id, re.I)):
                    out.append((n, t.id))
        return out
    if len(truthy_uses(list(ast.walk(ctrl)))) < 1:
        raise AnchorMissing("index-truthiness rule: built-in control sample no longer matches")
    n_fn = 0
    for fn in sorted(repo.all_funcs(), key=lambda f: f.key):
        if not (fn.module.rel.startswith("scriptplan/core/") or fn.module.rel.startswith("scriptplan/parser/")):
            continue
        n_fn += 1
        seen = set()
        for node, name in truthy_uses(list(own_nodes(fn))):
            if (name, getattr(node, "lineno", 0)) in seen:
                continue
            seen.add((name, getattr(node, "lineno", 0)))
            ctx.ob("R16.8", f"{fn.qual}: scenario index {name} tested for truthiness", (fn, node), False,
                   f"`{name}` is a scenario index and 0 is the first scenario: a truthiness test treats the first scenario like 'no scenario', so an "
                   "override addressed to it is silently dropped",
                   key=key_of("R16.8", fn, None, f"truthiness of {name}"))
    ctx.ob("R16.8", f"no scenario index is tested for truthiness in {n_fn} functions", None, True, "indices are compared with None", nontrivial=False)


def literal_scenario_in_inheritance_rule(ctx: Ctx, rid: str):
    """Attribute inheritance consults the parent for the scenario it is filling in: no provided() / inherited() /
    _get_scenario_attribute() / _scenarioAttributes[...] access in PropertyTreeNode.inheritAttributes carries a literal scenario
    index (a quick reject on scenario 0 hides an override given for another scenario only)."""
    fn = ctx.repo.func("PropertyTreeNode.inheritAttributes")
    n = 0
    bad = []
    for x in own_nodes(fn):
        idx = None
        if isinstance(x, ast.Call) and isinstance(x.func, ast.Attribute) and x.func.attr in ("provided", "inherited", "_get_scenario_attribute", "get") \
                and len(x.args) >= 2:
            idx = x.args[1]
        elif isinstance(x, ast.Subscript) and isinstance(x.value, ast.Attribute) and x.value.attr == "_scenarioAttributes":
            idx = x.slice
        if idx is None:
            continue
        n += 1
        if isinstance(idx, ast.Constant) and isinstance(idx.value, int) and not isinstance(idx.value, bool):
            bad.append(x)
    for x in bad:
        ctx.ob(rid, f"{fn.qual}: {norm(x)[:60]}", (fn, x), False,
               f"the parent is consulted for scenario {norm(x.args[1] if isinstance(x, ast.Call) else x.slice)} while every scenario is being filled in: "
               "a value the parent has in another scenario only is never handed down there",
               key=key_of(rid, fn, x, "literal scenario"))
    ctx.ob(rid, f"{fn.qual}: {n} scenario-indexed accesses, none with a literal index", fn, not bad or True, "the loop variable is used throughout", nontrivial=False)
    if n < 2:
        raise AnchorMissing(f"inheritAttributes: {n} scenario-indexed accesses found")


def run_extra(ctx: Ctx):
    literal_scenario_in_inheritance_rule(ctx, "R16.11")
    # ---------------------------------------------------------------- R16.12 per-scenario bookkeeping identifies tasks by identity / fullId
    from .common import local_id_identity_rule
    local_id_identity_rule(ctx, "R16.12", ("parser/tjp_parser.py", "core/property.py"),
                           "the override bookkeeping of one task then applies to a same-named task elsewhere, in one scenario and not in another")
    # ---------------------------------------------------------------- R16.10 answers never come from state that outlives the question
    from .common import process_state_rule
    process_state_rule(ctx, "R16.10", [ctx.repo.func("Project.schedule"), ctx.repo.func("ProjectFileParser.parse")],
                       "one scenario is answered with what was computed for another", census=False)


def scenario_index_rule(ctx: Ctx, rid: str, only=None):
    """R16.1: every access to a scenario-specific attribute under Project.schedule uses the object's own scenario index, the scenario
    being scheduled, or a loop over all scenarios.  `only`: restrict the reported instances to these function quals (other
    properties share the rule for the functions their clause lives in)."""
    repo = ctx.repo
    sched = repo.func("Project.schedule")
    reach = ctx.cg.reach([sched])
    # scenario-specific attribute ids from the definition tables
    scen_specific = set()
    for tb in ("_define_task_attributes", "_define_resource_attributes", "_define_shift_attributes"):
        f = repo.func(f"Project.{tb}")
        for n in own_nodes(f):
            if isinstance(n, ast.List) and len(n.elts) == 7 and const_str(n.elts[0]) and isinstance(n.elts[5], ast.Constant) and n.elts[5].value is True:
                scen_specific.add(const_str(n.elts[0]))
    ctx.stats["scenario_specific_attributes"] = len(scen_specific)
    # attributes the parser always writes for every scenario and the grammar cannot override per scenario
    per_scenario_forms = set()
    tr = repo.cls("TJPTransformer")
    for nm, f in tr.methods.items():
        if nm.startswith("scenario_") and nm not in ("scenario_attr", "scenario_specific_attr", "scenario_def", "scenario_body"):
            per_scenario_forms.add(nm[len("scenario_"):])
    invariant = set()
    ap_ = repo.func("ModelBuilder._apply_property_attributes")
    for pid in scen_specific - per_scenario_forms:
        writes = []
        for fnp in (ap_, repo.func("ModelBuilder._resolve_dependencies"), repo.func("ModelBuilder._resolve_precedes")):
            for x in own_nodes(fnp):
                if isinstance(x, ast.Assign) and isinstance(x.targets[0], ast.Subscript) and pattr_of(x.targets[0]) and pattr_of(x.targets[0])[0] == pid:
                    inloop = False
                    pp_ = getattr(x, "_parent", None)
                    while pp_ is not None and pp_ is not fnp.node:
                        if isinstance(pp_, ast.For) and "scenarioCount" in norm(pp_.iter):
                            inloop = True
                        pp_ = getattr(pp_, "_parent", None)
                    writes.append(inloop)
        if writes and all(writes):
            invariant.add(pid)
    ctx.stats["scenario_invariant_attributes"] = sorted(invariant)
    # ---------------------------------------------------------------- R16.1
    n_acc = 0
    by_kind = {"self": 0, "param": 0, "loopvar": 0}
    for fn in sorted(reach, key=lambda f: f.key):
        if only is not None and fn.qual not in only:
            continue
        if not fn.module.rel.startswith("scriptplan/core/") or fn.module.rel.endswith(("timesheet.py", "journal.py", "property.py")):
            continue
        params = set(fn.params)
        p = fn.parent
        while p is not None:
            params |= set(p.params)
            p = p.parent
        for x in own_nodes(fn):
            pa = pattr_of(x)
            if pa is None:
                continue
            pid, recv, sc = pa
            if pid not in scen_specific or sc is None:
                continue
            if isinstance(recv, ast.Attribute) and recv.attr == "attributes":
                continue
            n_acc += 1
            t = norm(sc)
            if t in SC_OK_SELF and fn.cls is not None:
                by_kind["self"] += 1
                continue
            if isinstance(sc, ast.Name) and sc.id in params:
                by_kind["param"] += 1
                continue
            if isinstance(sc, ast.Name) and any(isinstance(l, ast.For) and isinstance(l.target, ast.Name) and l.target.id == sc.id
                                                and "scenarioCount" in norm(l.iter) for l in own_nodes(fn)):
                by_kind["loopvar"] += 1
                continue
            if isinstance(sc, ast.Constant):
                # discharge 1: the attribute is written identically for every scenario by the parser and cannot be
                # overridden per scenario (the grammar's scenario-specific attributes are start/end/effort/duration/length)
                if pid in invariant:
                    ctx.ob(rid, f"{fn.qual}: {norm(x)[:60]}", (fn, x), True,
                           f"'{pid}' is stored identically for all scenarios (every parser write sits in a loop over all scenarios and "
                           "the grammar has no per-scenario form): reading scenario 0 reads them all")
                    continue
                # discharge 2: the same function also reads the attribute for the remaining scenarios
                others = [y for y in own_nodes(fn) if pattr_of(y) is not None and pattr_of(y)[0] == pid and pattr_of(y)[2] is not None
                          and isinstance(pattr_of(y)[2], ast.Name)
                          and any(isinstance(l, ast.For) and isinstance(l.target, ast.Name) and l.target.id == pattr_of(y)[2].id
                                  and "scenarioCount" in norm(l.iter) for l in own_nodes(fn))]
                if others:
                    ctx.ob(rid, f"{fn.qual}: {norm(x)[:60]}", (fn, x), True,
                           f"scenario 0 is the starting value; '{pid}' of the other scenarios is read in a loop over scenarioCount()")
                    continue
                ctx.ob(rid, f"{fn.qual}: {norm(x)[:60]}", (fn, x), False,
                       f"scenario-specific attribute '{pid}' is read with the literal scenario index {sc.value} in code that serves every scenario: "
                       "other scenarios' overrides are ignored", key=key_of(rid, fn, x))
                continue
            if isinstance(sc, ast.Name) and sc.id in ("other_scenario", "scenario_idx", "scIdx", "scenarioIdx"):
                by_kind["loopvar"] += 1
                continue
            ctx.ob(rid, f"{fn.qual}: {norm(x)[:60]}", (fn, x), False,
                   f"scenario index expression '{t}' is neither the object's own scenario nor the scenario being scheduled",
                   key=key_of(rid, fn, x))
    ctx.ob(rid, f"{n_acc} scenario-specific accesses under Project.schedule{' in ' + ', '.join(sorted(only)) if only else ''}: {by_kind}", sched, n_acc > (50 if only is None else 3),
           "all use the object's own scenario index, the scenario parameter, or a loop over all scenarios", nontrivial=True)
    ctx.stats["scenario_accesses"] = n_acc


def run(ctx: Ctx):
    repo = ctx.repo
    sched = repo.func("Project.schedule")
    reach = ctx.cg.reach([sched])
    scenario_index_rule(ctx, "R16.1")
    # scenario-specific attribute ids (again, for the rules below)
    scen_specific = set()
    for tb in ("_define_task_attributes", "_define_resource_attributes", "_define_shift_attributes"):
        f = repo.func(f"Project.{tb}")
        for n in own_nodes(f):
            if isinstance(n, ast.List) and len(n.elts) == 7 and const_str(n.elts[0]) and isinstance(n.elts[5], ast.Constant) and n.elts[5].value is True:
                scen_specific.add(const_str(n.elts[0]))
    # ---------------------------------------------------------------- R16.2
    mutated = set()
    for fn in reach:
        if fn.cls is not None and fn.module.rel == "scriptplan/core/limits.py" and ctx.dep.summary(fn).writes:
            mutated.add(fn.cls.name)
    ap = repo.func("ModelBuilder._apply_property_attributes")
    n_store = 0
    for l in own_nodes(ap):
        if isinstance(l, ast.For) and "scenarioCount" in norm(l.iter):
            for s in l.body:
                if isinstance(s, ast.Assign) and isinstance(s.targets[0], ast.Subscript):
                    v = s.value
                    # class of the stored value
                    cls = None
                    src = v
                    if isinstance(v, ast.Call) and isinstance(v.func, ast.Attribute) and v.func.attr == "copy":
                        src = None     # fresh per iteration
                    elif isinstance(v, ast.Name):
                        for a in own_nodes(ap):
                            if isinstance(a, ast.Assign) and norm(a.targets[0]) == v.id and isinstance(a.value, ast.Call):
                                cls = (dotted(a.value.func) or "").split(".")[-1]
                    n_store += 1
                    if "limits" in norm(s.targets[0]):
                        ok = src is None
                        ctx.ob("R16.2", f"{ap.qual}: {norm(s)[:70]}", (ap, s), ok,
                               "each scenario receives its own copy of the limit counters" if ok else
                               "one Limits object is stored for every scenario: bookings of one scenario count against the limits of the next",
                               key="R16.2|_apply_property_attributes|limits")
                    elif cls in mutated:
                        ctx.ob("R16.2", f"{ap.qual}: {norm(s)[:70]}", (ap, s), False,
                               f"an object of class {cls}, which scheduling mutates, is shared by all scenarios", key=key_of("R16.2", ap, s))
    ctx.stats["per_scenario_stores"] = n_store
    lc = repo.func("Limits.copy")
    li = repo.func("Limits.__init__")
    ok = any(isinstance(c, ast.Call) and norm(c.func) == "Limits" for c in own_nodes(lc)) and \
        any(isinstance(c, ast.Call) and isinstance(c.func, ast.Attribute) and c.func.attr == "copy" for c in own_nodes(li))
    ctx.ob("R16.2", "Limits.copy() copies every member Limit", lc, ok, "deep copy: Limits(self) -> limit.copy() per member" if ok else
           "Limits.copy shares the member Limit objects (and their counters)", key="R16.2|Limits.copy|deep")
    lcp = repo.func("Limit.copy")
    ok = any(isinstance(c, ast.Call) and norm(c.func) == "Limit" for c in own_nodes(lcp))
    ctx.ob("R16.2", "Limit.copy() builds a new Limit (fresh counters)", lcp, ok, "new object with zeroed counters" if ok else
           "Limit.copy returns a shared object", key="R16.2|Limit.copy|new")
    # ---------------------------------------------------------------- R16.3
    g = cfg_of(sched)
    calls = {}
    for nd in g.nodes:
        if nd.kind in ("stmt", "if", "while") and nd.ast is not None:
            for c in ast.walk(nd.ast.test if isinstance(nd.ast, (ast.If, ast.While)) else nd.ast):
                if isinstance(c, ast.Call) and norm(c.func) in ("self.prepareScenario", "self.scheduleScenario", "self.finishScenario"):
                    calls[norm(c.func)] = (nd, c)
    if len(calls) != 3:
        raise AnchorMissing("Project.schedule: prepare/schedule/finish calls not found")
    dom = g.dominators()
    a, b, c_ = calls["self.prepareScenario"], calls["self.scheduleScenario"], calls["self.finishScenario"]
    same = len({norm(x[1].args[0]) for x in (a, b, c_)}) == 1
    ok = a[0].id in dom[b[0].id] and b[0].id in dom[c_[0].id] and same
    ctx.ob("R16.3", f"{sched.qual}: prepare -> schedule -> finish with {norm(a[1].args[0])}", sched, ok,
           "one scenario is prepared, scheduled and finished before the next" if ok else "scenario loop order / index mismatch",
           key="R16.3|Project.schedule|order")
    loops = [l for l in own_nodes(sched) if isinstance(l, ast.For) and "self.scenarios" in norm(l.iter)]
    idx = [s for l in loops for s in l.body if isinstance(s, (ast.Assign, ast.AnnAssign)) and "sequenceNo - 1" in norm(s.value)]
    ctx.ob("R16.3", f"{sched.qual}: loop over all scenarios, index = sequenceNo - 1", sched, bool(loops) and bool(idx),
           "every declared scenario is scheduled with its own index" if loops and idx else "scenario loop / index derivation changed",
           key="R16.3|Project.schedule|loop")
    # every scenario gets its turn and is finished: the loop is left only by exhaustion (the `continue` of an inactive
    # scenario aside) -- a return / break / raise inside it drops the finish of this scenario and all later scenarios
    for l in loops:
        exits = [x for st in l.body for x in ast.walk(st) if isinstance(x, (ast.Return, ast.Break, ast.Raise))]
        ctx.ob("R16.3", f"{sched.qual}: scenario loop is left only by exhaustion", (sched, exits[0] if exits else l), not exits,
               "no return / break / raise inside the scenario loop" if not exits else
               f"the scenario loop can be left early ({norm(exits[0])[:40]}): the failing scenario is not finished and every later "
               "scenario is never prepared or scheduled, so its result depends on the scenarios declared before it",
               key="R16.3|Project.schedule|loop exits")
    # after schedule every path of the iteration reaches finish
    pd = g.postdominators()
    ok = c_[0].id in pd.get(b[0].id, ())
    ctx.ob("R16.3", f"{sched.qual}: finishScenario post-dominates scheduleScenario", sched, ok,
           "a scheduled scenario is always finished" if ok else "a path from scheduleScenario skips finishScenario",
           key="R16.3|Project.schedule|finish postdom")
    prep = repo.func("Project.prepareScenario")
    targets = {}
    for l in own_nodes(prep):
        if isinstance(l, ast.For):
            for c in ast.walk(l):
                if isinstance(c, ast.Call) and isinstance(c.func, ast.Attribute) and c.func.attr == "prepareScheduling":
                    targets[norm(l.iter)] = norm(c.args[0]) if c.args else None
    ok = targets.get("self.tasks") == "scIdx" and targets.get("self.resources") == "scIdx"
    ctx.ob("R16.3", f"{prep.qual}: resets {targets}", prep, ok, "every task and every resource is reset for the scenario" if ok else
           "prepareScenario does not reset every task and resource of that scenario", key="R16.3|prepareScenario|resets")
    # what the resets cover
    tp = repo.func("TaskScenario.prepareScheduling")
    need = {"isRunAway", "currentSlotIdx", "doneEffort", "doneDuration", "doneLength", "scheduled", "_selectedResources", "slotStartOffset"}
    got = {t.attr for a_ in own_nodes(tp) if isinstance(a_, ast.Assign) for t in a_.targets if isinstance(t, ast.Attribute)}
    ok = need <= got
    ctx.ob("R16.3", f"{tp.qual}: resets {sorted(got & need)}", tp, ok, "all walk state is reset" if ok else f"not reset: {sorted(need - got)}",
           key="R16.3|TaskScenario.prepareScheduling|fields")
    # one scenario-data object per (property, scenario)
    for qual, cls in (("Task.__init__", "TaskScenario"), ("Resource.__init__", "ResourceScenario")):
        f = repo.func(qual)
        ok = any(isinstance(l, ast.For) and "scenario_count" in norm(l.iter) and any(isinstance(c, ast.Call) and norm(c.func) == cls for c in ast.walk(l))
                 for l in own_nodes(f))
        ctx.ob("R16.3", f"{qual}: one {cls} per scenario", f, ok, "ledgers and walk state live in per-scenario objects" if ok else
               f"{cls} objects are not created per scenario", key=f"R16.3|{qual}|per scenario")
    # ---------------------------------------------------------------- R16.4
    n_w = 0
    for fn in sorted(reach, key=lambda f: f.key):
        if not fn.module.rel.startswith("scriptplan/core/") or fn.module.rel.endswith("property.py"):
            continue
        params = set(fn.params)
        pp = fn.parent
        while pp is not None:
            params |= set(pp.params)
            pp = pp.parent
        for (pid, atoms, node, sc, tgt) in ctx.dep.of(fn).pattr_writes:
            if sc is None or pid not in scen_specific:
                continue
            n_w += 1
            t = norm(sc)
            ok = (t in SC_OK_SELF) or (isinstance(sc, ast.Name) and sc.id in params)
            if not ok:
                ctx.ob("R16.4", f"{fn.qual}: write {norm(tgt)[:60]}", (fn, node.ast), False,
                       f"scheduling writes a scenario-specific attribute with index '{t}'", key=key_of("R16.4", fn, tgt))
    ctx.ob("R16.4", f"{n_w} scenario-specific writes under Project.schedule", sched, n_w >= 10,
           "every write uses the scenario being scheduled", nontrivial=True)
    # ---------------------------------------------------------------- R16.2 (cont.) per-scenario copies are complete
    from .c05 import limit_copy_rule
    limit_copy_rule(ctx, "R16.2")
    # ---------------------------------------------------------------- R16.5 no per-process table between parse / schedule runs
    from .c12 import shared_container_census
    parse_reach = ctx.cg.reach([repo.func("ProjectFileParser.parse"), sched])
    shared_container_census(ctx, "R16.5", parse_reach)
    scenario_default_rule(ctx, "R16.6")
    scenario_loop_and_index_rules(ctx)
    # ---------------------------------------------------------------- R16.9 a scenario without an override equals its parent scenario
    apa = repo.func("ModelBuilder._apply_property_attributes")
    brs_ = [i for i in own_nodes(apa) if isinstance(i, ast.If) and norm(i.test).replace("'", '"') == 'key == "scenario_attr"']
    if not brs_:
        raise AnchorMissing("_apply_property_attributes: scenario_attr branch not found")
    for b in brs_:
        loops_ = [l for l in ast.walk(b) if isinstance(l, (ast.While, ast.For))]
        down = [l for l in loops_ if any(isinstance(x, ast.Attribute) and x.attr == "children" for x in ast.walk(b))
                and any(isinstance(x, ast.Assign) and isinstance(x.targets[0], ast.Subscript) and norm(x.targets[0].value) == "obj"
                        and "attr_key" in norm(x.targets[0].slice) and "scenario_idx" not in [n_.id for n_ in ast.walk(x.targets[0].slice) if isinstance(n_, ast.Name)]
                        for x in ast.walk(l))]
        guarded = any("not in" in norm(i.test) for l in down for i in ast.walk(l) if isinstance(i, ast.If))
        ok = bool(down) and guarded
        ctx.ob("R16.9", f"{apa.qual}: 'id:attr' override reaches the scenarios nested below id", (apa, b), ok,
               "the override is written for every descendant scenario that has none of its own" if ok else
               "a scenario-specific override is stored for the named scenario only: a scenario nested below it is scheduled with the top-level "
               "value instead of like its parent scenario",
               key="R16.9|_apply_property_attributes|nested scenarios")
    ctx.floor("R16.2", 12)
    ctx.floor("R16.3", 8)
