"""C13 — compiled fast paths and pure-Python fallbacks are equivalent (translation validation by
static comparison of each pair).

Decided:
  R13.1  pair table: every name imported from scriptplan._cython under try/except ImportError is used
         under the implementation switch; every cpdef of the .pyx files is paired or listed as unused
  R13.2  C-semantics divergence on the typed Cython tree: `%` / `//` on C integers under cdivision with
         a possibly negative dividend (operand ranges from the call site); a C `float` (32 bit) result where
         the fallback computes a Python float; 32-bit int products of horizon-sized values (informational)
  R13.3  decision-table comparison of each pair (spverif/pair.py): .pyx body with parameters bound at
         the guarded call + wrapper code, against the rest of the same Python function
  R13.4  guard discipline: every use of a fast name is control dependent on _USE_CYTHON; the switch is
         set True after the import and False in `except ImportError`
  R13.5  build agreement: setup.py extensions <-> .pyx files <-> import paths; compiler directives in
         setup.py equal the `# cython:` headers
  R13.6  every global name used in a module with a fast/fallback switch is bound there (symtable): a fallback branch cannot
         die with NameError when the extension is missing
  L1/L2  the lemmas used by the comparison are checked on the helper bodies
End-to-end equality of whole schedules follows from pairwise equivalence of the only functions that differ.
"""
from __future__ import annotations

import ast
import os
import sys

from ..cfg import cfg_of
from ..core import Ctx, key_of
from ..model import AnchorMissing, Inconclusive, const_str, dotted, norm, own_nodes
from .. import pair as P
from .. import pyx as PX
from .common import facts_of

META = {
    "level": "translation_validation",
    "technique": "static translation validation: typed Cython front end + symbolic decision tables of each fast/fallback pair, compared propositionally",
    "explanation": "Each accelerated function is compared with its pure-Python fallback without running either: the .pyx "
                   "source is type-analysed by the repository environment's Cython front end, converted to the same AST as "
                   "the Python side, both are expanded into decision tables over their inputs and compared on every "
                   "combination of their atomic conditions; C-only semantics (cdivision, 32-bit float/int) are checked on "
                   "the typed tree."
                   " Round 3: every global name used in a module with a fast/fallback switch is bound there (symtable); the pair splitter understands the if/else form of a fast path."
                   " Round 4: products of C integers are computed in 64 bit (obligation, was informational); integer-to-integer casts are identities in the pair comparison.",
    "assumptions": ["conditions are side-effect free (operands of and/or compared as sets)",
                    "datetime/timedelta arithmetic is the same object arithmetic on both sides",
                    "timedelta microseconds are 0 for slot-aligned dates (lemma L1 is exact anyway)"],
    "trusted_base": ["Cython 3.3.0 parser and type analysis (front end only)"],
    "programs": lambda ctx: ctx.stats.get("pairs", 0),
}

MODULES = {
    "scriptplan/scheduler/scoreboard.py": "scriptplan/_cython/scoreboard_cy.pyx",
    "scriptplan/core/working_hours.py": "scriptplan/_cython/working_hours_cy.pyx",
    "scriptplan/core/project.py": "scriptplan/_cython/time_utils_cy.pyx",
}

RANGES = {"weekday()": (0, 6), ".hour": (0, 23), ".minute": (0, 59)}


def guarded_import(mod):
    """(names, try node) of `try: from scriptplan._cython.X import ...`"""
    for st in mod.tree.body:
        if isinstance(st, ast.Try):
            for s in st.body:
                if isinstance(s, ast.ImportFrom) and (s.module or "").startswith("scriptplan._cython"):
                    return [a.asname or a.name for a in s.names], st, s
    return None, None, None


def interval(e, bind) -> tuple:
    """(lo, hi) with None for unbounded"""
    if isinstance(e, ast.Constant) and isinstance(e.value, (int, float)):
        return (e.value, e.value)
    if isinstance(e, ast.Name) and e.id in bind:
        return bind[e.id]
    if isinstance(e, ast.BinOp):
        a, b = interval(e.left, bind), interval(e.right, bind)
        if None in a or None in b:
            return (None, None)
        if isinstance(e.op, ast.Add):
            return (a[0] + b[0], a[1] + b[1])
        if isinstance(e.op, ast.Sub):
            return (a[0] - b[1], a[1] - b[0])
        if isinstance(e.op, ast.Mult):
            c = [a[0] * b[0], a[0] * b[1], a[1] * b[0], a[1] * b[1]]
            return (min(c), max(c))
    return (None, None)


def arg_range(e) -> tuple:
    t = norm(e)
    if t.endswith(".weekday()"):
        return (0, 6)
    if isinstance(e, ast.Name):
        return (None, None)
    if isinstance(e, ast.BinOp):
        a, b = arg_range(e.left), arg_range(e.right)
        if None in a or None in b:
            return (None, None)
        return interval(ast.BinOp(left=ast.Name(id="a", ctx=ast.Load()), op=e.op, right=ast.Name(id="b", ctx=ast.Load())), {"a": a, "b": b})
    if isinstance(e, ast.Attribute) and e.attr == "hour":
        return (0, 23)
    if isinstance(e, ast.Attribute) and e.attr == "minute":
        return (0, 59)
    if isinstance(e, ast.Constant) and isinstance(e.value, (int, float)) and not isinstance(e.value, bool):
        return (e.value, e.value)
    return (None, None)


def unbound_name_rule(ctx: Ctx, rid: str):
    """Every global name a function of a module with a fast/fallback switch uses is bound in that module (import, def, class,
    assignment) or is a builtin.  The fallback bodies are the code no test run with the extensions built ever executes: a name
    that is bound nowhere raises NameError exactly when the extension is missing (symtable scoping, nothing is run)."""
    import builtins
    import symtable
    nmod = nfun = 0
    for rel in sorted(MODULES):
        m = ctx.repo.by_rel.get(rel)
        if m is None:
            raise AnchorMissing(f"{rel} not in the model")
        src = open(os.path.join(ctx.repo.root, rel)).read()
        top = symtable.symtable(src, rel, "exec")
        bound = {s_.get_name() for s_ in top.get_symbols() if s_.is_assigned() or s_.is_imported() or s_.is_namespace()}
        # names bound by `global x` + assignment inside functions
        def walk(t):
            for c in t.get_children():
                for s_ in c.get_symbols():
                    if s_.is_global() and s_.is_assigned():
                        bound.add(s_.get_name())
                walk(c)
        walk(top)
        bound |= set(dir(builtins)) | {"__name__", "__file__", "__doc__", "__class__"}
        nmod += 1
        lines = {}
        for x in ast.walk(m.tree):
            if isinstance(x, ast.Name) and isinstance(x.ctx, ast.Load):
                lines.setdefault(x.id, x.lineno)
        missing = []

        def scan(t):
            nonlocal nfun
            for c in t.get_children():
                if c.get_type() == "function":
                    nfun += 1
                for s_ in c.get_symbols():
                    if s_.is_referenced() and s_.is_global() and not s_.is_assigned() and s_.get_name() not in bound:
                        missing.append((c.get_name(), s_.get_name(), c.get_lineno()))
                scan(c)
        scan(top)
        for fname, name, ln in sorted(set(missing)):
            ctx.ob(rid, f"{rel}: {fname} uses {name}", f"{rel}:{ln}", False,
                   f"`{name}` is bound nowhere in {rel} (no import, definition or assignment) and is not a builtin: the function raises "
                   "NameError when this line runs -- in a fallback branch that is exactly when the compiled extension is unavailable",
                   key=f"{rid}|{rel}|{fname}|{name}")
        if not missing:
            ctx.ob(rid, f"{rel}: every global name used is bound in the module", f"{rel}:1", True, "symtable: no unbound global", nontrivial=False)
    ctx.stats["unbound_name_scopes"] = nfun


def run(ctx: Ctx):
    repo = ctx.repo
    pairs = []          # (py func, if-node, call node, pyx func, pyx module)
    pyx_mods = {}
    all_fast_names = {}
    for rel, pyx_rel in MODULES.items():
        mod = repo.module(rel)
        names, trynode, imp = guarded_import(mod)
        if not names:
            raise AnchorMissing(f"{rel}: guarded import of scriptplan._cython not found")
        pm = PX.load(os.path.join(repo.root, pyx_rel))
        pyx_mods[pyx_rel] = pm
        # ------------------------------------------------------------ R13.4 switch
        sets_true = any(isinstance(s, ast.Assign) and norm(s.targets[0]) == "_USE_CYTHON" and isinstance(s.value, ast.Constant) and s.value.value is True
                        for s in trynode.body)
        after_import = sets_true and [i for i, s in enumerate(trynode.body) if isinstance(s, ast.ImportFrom)][0] < \
            [i for i, s in enumerate(trynode.body) if isinstance(s, ast.Assign)][0]
        # ... or in the `else:` of the try, which runs exactly when the import raised nothing
        if not sets_true and any(isinstance(s, ast.Assign) and norm(s.targets[0]) == "_USE_CYTHON" and isinstance(s.value, ast.Constant)
                                 and s.value.value is True for s in trynode.orelse):
            sets_true = after_import = True
        h_ok = any((dotted(h.type) == "ImportError") and any(isinstance(s, ast.Assign) and norm(s.targets[0]) == "_USE_CYTHON"
                                                             and isinstance(s.value, ast.Constant) and s.value.value is False for s in h.body)
                   for h in trynode.handlers)
        other_writes = [n for n in ast.walk(mod.tree) if isinstance(n, ast.Assign) and any(norm(t) == "_USE_CYTHON" for t in n.targets)
                        and not any(n is s for s in ast.walk(trynode))]
        ok = sets_true and after_import and h_ok and not other_writes
        ctx.ob("R13.4", f"{rel}: _USE_CYTHON := import succeeded", f"{rel}:{trynode.lineno}", ok,
               "True only after the import, False on ImportError, no other writer" if ok else
               "the implementation switch does not reflect whether the extension imported", key=f"R13.4|{rel}|switch")
        imp_mod = imp.module.split(".")[-1]
        ok = imp_mod + ".pyx" == os.path.basename(pyx_rel)
        ctx.ob("R13.5", f"{rel}: imports {imp.module}", f"{rel}:{imp.lineno}", ok, "import path names the paired .pyx" if ok else
               "import path does not match the .pyx file", key=f"R13.5|{rel}|import path")
        for nm in names:
            all_fast_names[nm] = (rel, pm)
            if nm not in pm.functions:
                ctx.ob("R13.1", f"{rel}: imported name {nm} missing in {pyx_rel}", f"{rel}:{imp.lineno}", False,
                       "the import would fail and silently disable every fast path of this module", key=f"R13.1|{nm}|missing")
        # uses
        for fn in sorted((f for f in repo.all_funcs() if f.module is mod), key=lambda f: f.lineno):
            g = None
            for c in own_nodes(fn):
                if isinstance(c, ast.Call) and isinstance(c.func, ast.Name) and c.func.id in names:
                    # enclosing `if _USE_CYTHON:`
                    guard = None
                    p, child = getattr(c, "_parent", None), c
                    while p is not None and p is not fn.node:
                        if isinstance(p, ast.If) and norm(p.test) == "_USE_CYTHON" and any(child is s or any(child is x for x in ast.walk(s)) for s in p.body):
                            guard = p
                            break
                        child, p = p, getattr(p, "_parent", None)
                    ok = guard is not None
                    ctx.ob("R13.4", f"{fn.qual}: {c.func.id}(...) guarded", (fn, c), ok,
                           "fast call is control dependent on _USE_CYTHON" if ok else
                           "a fast-path name is used outside `if _USE_CYTHON:`: NameError when the extension is not built",
                           key=key_of("R13.4", fn, None, f"guard {c.func.id}"))
                    if ok and c.func.id in pm.functions:
                        pairs.append((fn, guard, c, pm.functions[c.func.id], pm))
    used = {p[3].name for p in pairs}
    for nm, (rel, pm) in sorted(all_fast_names.items()):
        ok = nm in used
        ctx.ob("R13.1", f"{rel}: {nm} has a guarded use", rel + ":1", ok, "paired with a fallback" if ok else
               "imported fast function is never used", key=f"R13.1|{nm}|used")
    for pyx_rel, pm in pyx_mods.items():
        for nm, f in pm.functions.items():
            if f.kind == "cpdef" and nm not in used:
                ctx.ob("R13.1", f"{pyx_rel}: cpdef {nm} has no Python counterpart in use", f"{pyx_rel}:{f.lineno}", None,
                       "compiled but unused (no pair to compare)", info=True)
    ctx.stats["pairs"] = len(pairs)
    if len(pairs) < 7:
        raise AnchorMissing(f"only {len(pairs)} fast/fallback pairs found, expected 7")

    # ---------------------------------------------------------------- R13.5 build agreement
    setup_path = os.path.join(repo.root, "setup.py")
    if not os.path.exists(setup_path):
        raise AnchorMissing("setup.py not found")
    st = ast.parse(open(setup_path).read())
    exts = {}
    directives = {}
    for n in ast.walk(st):
        if isinstance(n, ast.Call) and norm(n.func) == "Extension" and len(n.args) >= 2 and const_str(n.args[0]):
            srcs = [const_str(e) for e in n.args[1].elts] if isinstance(n.args[1], ast.List) else []
            exts[const_str(n.args[0])] = srcs
        if isinstance(n, ast.keyword) and n.arg == "compiler_directives" and isinstance(n.value, ast.Dict):
            for k, v in zip(n.value.keys, n.value.values):
                directives[const_str(k)] = v.value if isinstance(v, ast.Constant) else None
    for pyx_rel, pm in pyx_mods.items():
        modname = pyx_rel[:-4].replace("/", ".")
        ok = exts.get(modname) == [pyx_rel]
        ctx.ob("R13.5", f"setup.py builds {modname} from {pyx_rel}", "setup.py:1", ok, "extension name and source agree" if ok else
               f"setup.py does not build {modname} from {pyx_rel} (found {exts.get(modname)})", key=f"R13.5|{modname}|extension")
        hd = {k: (str(v) if k == "language_level" else v) for k, v in pm.directives.items()}
        sd = {k: (str(v) if k == "language_level" else v) for k, v in directives.items()}
        ok = hd == sd
        ctx.ob("R13.5", f"{pyx_rel}: header directives = setup.py directives", f"{pyx_rel}:1", ok, f"{hd}" if ok else
               f"directives differ (header {hd}, setup.py {sd}): a rebuild produces a different program than the headers say",
               key=f"R13.5|{pyx_rel}|directives")

    # ---------------------------------------------------------------- R13.2 C semantics
    for (fn, guard, call, pf, pm) in pairs:
        params = [a.arg for a in pf.node.args.args]
        bind = {}
        for pnm, a in zip(params, call.args):
            bind[pnm] = _site_range(fn, a)
        for n in ast.walk(pf.node):
            if isinstance(n, ast.BinOp) and isinstance(n.op, (ast.Mod, ast.FloorDiv)) and getattr(n, "cdivision", False) \
                    and n.left.ctype in P.INT_C and n.right.ctype in P.INT_C:
                lo, hi = interval(n.left, bind)
                safe = lo is not None and lo >= 0
                ctx.ob("R13.2", f"{pf.name}: {norm(n)} (C {n.left.ctype}, cdivision)", f"{os.path.relpath(pm.path, repo.root)}:{n.lineno}", safe,
                       f"dividend range [{lo}, {hi}] is non-negative: C and Python agree" if safe else
                       f"C integer `{'%' if isinstance(n.op, ast.Mod) else '//'}` truncates toward zero under cdivision; the dividend can be negative "
                       f"(range [{lo}, {hi}] at the call in {fn.qual}) where the Python fallback uses floor semantics",
                       key=f"R13.2|{pf.name}|{norm(n)}")
        if pf.ret_type == "float":
            ctx.ob("R13.2", f"{pf.name}: returns C float (32 bit)", f"{os.path.relpath(pm.path, repo.root)}:{pf.lineno}", False,
                   "the result is rounded to single precision before it reaches Python, the fallback computes a Python float (double)",
                   key=f"R13.2|{pf.name}|float return")
        else:
            ctx.ob("R13.2", f"{pf.name}: result type {pf.ret_type}", f"{os.path.relpath(pm.path, repo.root)}:{pf.lineno}", True,
                   "no narrowing of a non-integral result", nontrivial=False)
        narrow = [norm(n) for n in ast.walk(pf.node) if isinstance(n, ast.BinOp) and isinstance(n.op, ast.Mult)
                  and getattr(n, "ctype", "") in ("int", "long") and not isinstance(n.right, ast.Constant) and not isinstance(n.left, ast.Constant)]
        ctx.ob("R13.2", f"{pf.name}: products of C integers are computed in 64 bit" + (f" -- not {narrow}" if narrow else ""),
               f"{os.path.relpath(pm.path, repo.root)}:{pf.lineno}", not narrow,
               "no product of two C ints" if not narrow else
               f"{narrow[0]} is computed in C int: slot index x resolution wraps beyond 2^31 seconds (a 68-year horizon, or an effort of decades), the "
               "compiled path returns a date in the past where the Python fallback computes the right one",
               key=f"R13.2|{pf.name}|int product")

    # ---------------------------------------------------------------- R13.3 tables
    for (fn, guard, call, pf, pm) in pairs:
        inst = f"{fn.qual} <-> {pf.name}"
        lem = P.Lemmas(enabled=("L2",) if fn.qual == "Scoreboard.collectIntervals" else ())
        try:
            fast_t, fall_t = _tables(fn, guard, call, pf, lem)
            eq, detail = P.compare_tables(fast_t, fall_t)
            if not eq and os.environ.get("SPVERIF_DEBUG_PAIR"):
                import pprint
                assign, ra, rb = detail[0]
                print("DEBUG-PAIR", pair_name if "pair_name" in dir() else "", file=sys.stderr)
                pprint.pprint({"assign": assign, "fast": ra, "fallback": rb}, stream=sys.stderr, width=200)
        except Inconclusive as e:
            raise Inconclusive(f"{inst}: {e}")
        ctx.stats.setdefault("table_rows", {})[inst] = [len(fast_t), len(fall_t)]
        ctx.ob("R13.3", inst, (fn, call), eq,
               (detail if isinstance(detail, str) else "") + (f"; lemmas {sorted(lem.used)}" if lem.used else "") if eq else
               "fast path and fallback decide differently: " + P.describe_diff(detail),
               witness=None if eq else {"first_difference": P.describe_diff(detail)},
               key=f"R13.3|{fn.qual}|{pf.name}")
        for l in sorted(lem.used):
            _lemma(ctx, l, pyx_mods, repo)
    unbound_name_rule(ctx, "R13.6")
    ctx.floor("R13.6", 3)
    ctx.floor("R13.3", 7)
    ctx.floor("R13.4", 10)
    ctx.floor("R13.5", 9)


def _site_range(fn, a):
    """range of an argument expression at the call site, resolving local names one level"""
    r = arg_range(a)
    if r != (None, None):
        return r
    if isinstance(a, ast.Name):
        vals = [n.value for n in own_nodes(fn) if isinstance(n, ast.Assign) and norm(n.targets[0]) == a.id]
        rs = [arg_range(v) for v in vals]
        if rs and all(x != (None, None) for x in rs):
            return (min(x[0] for x in rs), max(x[1] for x in rs))
    return (None, None)


def _split(fn, guard):
    """statements before the guard / after it, at the nesting level of the guard, plus enclosing context"""
    body = fn.node.body
    if guard not in body:
        raise Inconclusive(f"{fn.qual}: `if _USE_CYTHON:` is not a top-level statement of the function")
    i = body.index(guard)
    pre = [s for s in body[:i] if not (isinstance(s, ast.Expr) and isinstance(s.value, ast.Constant))]
    # `if _USE_CYTHON: fast ... else: slow ...` -- the else branch belongs to the fallback side only
    return pre, list(guard.body), list(guard.orelse) + body[i + 1:], body[i + 1:]


def _tables(fn, guard, call, pf, lem):
    pre, fast_block, rest, after = _split(fn, guard)
    env0 = {}
    sym_fast = P.Sym(lem, callee=(pf, pf.name), call_pred=lambda c: isinstance(c.func, ast.Name) and c.func.id == pf.name)
    fast_paths = sym_fast.run(pre + fast_block + after, env0)
    sym_fall = P.Sym(lem)
    fall_paths = sym_fall.run(pre + rest, env0)
    return sym_fast.table(fast_paths), sym_fall.table(fall_paths)


def _lemma(ctx, l, pyx_mods, repo):
    if any(o.rule == "R13.L" and o.instance.startswith(l) for o in ctx.obs):
        return
    if l == "L1":
        pm = pyx_mods["scriptplan/_cython/scoreboard_cy.pyx"]
        f = pm.functions.get("_total_seconds")
        if f is None:
            raise AnchorMissing("_total_seconds not found")
        lem = P.Lemmas()
        paths = P.Sym(lem).run(f.node.body, {})
        rets = {p.outcome[1] for p in paths if p.outcome[0] == "return"}
        want = "td.days * 86400.0 + td.seconds + td.microseconds / 1000000.0"
        ok = rets == {want}
        ctx.ob("R13.L", "L1 _total_seconds(td) = days*86400 + seconds + microseconds/1e6 (= timedelta.total_seconds())", "scriptplan/_cython/scoreboard_cy.pyx:" + str(f.lineno),
               ok, "helper body is the definition of total_seconds()" if ok else f"helper computes {sorted(rets)}", key="R13.L|L1")
    if l == "L2":
        f = repo.func("Scoreboard.idxToDate")
        last = [s for s in f.node.body if isinstance(s, ast.Return)][-1]
        ok = norm(last.value) == "self.startDate + timedelta(seconds=idx * self.resolution)"
        ctx.ob("R13.L", "L2 Scoreboard.idxToDate(i) = startDate + timedelta(seconds=i*resolution) for in-range i", (f, last), ok,
               "fallback's in-range result has that form; collectIntervals clamps its indices into [0, size-1]" if ok else
               f"idxToDate's in-range result is {norm(last.value)}", key="R13.L|L2")
