"""C11 — scheduling is total: it terminates and reports, never crashes or hangs.

Decided:
  R11.1  every `while` loop reachable from parse / schedule / report generation has a variant (bounded
         cursor, shrinking work list, parent-chain walk, growing list against a bound, shrinking string,
         stepping cursor with a two-sided window test); no `for` loop appends to the list it iterates
  R11.2  index discipline: slot-table item access rejects negative indices; every function that indexes a
         slot table with a caller-supplied slot first establishes 0 <= slot < size (or is only called
         under such a fact); the slot walk leaves when the cursor is outside [start, end]
  R11.3  recursion reachable from the entry points descends the task / resource / report tree only
         (children, kids, parents); recursion along dependency edges is input-proportional stack depth
  R11.4  library code reachable from parse / schedule does not terminate the process (informational:
         sys.exit in the message handler)
  R11.5  macro expansion has an iteration cap
  R11.6  the scheduling horizon is defined: no project leaves the model builder without an end date
Not decided: the time bound "proportional to project size".
"""
from __future__ import annotations

import ast

from ..cfg import cfg_of
from ..core import Ctx, key_of
from ..effects import sink_of
from ..loops import classify, definite_problem
from ..model import AnchorMissing, Inconclusive, dotted, norm, own_nodes, const_str
from .common import facts_of

META = {
    "level": "other",
    "technique": "static analysis: loop-variant classification on the CFG, must-fact dominance of slot-table accesses, SCC/recursion classification on the call graph",
    "explanation": "One obligation per reachable while loop (variant found by CFG path analysis), per slot-table access "
                   "(range fact on every path), per recursive cycle (argument derives from the property tree), plus the "
                   "macro expansion cap. Necessary conditions of termination and of 'no internal error'; the time bound "
                   "is not decided."
                   " Also: a census of every slot-table subscript (clamped range bounds / range facts / availability fact), window facts at the slot walk's head and in the milestone pre-pass, all-paths definition of the project end in the model builder, visited-set discipline for work lists that also grow, and a size bound on macro expansion."
                   " Round 3: divisor census (non-zero constant, or-default, repair, positivity fact, or the timing resolution which the parser must reject unless positive), raw index for the slot walk's run-away test, order of two pinned dates where a task is marked scheduled on them."
                   " Round 4: size bound fixed before the passes, slot table known to exist where it is measured, numeric attributes never stored as text through a variable id, mixed allocation list (known finding), horizon estimate guarded against overflow. Round 8: each pinned date of the milestone pre-pass is itself compared with the project frame on every path to a scheduled mark.",
    "assumptions": ["the property tree (parent/children) is finite and acyclic", "for loops over finite containers terminate",
                    "attribute values are finite, acyclic nestings of lists / tuples / dicts"],
}

# ------------------------------------------------------------------------------------------------------------------
# R11.7 divisors
RES_ATTRS = ("scheduleGranularity",)
# fields that hold the timing resolution (or a positive constant chosen by the code), with the reason
RES_FIELDS = {
    "resolution": "Scoreboard.resolution = the project's timing resolution",
    "slot_duration": "Limit.slot_duration = the project's timing resolution",
    "period": "Limit.period = one of the day / week / month constants, or the length of the limit's interval",
}
RES_PARAMS = {"granularity", "clock", "resolution", "slot_duration"}


def _nonzero(fn, e, site, facts, res, depth=0):
    """(verdict, why): True = provably non-zero, "res" = non-zero iff the timing resolution is positive, False = can be zero,
    None = not decided."""
    if depth > 8:
        return None, "resolution depth"
    if isinstance(e, ast.Constant):
        if isinstance(e.value, (int, float)) and not isinstance(e.value, bool):
            return (e.value != 0), f"constant {e.value}"
        return None, "non-numeric constant"
    t = norm(e).replace('"', "'")
    # a must-fact at the site says so
    if site is not None and facts is not None:
        for cl in facts.at(site):
            if len(cl) == 1:
                (ft, pol), = tuple(cl)
                ft = ft.replace('"', "'")
                if (pol is True and ft in (f"{t} > 0", f"{t} != 0", t, f"0 < {t}", f"{t} > 0.0", f"{t} >= 1")) or \
                   (pol is False and ft in (f"{t} <= 0", f"{t} == 0", f"not {t}", f"{t} <= 0.0", f"{t} == 0.0")):
                    return True, f"guard {ft} is {pol}"
    if isinstance(e, ast.BoolOp) and isinstance(e.op, ast.Or):
        v, why = _nonzero(fn, e.values[-1], None, None, res, depth + 1)
        if v is True:
            return True, f"`or` default {norm(e.values[-1])}"
        return v, why
    if isinstance(e, ast.BinOp) and isinstance(e.op, (ast.Mult, ast.Div)):
        a, wa = _nonzero(fn, e.left, site, facts, res, depth + 1)
        b, wb = _nonzero(fn, e.right, site, facts, res, depth + 1)
        if a is False or b is False:
            return False, wa if a is False else wb
        if a is None or b is None:
            return None, wa if a is None else wb
        return ("res" if "res" in (a, b) else True), f"{wa}; {wb}"
    if isinstance(e, ast.Call) and isinstance(e.func, ast.Name) and e.func.id in ("float", "int", "abs") and len(e.args) == 1 and e.func.id != "int":
        return _nonzero(fn, e.args[0], site, facts, res, depth + 1)
    if isinstance(e, ast.Call) and isinstance(e.func, ast.Name) and e.func.id == "max" and any(
            isinstance(a, ast.Constant) and isinstance(a.value, (int, float)) and a.value > 0 for a in e.args):
        return True, "max(positive constant, ...)"
    # attribute-protocol reads
    if isinstance(e, ast.Call) and isinstance(e.func, ast.Attribute) and e.func.attr == "get" and e.args and isinstance(e.args[0], ast.Constant):
        if e.args[0].value in RES_ATTRS:
            return "res", "timing resolution"
        return False, f"declared value {t[:50]} (0 is a legal declaration)"
    if isinstance(e, ast.Subscript) and isinstance(e.slice, ast.Constant) and e.slice.value in RES_ATTRS:
        return "res", "timing resolution"
    if isinstance(e, ast.Attribute) and isinstance(e.value, ast.Name) and e.value.id == "self" and e.attr in RES_FIELDS:
        return "res", RES_FIELDS[e.attr]
    if isinstance(e, ast.Name):
        vals = res(e)
        # `if not d: d = <non-zero>` (or `d <= 0`, `d == 0`, `d is None or d == 0`) before the site repairs a zero
        if site is not None:
            for i in own_nodes(fn):
                if isinstance(i, ast.If) and not i.orelse and i.lineno < getattr(site.ast, "lineno", 0):
                    tt = norm(i.test)
                    zero_tests = (f"not {e.id}", f"{e.id} == 0", f"{e.id} <= 0", f"{e.id} is None or {e.id} == 0", f"{e.id} is None or {e.id} <= 0",
                                  f"not {e.id} or {e.id} <= 0", f"{e.id} == 0.0", f"{e.id} <= 0.0")
                    asg = [a for a in i.body if isinstance(a, ast.Assign) and len(a.targets) == 1 and norm(a.targets[0]) == e.id]
                    later = [d for d in own_nodes(fn) if isinstance(d, (ast.Assign, ast.AugAssign)) and d.lineno > i.end_lineno
                             and d.lineno < getattr(site.ast, "lineno", 0)
                             and any(norm(t_) == e.id for t_ in (d.targets if isinstance(d, ast.Assign) else [d.target]))]
                    if tt in zero_tests and asg and not later and all(_nonzero(fn, a.value, None, None, res, depth + 1)[0] is True for a in asg):
                        return True, f"`if {tt}: {norm(asg[0])}` before the division"
        if not vals:
            if e.id in fn.params and e.id in RES_PARAMS:
                return "res", f"parameter {e.id} carries the timing resolution"
            return None, f"{e.id}: no local definition"
        out = []
        for v in vals:
            out.append(_nonzero(fn, v, None, None, res, depth + 1))
        if any(o[0] is False for o in out):
            return next(o for o in out if o[0] is False)
        if any(o[0] is None for o in out):
            return next(o for o in out if o[0] is None)
        return ("res" if any(o[0] == "res" for o in out) else True), out[0][1]
    return None, f"{t[:40]}: shape not interpreted"


def divisor_rule(ctx: Ctx, reach):
    """R11.7: no division on the paths of parse / schedule can divide by zero: each divisor is a non-zero constant, has a
    non-zero `or` default, is guarded by a positivity fact on every path, or is the timing resolution -- which the parser
    must reject unless positive."""
    from ..order import local_resolver
    repo = ctx.repo
    n = 0
    for fn in sorted(reach, key=lambda f: f.key):
        sites = [x for x in own_nodes(fn) if isinstance(x, ast.BinOp) and isinstance(x.op, (ast.Div, ast.FloorDiv, ast.Mod))
                 and not isinstance(x.right, ast.Constant) and not (isinstance(x.left, ast.Constant) and isinstance(x.left.value, str))
                 and not isinstance(x.left, ast.JoinedStr) and not isinstance(x.right, ast.JoinedStr)
                 and not (isinstance(x.left, ast.Call) and norm(x.left.func).split(".")[-1] in ("Path", "PurePath"))]
        if not sites:
            continue
        g = cfg_of(fn)
        facts = facts_of(fn)
        res = local_resolver(fn.node)
        for x in sites:
            site = g.node_containing(x)
            # `a / d if d > 0 else c`
            p = getattr(x, "_parent", None)
            guard = None
            while p is not None and not isinstance(p, ast.stmt):
                if isinstance(p, ast.IfExp) and any(y is x for y in ast.walk(p.body)):
                    guard = p.test
                p = getattr(p, "_parent", None)
            v, why = _nonzero(fn, x.right, site, facts, res)
            if v is not True and guard is not None and norm(guard).replace(" ", "") in (f"{norm(x.right)}>0".replace(" ", ""), f"{norm(x.right)}!=0".replace(" ", ""), norm(x.right).replace(" ", "")):
                v, why = True, f"conditional expression guard {norm(guard)}"
            n += 1
            if v is None:
                ctx.ob("R11.7", f"{fn.qual}: {norm(x)[:70]} -- divisor not decided ({why})", (fn, x), None, why, info=True)
                continue
            ok = v is not False
            ctx.ob("R11.7", f"{fn.qual}: {norm(x)[:70]}", (fn, x), ok,
                   (why if v is True else f"non-zero because the timing resolution is positive ({why})") if ok else
                   f"the divisor {norm(x.right)} can be zero ({why}) and nothing on the path excludes it: ZeroDivisionError escapes from scheduling",
                   key=key_of("R11.7", fn, x.right, "divisor"))
    # the assumption the `res` verdicts rest on: the parser hands on a positive timing resolution only
    tr = repo.func("TJPTransformer.timingresolution")
    g = cfg_of(tr)
    facts = facts_of(tr)
    res = local_resolver(tr.node)
    rets = [r for r in own_nodes(tr) if isinstance(r, ast.Return) and isinstance(r.value, ast.Tuple) and len(r.value.elts) == 2]
    if not rets:
        raise AnchorMissing("TJPTransformer.timingresolution: no (name, seconds) return")
    for r in rets:
        val = r.value.elts[1]
        v, why = _nonzero(tr, val, g.node_containing(r), facts, lambda e: [], 0) if not isinstance(val, ast.Name) else (None, "")
        if isinstance(val, ast.Name):
            site = g.node_containing(r)
            v, why = _nonzero(tr, ast.Constant(value=None), None, None, res)
            # a name: needs a positivity fact at the return (its definitions are computed from the declared number)
            v, why = (True, "fact") if any(len(cl) == 1 and tuple(cl)[0] in (((f"{val.id} > 0"), True), ((f"{val.id} <= 0"), False), ((f"{val.id} >= 1"), True), ((f"{val.id} < 1"), False))
                                           for cl in facts.at(site)) else (False, f"{val.id} is computed from the declared number")
        ok = v is True
        ctx.ob("R11.7", f"{tr.qual}: returns {norm(val)}", (tr, r), ok,
               "a positive number of seconds" if ok else
               f"the timing resolution handed to the model can be 0 ({why}; e.g. `timingresolution 0min`): every slot computation divides by it",
               key=key_of("R11.7", tr, val, "resolution positive"))
    ctx.floor("R11.7", 12)


def ordered_dates_rule(ctx: Ctx):
    """R11.9: a task is marked scheduled with start <= end.  Where the pre-pass of scheduleScenario marks a task scheduled on the
    strength of its two pinned dates alone (neither is written in that branch), the order of the two is a must-fact there."""
    ss = ctx.repo.func("Project.scheduleScenario")
    g = cfg_of(ss)
    facts = facts_of(ss)
    n = 0
    for node in g.nodes:
        a = node.ast
        if not (node.kind == "stmt" and isinstance(a, ast.Assign) and isinstance(a.targets[0], ast.Subscript)
                and isinstance(a.targets[0].slice, ast.Tuple) and a.targets[0].slice.elts and isinstance(a.targets[0].slice.elts[0], ast.Constant)
                and a.targets[0].slice.elts[0].value == "scheduled" and isinstance(a.value, ast.Constant) and a.value.value is True):
            continue
        cls = facts.at(node)
        units = {tuple(cl)[0] for cl in cls if len(cl) == 1}
        both = ("start", True) in units and ("end", True) in units
        if not both:
            continue
        # neither date is assigned in the same block
        blk = getattr(a, "_parent", None)
        sibs = getattr(blk, "body", []) + getattr(blk, "orelse", [])
        if any(isinstance(x, ast.Assign) and isinstance(x.targets[0], ast.Subscript) and isinstance(x.targets[0].slice, ast.Tuple)
               and isinstance(x.targets[0].slice.elts[0], ast.Constant) and x.targets[0].slice.elts[0].value in ("start", "end") for x in sibs):
            continue
        n += 1
        ok = bool(units & {("start <= end", True), ("end >= start", True), ("start > end", False), ("end < start", False)})
        ctx.ob("R11.9", f"{ss.qual}: {norm(a)} on two pinned dates", (ss, a), ok,
               "the task is marked scheduled only when its start does not lie after its end" if ok else
               "a task pinned to end before it starts is marked scheduled as it is: start > end in the result, and successors are placed from an "
               "end that precedes the start",
               key="R11.9|Project.scheduleScenario|pinned dates ordered")
    if not n:
        raise AnchorMissing("scheduleScenario: no branch that marks a task scheduled on two pinned dates")
    ctx.floor("R11.9", 1)


def table_exists_rule(ctx: Ctx):
    """R11.10: a resource group has no slot table (prepareScheduling builds one for leaves only).  Where available() measures or
    indexes the table (`len(self.scoreboard)`, `self.scoreboard[i]`) the fact `self.scoreboard is None` is known to be false on
    every path -- an `if self.scoreboard is None:` whose branch does not leave the function does not establish that."""
    avail = ctx.repo.func("ResourceScenario.available")
    g = cfg_of(avail)
    facts = facts_of(avail)
    n = 0
    for x in own_nodes(avail):
        use = None
        if isinstance(x, ast.Subscript) and norm(x.value) == "self.scoreboard":
            use = x
        elif isinstance(x, ast.Call) and norm(x.func) == "len" and x.args and norm(x.args[0]) == "self.scoreboard":
            use = x
        if use is None:
            continue
        node = g.node_containing(use)
        if node is None:
            continue
        n += 1
        cl = facts.holds(node, lambda t, p: (not p) and t == "self.scoreboard is None" or (p and t in ("self.scoreboard is not None", "self.scoreboard")))
        ctx.ob("R11.10", f"{avail.qual}: {norm(use)[:40]} at line {use.lineno}", (avail, use), cl is not None,
               "the slot table exists here" if cl is not None else
               "the slot table can still be None here (a resource group allocated by a task): TypeError inside the scheduler instead of "
               "an unscheduled task with a warning",
               key=key_of("R11.10", avail, None, f"table exists {norm(use)[:30]}"))
    if n < 2:
        raise AnchorMissing(f"available(): {n} uses of the slot table found")


def numeric_attribute_rule(ctx: Ctx):
    """R11.11: what the slot walk compares with numbers is a number.  The attributes TaskScenario reads as `get(id, sc) or 0` and
    compares numerically are collected; transformer callbacks that hand such an attribute on as the raw token (`("duration",
    items[0])`) give the set of text-valued ids; a write of the model builder whose attribute id is a variable
    (`obj[(attr_key, idx)] = value`) must be reached only under the fact that the id is none of them."""
    repo = ctx.repo
    numeric = set()
    for q in ("TaskScenario.scheduleSlot", "TaskScenario.schedule"):
        f = repo.func(q)
        for a in own_nodes(f):
            if isinstance(a, ast.Assign) and isinstance(a.value, ast.BoolOp) and isinstance(a.value.op, ast.Or) and len(a.value.values) == 2 \
                    and isinstance(a.value.values[1], ast.Constant) and a.value.values[1].value == 0:
                c = a.value.values[0]
                if isinstance(c, ast.Call) and isinstance(c.func, ast.Attribute) and c.func.attr == "get" and c.args and isinstance(c.args[0], ast.Constant):
                    numeric.add(c.args[0].value)
    if len(numeric) < 2:
        raise AnchorMissing(f"scheduleSlot: numeric attributes found {sorted(numeric)}")
    tr = repo.cls("TJPTransformer")
    raw = set()
    for nm, f in tr.methods.items():
        for r in own_nodes(f):
            if isinstance(r, ast.Return) and isinstance(r.value, ast.Tuple) and len(r.value.elts) == 2 and isinstance(r.value.elts[0], ast.Constant) \
                    and r.value.elts[0].value in numeric and isinstance(r.value.elts[1], ast.Subscript) and norm(r.value.elts[1].value) == (f.params[1] if len(f.params) > 1 else "items"):
                raw.add(r.value.elts[0].value)
    ap = repo.func("ModelBuilder._apply_property_attributes")
    g = cfg_of(ap)
    facts = facts_of(ap)
    n = 0
    for node in g.nodes:
        a = node.ast
        if not (node.kind == "stmt" and isinstance(a, ast.Assign) and isinstance(a.targets[0], ast.Subscript) and isinstance(a.targets[0].slice, ast.Tuple)
                and a.targets[0].slice.elts and isinstance(a.targets[0].slice.elts[0], ast.Name)):
            continue
        k = a.targets[0].slice.elts[0].id
        n += 1
        excluded = set()
        for cl in facts.at(node):
            if len(cl) == 1:
                (t, p), = tuple(cl)
                try:
                    e = ast.parse(t, mode="eval").body
                except SyntaxError:
                    continue
                if isinstance(e, ast.Compare) and len(e.ops) == 1 and norm(e.left) == k and isinstance(e.comparators[0], (ast.Tuple, ast.List, ast.Set)):
                    consts = {x.value for x in e.comparators[0].elts if isinstance(x, ast.Constant)}
                    if (isinstance(e.ops[0], ast.In) and p is False) or (isinstance(e.ops[0], ast.NotIn) and p is True):
                        excluded |= consts
        ok = raw <= excluded
        ctx.ob("R11.11", f"{ap.qual}: {norm(a)[:60]} (attribute id in a variable)", (ap, a), ok,
               f"text-valued attributes {sorted(raw)} are excluded before the write" if ok else
               f"the attribute id is a variable and {sorted(raw - excluded)} reach this write with the text the user wrote ('3d'): the slot walk then "
               "compares a string with a number (TypeError inside Project.schedule)",
               key=key_of("R11.11", ap, None, f"dynamic attribute write {n}"))
    if not n:
        raise AnchorMissing("_apply_property_attributes: no write with a variable attribute id found")


def allocation_forms_rule(ctx: Ctx):
    """R11.12: the parser hands an allocation with options on as a dict ({'resources': [...], 'options': {...}}) and one without as
    a list of ids; a second `allocate` statement appends to the first, so the stored list can hold both kinds of element.  Where
    bookResources walks that list and resolves each element as a resource id, dict elements are told apart first -- otherwise the
    dict itself is booked as if it were a resource (AttributeError inside Project.schedule)."""
    brs = ctx.repo.func("TaskScenario.bookResources")
    sites = []
    for lp in own_nodes(brs):
        if isinstance(lp, ast.For) and isinstance(lp.target, ast.Name):
            calls = [c for c in ast.walk(lp) if isinstance(c, ast.Call) and norm(c.func) == "self._resolve_resource" and c.args
                     and isinstance(c.args[0], ast.Name) and c.args[0].id == lp.target.id]
            if calls and "alloc" in norm(lp.iter):
                sites.append((lp, calls))
    if not sites:
        raise AnchorMissing("bookResources: loop resolving the elements of the allocation list not found")
    for lp, calls in sites:
        handles = any(isinstance(c, ast.Call) and norm(c.func) == "isinstance" and len(c.args) == 2 and norm(c.args[0]) == lp.target.id
                      and "dict" in norm(c.args[1]) for c in ast.walk(lp))
        # ... or the list was flattened before the loop
        ctx.ob("R11.12", f"{brs.qual}: for {lp.target.id} in {norm(lp.iter)[:30]} resolves every element as a resource id", (brs, lp), handles,
               "dict elements (allocations with options) are told apart" if handles else
               "an element that is a dict (`allocate a { alternative c }` followed by a second `allocate b`) is resolved as if it were a resource "
               "id and booked: AttributeError: 'dict' object has no attribute 'data' escapes from Project.schedule",
               key="R11.12|TaskScenario.bookResources|mixed allocation list")


def horizon_overflow_rule(ctx: Ctx):
    """R11.13: the horizon estimate adds a timedelta scaled by the total effort of the project to a date; beyond year 9999 that
    raises OverflowError.  In Project._extendProjectEndIfNeeded every `date + timedelta(<computed>)` sits in a try whose handler
    catches OverflowError (the work is then reported as not schedulable instead of the scheduler dying)."""
    fn = ctx.repo.func("Project._extendProjectEndIfNeeded")
    n = 0
    for x in own_nodes(fn):
        if not (isinstance(x, ast.BinOp) and isinstance(x.op, ast.Add)):
            continue
        td = [o for o in (x.left, x.right) if isinstance(o, ast.Call) and norm(o.func).split(".")[-1] == "timedelta"]
        if not td or all(isinstance(k.value, ast.Constant) for o in td for k in o.keywords) and all(isinstance(a, ast.Constant) for o in td for a in o.args):
            continue
        n += 1
        guarded = False
        p_ = getattr(x, "_parent", None)
        while p_ is not None and p_ is not fn.node:
            if isinstance(p_, ast.Try) and any(x is y for st in p_.body for y in ast.walk(st)):
                for h in p_.handlers:
                    names = [norm(h.type)] if h.type is not None and not isinstance(h.type, ast.Tuple) else [norm(e) for e in getattr(h.type, "elts", [])]
                    if h.type is None or any(nm in ("OverflowError", "ArithmeticError", "Exception") for nm in names):
                        guarded = True
            p_ = getattr(p_, "_parent", None)
        ctx.ob("R11.13", f"{fn.qual}: {norm(x)[:60]}", (fn, x), guarded,
               "an estimate beyond the calendar is caught" if guarded else
               "the estimated horizon is added to the project start unguarded: for an effort of millions of days the date leaves the calendar "
               "and OverflowError escapes from Project.schedule",
               key=key_of("R11.13", fn, x, "horizon overflow"))
    if not n:
        raise AnchorMissing("_extendProjectEndIfNeeded: date + timedelta(estimate) not found")


def backward_entry_window_rule(ctx: Ctx):
    """R11.14: a backward task whose deadline lies beyond the scheduling horizon is reported as not schedulable, as a start pinned
    after the project end is: between the assignment of the cursor from an explicit deadline (`cursor = slot(end) - 1`) and the
    loops that search downwards for a working slot -- which would walk the cursor back INTO the horizon and so hide the problem
    from the run-away test -- every path passes a test of the cursor against the slot of the project end."""
    fn = ctx.repo.func("TaskScenario.schedule")
    g = cfg_of(fn)
    starts = []
    for n in g.nodes:
        a = n.ast
        if n.kind == "stmt" and isinstance(a, ast.Assign) and norm(a.targets[0]) == "self.currentSlotIdx" and isinstance(a.value, ast.BinOp) \
                and isinstance(a.value.op, ast.Sub) and isinstance(a.value.left, ast.Call) and norm(a.value.left.func).endswith("dateToIdx") \
                and a.value.left.args and "project" not in norm(a.value.left.args[0]):
            starts.append(n)
    if not starts:
        raise AnchorMissing("TaskScenario.schedule: backward cursor initialisation from an explicit deadline not found")

    def is_window_test(n):
        if n.kind != "if" or n.ast is None:
            return False
        t = norm(n.ast).replace('"', "'")
        return "self.currentSlotIdx" in t and "dateToIdx" in t and "'end'" in t and ">" in t
    for st in starts:
        downs = [n for n in g.nodes if n.kind == "while" and n.ast is not None and "self.currentSlotIdx >" in norm(n.ast)
                 and n.id in g.reachable(st, normal_only=True)]
        ok = bool(downs) and all(g.all_paths_pass(st, d, is_window_test) for d in downs)
        ctx.ob("R11.14", f"{fn.qual}: {norm(st.ast)[:60]} is tested against the horizon before the search for a working slot", (fn, st.ast), ok,
               "a deadline beyond the horizon makes the task a run-away before the cursor is moved" if ok else
               "the cursor set from an explicit deadline is walked down to the last working slot without a test against the project end: a backward "
               "milestone dated after the horizon is marked scheduled there, outside the horizon, with no warning",
               key="R11.14|TaskScenario.schedule|backward entry window")


TREE_WORDS = ("children", "kids", "parent", "parents", "adoptees", "stepParents", "ancestors")


def run(ctx: Ctx):
    repo = ctx.repo
    roots = [repo.func("ProjectFileParser.parse"), repo.func("Project.schedule"), repo.func("Report.generate"),
             repo.func("preprocess_tjp")]
    from .common import framework_callbacks
    roots = roots + framework_callbacks(repo)
    reach = ctx.cg.reach(roots)
    ctx.stats["functions_reachable"] = len(reach)
    divisor_rule(ctx, reach)
    ordered_dates_rule(ctx)
    table_exists_rule(ctx)
    numeric_attribute_rule(ctx)
    allocation_forms_rule(ctx)
    horizon_overflow_rule(ctx)
    backward_entry_window_rule(ctx)
    # ---------------------------------------------------------------- R11.1
    n_while = 0
    undecided = []
    for fn in sorted(reach, key=lambda f: f.key):
        for w in own_nodes(fn):
            if isinstance(w, ast.While):
                n_while += 1
                kind, detail = classify(fn, w)
                if kind is not None:
                    ctx.ob("R11.1", f"{fn.qual}: while {norm(w.test)[:70]}", (fn, w), True, f"variant: {kind} — {detail}",
                           key=key_of("R11.1", fn, None, "while " + norm(w.test)[:80]))
                    continue
                bad = definite_problem(fn, w)
                if bad is not None:
                    ctx.ob("R11.1", f"{fn.qual}: while {norm(w.test)[:70]}", (fn, w), False,
                           f"{bad[0]} loop: {bad[1]}; the loop runs until an index leaves its table or for ever",
                           key=key_of("R11.1", fn, None, "while " + norm(w.test)[:80]))
                else:
                    undecided.append(f"{fn.loc(w)} {fn.qual}: while {norm(w.test)[:60]} ({detail[:120]})")
            elif isinstance(w, ast.For) and isinstance(w.iter, ast.Name):
                grows = [c for st in w.body for c in ast.walk(st) if isinstance(c, ast.Call) and isinstance(c.func, ast.Attribute)
                         and c.func.attr in ("append", "extend", "insert") and norm(c.func.value) == w.iter.id]
                if grows:
                    ctx.ob("R11.1", f"{fn.qual}: for over {w.iter.id} which the body extends", (fn, w), False,
                           "the loop appends to the list it iterates: it may never finish",
                           key=key_of("R11.1", fn, None, "for-grow " + w.iter.id))
    ctx.stats["while_loops"] = n_while
    ctx.stats["undecided_loops"] = undecided
    # ---------------------------------------------------------------- R11.2
    sb = repo.cls("Scoreboard")
    for nm in ("__getitem__", "__setitem__"):
        f = sb.methods.get(nm)
        if f is None:
            raise AnchorMissing(f"Scoreboard.{nm} not found")
        facts = facts_of(f)
        g = cfg_of(f)
        idxp = f.params[1]
        for n in g.nodes:
            if n.ast is None or n.kind != "stmt":
                continue
            subs = [s for s in ast.walk(n.ast) if isinstance(s, ast.Subscript) and norm(s.value) == "self.sb"]
            for s in subs:
                cl = facts.holds(n, lambda t, p: (not p) and t.replace(" ", "") in (f"{idxp}<0",))
                ctx.ob("R11.2", f"{f.qual}: {norm(s)}", (f, s), cl is not None,
                       "negative slot indices are rejected (no wrap-around to the end of the table)" if cl else
                       "the slot table is a Python list indexed without a lower-bound test: a negative slot silently addresses the end of the table",
                       key=key_of("R11.2", f, None, "negative index"))
    # census: every access <x>.scoreboard[<index>] in reachable code is in range by construction
    from ..order import local_resolver

    def sizeish(e, res, d=0):
        t = norm(e)
        if t in ("size", "self.size") or "scoreboardSize()" in t or (t.startswith("len(") and "scoreboard" in t):
            return True
        if isinstance(e, ast.Call) and norm(e.func) == "min":
            return any(sizeish(a, res, d) for a in e.args)
        if isinstance(e, ast.Name) and d < 3:
            vals = res(e)
            return bool(vals) and all(sizeish(v, res, d + 1) for v in vals)
        return False

    def nonneg(e, res, d=0):
        if isinstance(e, ast.Constant) and isinstance(e.value, int) and e.value >= 0:
            return True
        if isinstance(e, ast.Call) and norm(e.func) == "max":
            return any(nonneg(a, res, d) for a in e.args)
        if isinstance(e, ast.Name) and d < 3:
            vals = res(e)
            return bool(vals) and all(nonneg(v, res, d + 1) for v in vals)
        return False
    n_sub = 0
    for fn in sorted(reach, key=lambda f: f.key):
        if not fn.module.rel.startswith("scriptplan/core/"):
            continue
        subs = [x for x in own_nodes(fn) if isinstance(x, ast.Subscript) and isinstance(x.value, ast.Attribute) and x.value.attr == "scoreboard"
                and not isinstance(x.slice, ast.Slice)]
        if not subs:
            continue
        res = local_resolver(fn.node)
        facts = facts_of(fn)
        g = cfg_of(fn)
        for sx in subs:
            n_sub += 1
            idx = sx.slice
            it = norm(idx)
            why = None
            # (a) loop variable of a range() with clamped bounds
            p_ = getattr(sx, "_parent", None)
            while p_ is not None and p_ is not fn.node and why is None:
                if isinstance(p_, ast.For) and norm(p_.target) == it and isinstance(p_.iter, ast.Call) and norm(p_.iter.func) == "range":
                    a = p_.iter.args
                    lo_ok = len(a) == 1 or nonneg(a[0], res)
                    hi_ok = sizeish(a[0] if len(a) == 1 else a[1], res)
                    if lo_ok and hi_ok:
                        why = f"loop variable of {norm(p_.iter)[:50]}: lower bound >= 0, upper bound <= table size"
                    else:
                        why = False
                        detail = (f"loop {norm(p_.iter)[:60]} indexes the slot table with "
                                  f"{'a lower bound that can be negative' if not lo_ok else 'an upper bound that is not limited to the table size'}: "
                                  "an interval that begins before the project start (or ends after its end) raises IndexError inside the scheduler")
                p_ = getattr(p_, "_parent", None)
            # (b) range facts on every path / availability fact (available() answers True only for slots inside the table)
            if why is None:
                node = g.node_containing(sx)
                lo = facts.holds(node, lambda t, p: (not p) and t.replace(" ", "") == f"{it}<0") if node else None
                hi = facts.holds(node, lambda t, p: (not p) and t.replace(" ", "").startswith(f"{it}>=") and ("size" in t or "len(" in t)) if node else None
                av = facts.holds(node, lambda t, p: p and (t == "force" or t.endswith(f".available({it})"))) if node else None
                if lo is not None and hi is not None:
                    why = f"0 <= {it} < size holds on every path to the access"
                elif av is not None and any(t != "force" for (t, _p) in av):
                    why = f"reached only after available({it}) answered True (it does so only for slots inside the table)"
                else:
                    why = False
                    detail = (f"the slot table is indexed with {it} without a range test on every path (lower {lo is not None}, upper {hi is not None}): "
                              "a bound outside the project window raises IndexError inside the scheduler")
            # (c) the index is a parameter and every call site establishes the range before the call
            if not why and it in fn.params:
                pos = fn.params.index(it) - (1 if fn.cls is not None else 0)
                sites_ok, n_sites = True, 0
                for (caller, call) in ctx.cg.callers(fn):
                    if caller not in reach:
                        continue
                    n_sites += 1
                    arg = call.args[pos] if 0 <= pos < len(call.args) else next((k.value for k in call.keywords if k.arg == it), None)
                    if arg is None:
                        sites_ok = False
                        break
                    at = norm(arg).replace(" ", "")
                    cf, cgph = facts_of(caller), cfg_of(caller)
                    cn = cgph.node_containing(call)
                    lo_c = cf.holds(cn, lambda t, p: (not p) and t.replace(" ", "") == f"{at}<0") if cn else None
                    hi_c = cf.holds(cn, lambda t, p: (not p) and t.replace(" ", "").startswith(f"{at}>=") and ("size" in t or "len(" in t)) if cn else None
                    if lo_c is None or hi_c is None:
                        sites_ok = False
                        break
                if n_sites and sites_ok:
                    why = f"{it} is a parameter and each of the {n_sites} reachable call site(s) establishes 0 <= {it} < size before the call"
            ctx.ob("R11.2", f"{fn.qual}: {norm(sx)[:50]} at line {getattr(sx, 'lineno', '?')}", (fn, sx), bool(why),
                   why if why else detail, key=key_of("R11.2", fn, None, f"range {norm(sx)}"))
    if n_sub < 10:
        raise AnchorMissing(f"slot-table accesses found: {n_sub}")
    # functions that take a slot and index a slot table
    for qual, slot_param, table in (("Project.isWorkingTime", "sbIdx", "self.scoreboard"),
                                    ("ResourceScenario.available", "sb_idx", "self.scoreboard")):
        f = repo.func(qual)
        facts = facts_of(f)
        g = cfg_of(f)
        for n in g.nodes:
            if n.ast is None:
                continue
            root = n.ast if n.kind != "for" else n.ast.iter
            if isinstance(root, (ast.FunctionDef, ast.ClassDef)):
                continue
            subs = [s for s in ast.walk(root) if isinstance(s, ast.Subscript) and norm(s.value) == table and norm(s.slice) == slot_param]
            for s in subs:
                lo = facts.holds(n, lambda t, p: (not p) and t.replace(" ", "") == f"{slot_param}<0")
                hi = facts.holds(n, lambda t, p: (not p) and t.replace(" ", "").startswith(f"{slot_param}>=") and ("size" in t or "len(" in t))
                ok = lo is not None and hi is not None
                ctx.ob("R11.2", f"{f.qual}: {norm(s)} at line {getattr(s, 'lineno', '?')}", (f, s), ok,
                       f"0 <= {slot_param} < size holds on every path to the access" if ok else
                       f"the slot table is indexed with a caller-supplied slot without a range test (lower {lo is not None}, upper {hi is not None}): "
                       "a bound outside the project window raises IndexError inside the scheduler",
                       key=key_of("R11.2", f, None, f"range {norm(s)}"))
    # gaplength skip loop bounded by the horizon is covered by R11.1; the slot walk's window test:
    sched = repo.func("TaskScenario.schedule")
    from .common import slot_walks
    walks = slot_walks(sched)
    for w in walks:
        win = [i for i in w.body if isinstance(i, ast.If) and "lowerLimit" in norm(i.test) and "upperLimit" in norm(i.test)]
        ok = bool(win) and any(isinstance(s, ast.Return) for s in win[0].body) and \
            any(isinstance(s, ast.Assign) and norm(s.targets[0]) == "self.isRunAway" for s in win[0].body)
        ctx.ob("R11.2", f"{sched.qual}: runaway test in the slot walk", (sched, w), ok,
               "cursor outside [start, end] marks the task as runaway and stops" if ok else "slot walk has no runaway exit",
               key="R11.2|schedule|runaway")
    # ... and that test can fire: the cursor is set from Project.dateToIdx(), which must hand back the raw index of a date outside
    # the window -- a result clamped into [0, size) makes `cursor < lowerLimit or cursor > upperLimit` unsatisfiable at entry, and a
    # task pinned outside the time frame is reported as scheduled with dates outside the horizon
    d2i = repo.func("Project.dateToIdx")
    clamps = []
    for x in own_nodes(d2i):
        if isinstance(x, (ast.Assign, ast.Return)) and x.value is not None and any(
                isinstance(c_, ast.Call) and isinstance(c_.func, ast.Name) and c_.func.id in ("min", "max") for c_ in ast.walk(x.value)):
            clamps.append(x)
    from .common import enclosing_ifs as _eifs2
    sites = [c_ for c_ in own_nodes(sched) if isinstance(c_, ast.Call) and norm(c_.func) == "self.project.dateToIdx"]
    if not sites:
        raise AnchorMissing("TaskScenario.schedule: no call of self.project.dateToIdx")
    bad = []
    for x in clamps:
        gs = [(i, b) for (i, b) in _eifs2(x, d2i.node)]
        switch = [norm(i.test) for (i, b) in gs if b == "T" and norm(i.test) in d2i.params]
        # `clamped if flag else raw`
        for ie in ast.walk(x.value):
            if isinstance(ie, ast.IfExp) and norm(ie.test) in d2i.params and any(
                    isinstance(c_, ast.Call) and isinstance(c_.func, ast.Name) and c_.func.id in ("min", "max") for c_ in ast.walk(ie.body)) and not any(
                    isinstance(c_, ast.Call) and isinstance(c_.func, ast.Name) and c_.func.id in ("min", "max") for c_ in ast.walk(ie.orelse)):
                switch.append(norm(ie.test))
        if not switch:
            bad.append((x, "unconditionally"))
            continue
        pidx = d2i.params.index(switch[0]) - 1
        # the parameter's default (positional defaults align with the end of the parameter list)
        a_ = d2i.node.args
        pos = [x.arg for x in a_.posonlyargs + a_.args]
        dflt = None
        if switch[0] in pos and len(pos) - pos.index(switch[0]) <= len(a_.defaults):
            dflt = a_.defaults[len(a_.defaults) - (len(pos) - pos.index(switch[0]))]
        for c_ in sites:
            passed = c_.args[pidx] if 0 <= pidx < len(c_.args) else next((k.value for k in c_.keywords if k.arg == switch[0]), dflt)
            if not (isinstance(passed, ast.Constant) and passed.value is False):
                bad.append((x, f"unless {switch[0]}=False is passed, and {norm(c_)[:50]} does not pass it"))
                break
    ctx.ob("R11.2", f"{d2i.qual}: raw index for the slot walk ({len(clamps)} clamp(s), {len(sites)} call(s) in schedule)", (d2i, bad[0][0] if bad else None), not bad,
           "a date outside the window maps outside [0, size): the run-away test sees it" if not bad else
           f"{norm(bad[0][0])[:60]} clamps the index into the slot table {bad[0][1]}: the slot walk's run-away test never fires for a task "
           "pinned outside the project time frame, which is then reported as scheduled with dates outside the horizon",
           key="R11.2|Project.dateToIdx|raw index")
    # the walk never BEGINS outside the window either: at the loop header the cursor is inside [lower, upper] on every path
    # (a task pinned outside the project frame must be reported, not given dates beyond the horizon)
    gsch = cfg_of(sched)
    fsch = facts_of(sched)
    for w in walks:
        hdr = gsch.node_of(w)
        lo = fsch.holds(hdr, lambda t, p: (not p) and t.replace(" ", "") == "self.currentSlotIdx<lowerLimit")
        hi = fsch.holds(hdr, lambda t, p: (not p) and t.replace(" ", "") == "self.currentSlotIdx>upperLimit")
        ok = lo is not None and hi is not None
        ctx.ob("R11.2", f"{sched.qual}: the slot walk begins inside the project window", (sched, w), ok,
               "lowerLimit <= cursor <= upperLimit holds whenever scheduleSlot() is called" if ok else
               f"scheduleSlot() can be called with a cursor outside the project window (lower fact {lo is not None}, upper fact "
               f"{hi is not None}): a milestone or duration task pinned outside the time frame is marked scheduled with dates beyond the horizon",
               key="R11.2|schedule|walk starts in window")
    ssn = repo.func("Project.scheduleScenario")
    gss = cfg_of(ssn)
    pre = [l for l in own_nodes(ssn) if isinstance(l, ast.For) and norm(l.iter) == "all_tasks"]
    if not pre:
        raise AnchorMissing("scheduleScenario: milestone pre-pass not found")
    marks = [n for n in gss.nodes if n.kind == "stmt" and isinstance(n.ast, ast.Assign) and "scheduled" in norm(n.ast.targets[0])
             and any(n.ast is x for st in pre[0].body for x in ast.walk(st))]
    hdr = gss.node_of(pre[0])

    def horizon_test(n):
        if n.kind != "if" or n.ast is None:
            return False
        t = norm(n.ast.test if isinstance(n.ast, ast.If) else n.ast).replace('"', "'")
        return "self['start']" in t and "self['end']" in t
    for m in marks:
        ok = gss.all_paths_pass(hdr, m, horizon_test)
        ctx.ob("R11.2", f"{ssn.qual}: pre-pass {norm(m.ast)[:50]} only for dates inside the project frame", (ssn, m.ast), ok,
               "milestones pinned outside [project start, project end] are left to the walk (which reports them)" if ok else
               "the milestone pre-pass marks a task scheduled without comparing its pinned date with the project frame",
               key=key_of("R11.2", ssn, None, "prepass horizon " + norm(m.ast)[:40]))
    if not marks:
        raise AnchorMissing("scheduleScenario: milestone pre-pass marks nothing as scheduled")
    # ... and EACH pinned date is compared, not one chosen among them (round 8, C11-13: `anchor = start or end` tested alone let a
    # milestone with its start inside and its end beyond the frame be marked scheduled outside the horizon). For every date local
    # of the pre-pass (task.get('start'|'end')) and every mark: all paths pass a frame test that compares that very date -- directly,
    # through a plain local copy, or as an element of the tuple a generator ranges over -- unless the mark stands under `not <date>`.
    from ..order import local_resolver as _lr11
    res11 = _lr11(ssn.node)
    dates = {}
    for st in pre[0].body:
        for x in ast.walk(st):
            if isinstance(x, ast.Assign) and len(x.targets) == 1 and isinstance(x.targets[0], ast.Name) and isinstance(x.value, ast.Call) \
                    and norm(x.value.func) == "task.get" and x.value.args and const_str(x.value.args[0]) in ("start", "end"):
                dates[x.targets[0].id] = const_str(x.value.args[0])
    if set(dates.values()) != {"start", "end"}:
        raise AnchorMissing(f"scheduleScenario: pre-pass date locals not found ({dates})")

    def covers(test, v):
        gens = {}
        for g in ast.walk(test):
            if isinstance(g, ast.comprehension) and isinstance(g.target, ast.Name) and isinstance(g.iter, (ast.Tuple, ast.List)):
                gens[g.target.id] = {e.id for e in g.iter.elts if isinstance(e, ast.Name)}
        for c_ in ast.walk(test):
            if not isinstance(c_, ast.Compare):
                continue
            t_ = norm(c_).replace('"', "'")
            if "self['start']" not in t_ and "self['end']" not in t_:
                continue
            for o in [c_.left] + list(c_.comparators):
                if not isinstance(o, ast.Name):
                    continue
                if o.id == v or v in gens.get(o.id, ()):
                    return True
                if o.id not in dates and any(isinstance(d_, ast.Name) and d_.id == v for d_ in res11(o)):
                    return True
        return False

    fss = facts_of(ssn)
    for m in marks:
        for v in sorted(dates):
            if fss.holds(m, lambda t, p_, v=v: (not p_) and t == v) is not None:
                continue

            def tests_v(n, v=v):
                if n.kind != "if" or n.ast is None:
                    return False
                return covers(n.ast.test if isinstance(n.ast, ast.If) else n.ast, v)
            ok = gss.all_paths_pass(hdr, m, tests_v)
            ctx.ob("R11.2", f"{ssn.qual}: pre-pass {norm(m.ast)[:40]}: the pinned `{v}` itself is compared with the project frame", (ssn, m.ast), ok,
                   "each pinned date is tested on its own" if ok else
                   f"the frame test on the way to this mark does not compare `{v}` itself (one date is chosen among several): a milestone "
                   f"whose other date lies inside the frame is marked scheduled with its `{dates[v]}` beyond the horizon, with no warning",
                   key=key_of("R11.2", ssn, None, f"prepass horizon each {v} " + norm(m.ast)[:30]))
    # ---------------------------------------------------------------- R11.3 recursion
    succ = {f: set() for f in reach}
    site_of = {}
    for fn in reach:
        for (node, tgs) in ctx.cg.sites(fn):
            if not isinstance(node, ast.Call):
                continue
            fx = node.func
            precise = isinstance(fx, ast.Name) or (isinstance(fx, ast.Attribute) and isinstance(fx.value, ast.Name)
                                                   and fx.value.id in ("self", "cls"))
            for t in tgs:
                if t not in reach:
                    continue
                # precisely resolved edges only (bare names, self./cls. methods, nested defs): by-name edges would
                # turn every delegation to a same-named method of another object into a 'cycle'
                if precise:
                    succ[fn].add(t)
                    site_of.setdefault((fn, t), node)
    sccs = _sccs(succ)
    n_rec = 0
    for comp in sccs:
        for fn in sorted(comp, key=lambda f: f.key):
            for t in sorted(succ[fn] & comp, key=lambda f: f.key):
                node = site_of[(fn, t)]
                txt = norm(node)
                env_txt = _loop_sources(fn, node)
                n_rec += 1
                tree = any(wd in txt or wd in env_txt for wd in TREE_WORDS) or _passes_through(fn, node)
                dep_edge = ("depends" in env_txt or "deps" in env_txt) and not any(wd in txt for wd in TREE_WORDS)
                # construction of the declaration tree of the input text (nested task / report / scenario blocks)
                decl = fn.module.rel.startswith("scriptplan/parser/") and any(w in txt + env_txt for w in ("attr", "child", "attributes"))
                ok = (tree or decl) and not dep_edge
                # structural recursion over a value: a function that calls itself on the ELEMENTS of its own parameter (the items of a
                # list / tuple, the values of a dict) descends a finite nested value; depth = nesting depth of that value
                structural = False
                if t is fn and fn.params and len(node.args) == 1 and isinstance(node.args[0], ast.Name):
                    prm = [p_ for p_ in fn.params if p_ not in ("self", "cls")][:1]
                    el = node.args[0].id
                    for x in ast.walk(fn.node):
                        gens = x.generators if isinstance(x, (ast.ListComp, ast.SetComp, ast.DictComp, ast.GeneratorExp)) else []
                        for gen in gens:
                            tg = {y.id for y in ast.walk(gen.target) if isinstance(y, ast.Name)}
                            it = norm(gen.iter)
                            if el in tg and prm and (it == prm[0] or it in (f"{prm[0]}.items()", f"{prm[0]}.values()")) \
                                    and any(node is y for y in ast.walk(x)):
                                structural = True
                        if isinstance(x, ast.For):
                            tg = {y.id for y in ast.walk(x.target) if isinstance(y, ast.Name)}
                            it = norm(x.iter)
                            if el in tg and prm and (it == prm[0] or it in (f"{prm[0]}.items()", f"{prm[0]}.values()")) \
                                    and any(node is y for y in ast.walk(x)):
                                structural = True
                if structural and not dep_edge:
                    ok = True
                ctx.ob("R11.3", f"{fn.qual} -> {t.qual}: {txt[:60]}", (fn, node), ok,
                       ("recursion descends the elements of its own argument (depth = nesting depth of the value)" if structural else
                        "recursion descends the property / declaration tree (depth = nesting depth)") if ok else
                       ("recursion follows dependency edges: stack depth grows with the length of a dependency chain (RecursionError on long chains)"
                        if dep_edge else "recursive call whose argument is not derived from the property tree"),
                       key=key_of("R11.3", fn, None, f"rec {t.qual} {txt[:60]}"))
    ctx.stats["recursive_call_sites"] = n_rec
    # ---------------------------------------------------------------- R11.4 (informational)
    exits = []
    for fn in reach:
        for c in own_nodes(fn):
            if isinstance(c, ast.Call):
                s = sink_of(fn, c)
                if s and s[0] == "exit":
                    exits.append(f"{fn.qual} ({fn.loc(c)})")
    ctx.ob("R11.4", f"process-exit calls reachable from library entry points: {sorted(exits)}", roots[0], None,
           "MessageHandlerInstance turns ERROR messages into sys.exit(1) unless a trap is set up; the plan CLI converts it into a "
           "failure (fix 90132b5); a library caller still sees SystemExit", info=True)
    # ---------------------------------------------------------------- R11.5
    em = repo.func("MacroProcessor._expand_macros")
    # the loops that re-expand the text: every loop whose body assigns the text it tests
    def reexpands(w):
        return isinstance(w, ast.While) or any(isinstance(a_, (ast.Assign, ast.AugAssign)) and any(
            isinstance(t_, ast.Name) and t_.id == "content" for t_ in (a_.targets if isinstance(a_, ast.Assign) else [a_.target])) for a_ in ast.walk(w))
    caps = [w for w in own_nodes(em) if isinstance(w, (ast.While, ast.For)) and reexpands(w)]

    def capped(w):
        if isinstance(w, ast.For):
            # a pass counter drawn from range(..) ends by construction
            return isinstance(w.iter, ast.Call) and norm(w.iter.func) == "range" and not any(isinstance(x, ast.Starred) for x in w.iter.args)
        return classify(em, w)[0] == "cursor" and "max_iterations" in norm(w.test)
    ok = bool(caps) and all(capped(w) for w in caps)
    ctx.ob("R11.5", f"{em.qual}: expansion passes are capped", em, ok, "iteration < max_iterations with iteration += 1 per pass" if ok else
           "macro expansion has no iteration cap: a self-referential macro loops for ever", key="R11.5|_expand_macros|cap")
    # ---------------------------------------------------------------- R11.6 the scheduling horizon is defined
    # Project.schedule converts project['end'] to a slot index (dateToIdx) without a None test; the model builder is the only
    # writer: every normal path of ModelBuilder.build from the creation of the Project to its return either assigns
    # project['end'] or passes a test of it that raises
    mb = repo.func("ModelBuilder.build")
    gm = cfg_of(mb)

    def defines_end(n):
        a = n.ast
        if a is None:
            return False
        if n.kind == "stmt" and isinstance(a, ast.Assign) and any(isinstance(t, ast.Subscript) and norm(t.slice) in ("'end'", '"end"')
                                                                  and "project" in norm(t.value) for t in a.targets):
            # only an unconditional definition counts; conditional ones are covered by the check below
            return False
        tst = a.test if isinstance(a, ast.If) else (a if n.kind == "if" else None)
        if tst is not None and "end" in norm(tst) and "None" in norm(tst) and "project" in norm(tst):
            body = None
            p_ = a if isinstance(a, ast.If) else getattr(a, "_parent", None)
            if isinstance(p_, ast.If):
                body = p_.body
            return bool(body) and any(isinstance(x, ast.Raise) for x in body)
        return False
    rets = [n for n in gm.nodes if n.kind == "stmt" and isinstance(n.ast, ast.Return)]
    creates = [n for n in gm.nodes if n.kind == "stmt" and isinstance(n.ast, ast.Assign) and isinstance(n.ast.value, ast.Call)
               and norm(n.ast.value.func) == "Project"]
    if not rets or not creates:
        raise AnchorMissing("ModelBuilder.build: Project(...) creation / return not found")
    for r in rets:
        if r.ast.value is None or "project" not in norm(r.ast.value):
            continue
        ok = gm.all_paths_pass(creates[0], r, defines_end)
        ctx.ob("R11.6", f"{mb.qual}: the project end is defined on every path to {norm(r.ast)[:40]}", (mb, r.ast), ok,
               "a header that yields no end is rejected before the project is returned" if ok else
               "a project can leave the model builder without an end date (header without duration, unknown unit): "
               "Project.schedule then fails with a TypeError in dateToIdx(None)",
               key="R11.6|ModelBuilder.build|end defined")
    ctx.floor("R11.6", 1)
    # the passes are capped, and so is the text: a macro calling itself twice doubles the text on every pass
    grows = [n for n in own_nodes(em) if isinstance(n, ast.If) and "len(content)" in norm(n.test) and any(isinstance(x, ast.Raise) for x in n.body)
             and any(any(n is y for y in ast.walk(w)) for w in caps)]
    ctx.ob("R11.5", f"{em.qual}: the size of the expanded text is bounded inside the loop", em, bool(grows),
           "expansion stops with an error when the text outgrows its bound" if grows else
           "only the number of passes is bounded: `macro m [ ${m} ${m} ]` doubles the text on each of the 100 passes and the parser does not return",
           key="R11.5|_expand_macros|size cap")
    # ... and the bound is fixed before the passes begin: a bound recomputed from the text each pass starts with grows with the text
    for gtest in grows:
        bnames = {x.id for x in ast.walk(gtest.test) if isinstance(x, ast.Name) and x.id != "content" and x.id != "len"}
        for bn in sorted(bnames):
            defs = [a for a in own_nodes(em) if isinstance(a, (ast.Assign, ast.AnnAssign)) and a.value is not None
                    and any(isinstance(t, ast.Name) and t.id == bn for t in (a.targets if isinstance(a, ast.Assign) else [a.target]))]
            moving = [a for a in defs if any(any(a is y for y in ast.walk(w)) for w in caps) and "content" in norm(a.value)]
            if defs:
                ctx.ob("R11.5", f"{em.qual}: size bound {bn} is fixed before the passes", (em, (moving or defs)[0]), not moving,
                       "computed once from the input" if not moving else
                       f"{bn} is recomputed inside the pass loop from the text of that pass: it grows with the expansion it is meant to bound, "
                       "so a macro that calls itself a few times per round is never rejected",
                       key=f"R11.5|_expand_macros|{bn} fixed")
    ctx.floor("R11.1", 30)
    ctx.floor("R11.2", 5)
    ctx.floor("R11.3", 3)
    if undecided:
        # neither a variant nor a definite defect: the analysis cannot decide termination of these loops
        raise Inconclusive("no variant recognised for: " + "; ".join(undecided))


def _loop_sources(fn, node) -> str:
    """Text of the iterables of the for-loops enclosing node plus assignments feeding its names."""
    out = []
    p = getattr(node, "_parent", None)
    while p is not None and p is not fn.node:
        if isinstance(p, (ast.For, ast.comprehension)):
            out.append(norm(p.iter))
        p = getattr(p, "_parent", None)
    names = {x.id for x in ast.walk(node) if isinstance(x, ast.Name)}
    for n in own_nodes(fn):
        if isinstance(n, ast.Assign) and any(isinstance(t, ast.Name) and t.id in names for t in n.targets):
            out.append(norm(n.value))
        if isinstance(n, ast.For) and any(isinstance(t, ast.Name) and t.id in names for t in ast.walk(n.target)):
            out.append(norm(n.iter))
    return " ".join(out)


def _passes_through(fn, node) -> bool:
    """A forwarding method of a name family (Task.x -> TaskScenario.x): same arguments handed on,
    the tree descent happens in the callee."""
    return isinstance(node.func, ast.Attribute) and node.func.attr == fn.name and fn.cls is not None \
        and any(isinstance(a, ast.Subscript) and "data" in norm(a) for a in ast.walk(fn.node) if isinstance(a, ast.Subscript))


def _sccs(succ: dict) -> list:
    """Strongly connected components with a cycle (Tarjan, iterative)."""
    fs = list(succ)
    index, low, on, stack, out = {}, {}, set(), [], []
    counter = [0]
    for root in fs:
        if root in index:
            continue
        work = [(root, iter(sorted(succ[root], key=lambda f: f.key)))]
        index[root] = low[root] = counter[0]
        counter[0] += 1
        stack.append(root)
        on.add(root)
        while work:
            v, it = work[-1]
            adv = False
            for w in it:
                if w not in index:
                    index[w] = low[w] = counter[0]
                    counter[0] += 1
                    stack.append(w)
                    on.add(w)
                    work.append((w, iter(sorted(succ[w], key=lambda f: f.key))))
                    adv = True
                    break
                elif w in on:
                    low[v] = min(low[v], index[w])
            if adv:
                continue
            work.pop()
            if work:
                low[work[-1][0]] = min(low[work[-1][0]], low[v])
            if low[v] == index[v]:
                comp = set()
                while True:
                    w = stack.pop()
                    on.discard(w)
                    comp.add(w)
                    if w is v:
                        break
                if len(comp) > 1 or v in succ[v]:
                    out.append(comp)
    return out
