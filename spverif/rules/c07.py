"""C07 — ASAP schedules equal the priority-ordered earliest-fit schedule (thin structural clauses).

Decided (shared with C08/C09 through the functions below):
  R07.1  scheduling order: the sort key is antitone in priority, then (with no writer of
         pathcriticalness) increasing in the declaration sequence number; list.sort is stable; the default
         priority equals the attribute table's default
  R07.2  the scan restarts after each placement: after task.schedule() every path leaves the inner loop,
         the placed task is removed, not-ready tasks are skipped, only leaves that are not yet scheduled
         are on the work list
  R07.3  slot walk: inside `while scheduleSlot()` the cursor moves by exactly +1 (forward) / -1 (backward)
         and nothing reachable from scheduleSlot writes it; the forward cursor starts in the slot of the bound
         (offset 0), the backward cursor one slot before the deadline (offset -1); the walk stops at the horizon
  R07.4  the dependency bound is a max-accumulator over all edges, gap added before the comparison (= C04 R04.2 forward)
  R07.5  a team is booked only when every member is available and within the task limits for the slot (= C03 R03.1)
  R07.6  a slot is booked only under the availability and task-limit facts for that slot and resource (= C03 R03.6)
  R07.7  "within limits": the daily / weekly limit period of a slot is its calendar day / week (= C05 R05.6)
  R07.8  one roll-up call closes every complete nesting level: a task depending on an outer container is ready in the next
         round (= C10 R10.7)
  R07.9  the limit objects the scheduler consults are complete copies of the declared ones (= C05 R05.7)
  R07.10 no calendar, limit or readiness answer comes from state that outlives the question (memo keys, attribute slots,
         class-/module-level containers; common.process_state_rule)
  R07.13 a forward task is ready only on a path that examined every edge (no early `ready` before the loop over the edges)
Not decided: equality with an independent reference scheduler — a relation between computed values that
no static argument in reach can establish.
"""
from __future__ import annotations

import ast

from ..cfg import cfg_of
from ..core import Ctx, key_of
from ..dep import data, full
from ..model import AnchorMissing, Inconclusive, const_str, dotted, norm, own_nodes
from ..order import affine, local_resolver, mono, order_table
from .common import calls_named, heap_writes

META = {
    "level": "other",
    "technique": "static analysis: monotonicity of the sort key, CFG reachability (scan restart), affine cursor offsets, write census of the cursor",
    "explanation": "Structural necessary conditions of the list-scheduling rule: sort-key monotonicity in priority and "
                   "sequence number, restart of the ready-scan after every placement, unit cursor stride with no other "
                   "writer, cursor start offsets 0 / -1. Equality with a reference scheduler is NOT decided."
                   " Also: resolution of the key function wherever it lives and its scenario argument, container roll-up before the first and between a placement and the next readiness scan, clearing of the mid-slot offset when the cursor moves, and the shared clauses of C04 (bound accumulator), C03 (team gate, booking guard) and C05 (period index)."
                   " Round 3: roll-up order (C10), limit-copy completeness (C05) and the process-state rule are evaluated as necessary conditions of equality with the reference schedule."
                   " Round 4: edge set incl. nothing dropped, inherited edges keep identity. Round 8: nothing that varies with the task is compared before the priority in the sort key; readiness is granted only on a path through the loop over all edges (dominators).",
    "assumptions": [],
}


def sort_rules(ctx: Ctx, rule: str):
    repo = ctx.repo
    ss = repo.func("Project.scheduleScenario")
    sorts = [c for c in own_nodes(ss) if isinstance(c, ast.Call) and isinstance(c.func, ast.Attribute) and c.func.attr == "sort"
             and norm(c.func.value) == "tasks"] + \
            [c for c in own_nodes(ss) if isinstance(c, ast.Call) and norm(c.func) == "sorted"]
    if not sorts:
        raise AnchorMissing("scheduleScenario: tasks.sort / sorted not found")
    srt = sorts[0]
    keykw = next((k.value for k in srt.keywords if k.arg == "key"), None)
    rev = next((k.value for k in srt.keywords if k.arg == "reverse"), None)
    reverse = isinstance(rev, ast.Constant) and bool(rev.value)
    # resolve the key function: nested def, lambda, or a method of Project / module function
    sk = None
    if isinstance(keykw, ast.Name):
        sk = next((f for f in ss.nested.values() if f.name == keykw.id), None)
        if sk is None and repo.has_func(keykw.id):
            sk = repo.func(keykw.id)
    elif isinstance(keykw, ast.Attribute) and isinstance(keykw.value, ast.Name) and keykw.value.id in ("self", "cls", "Project"):
        if repo.has_func("Project." + keykw.attr):
            sk = repo.func("Project." + keykw.attr)
    elif isinstance(keykw, ast.Lambda):
        sk = next((f for f in ss.nested.values() if f.node is keykw), None)
    ok = sk is not None
    ctx.ob(rule, f"{ss.qual}: {norm(srt)}", (ss, srt), ok, f"work list sorted with {sk.qual}" if ok else
           "the work list is not sorted with a key function the analysis can resolve (no key: declaration order only, priority ignored)",
           key=key_of(rule, ss, None, "sort call"))
    if sk is None:
        if keykw is None:
            return
        raise Inconclusive(f"scheduleScenario: sort key {norm(keykw)} cannot be resolved to a function")
    # the key reads the attributes of the scenario that is being scheduled
    sc_param = next((a.arg for a in ss.node.args.args if a.arg not in ("self", "cls")), None)
    nested = sk in ss.nested.values()
    for c in [x for x in own_nodes(sk) if isinstance(x, ast.Call) and isinstance(x.func, ast.Attribute) and x.func.attr == "get"
              and len(x.args) >= 2 and const_str(x.args[0]) in ("priority", "pathcriticalness")]:
        a = c.args[1]
        if isinstance(a, ast.Name) and nested and a.id == sc_param:
            ok = True
        elif isinstance(a, ast.Constant):
            ok = False
        else:
            raise Inconclusive(f"{sk.qual}: scenario argument {norm(a)} of {norm(c)} cannot be related to {ss.qual}'s {sc_param}")
        ctx.ob(rule, f"{sk.qual}: {norm(c)} reads the scenario being scheduled", (sk, c), ok,
               f"scenario argument is {ss.qual}'s {sc_param}" if ok else
               f"the sort key reads {const_str(c.args[0])} of the fixed scenario {norm(a)}, not of the scenario being scheduled: in "
               "every other scenario tasks are ordered by the wrong priorities",
               key=f"{rule}|sort_key|scenario {const_str(c.args[0])}")
    res = local_resolver(sk.node)

    def reads(attr):
        def p(e):
            return isinstance(e, ast.Call) and isinstance(e.func, ast.Attribute) and e.func.attr == "get" and e.args \
                and const_str(e.args[0]) == attr
        return p

    rets = [n for n in own_nodes(sk) if isinstance(n, ast.Return)]
    tup = rets[0].value if len(rets) == 1 else None
    if isinstance(tup, ast.Name) and len(res(tup)) == 1:
        tup = res(tup)[0]
    if not isinstance(tup, ast.Tuple):
        raise AnchorMissing("sort_key does not return one tuple")
    flip = {"+": "-", "-": "+"}
    for attr, want, what in (("priority", "-", "higher priority first"), ("seqno", "+", "declaration order among equals")):
        m = mono(tup, reads(attr), res)
        if reverse:
            m = flip.get(m, m)
        ctx.ob(rule, f"{sk.qual}: key {norm(tup)} in {attr}", (sk, rets[0]), m == want,
               what if m == want else f"sort key is not {'antitone' if want == '-' else 'monotone'} in {attr} (got '{m}')",
               key=f"{rule}|sort_key|{attr}")
    # lexicographic positions: priority component before seqno component
    pos = {}
    for i, el in enumerate(tup.elts):
        for attr in ("priority", "pathcriticalness", "seqno"):
            if mono(el, reads(attr), res) != "0" and attr not in pos:
                pos[attr] = i
    ok = "priority" in pos and "seqno" in pos and pos["priority"] < pos["seqno"] and \
        all(pos["priority"] < v for k, v in pos.items() if k != "priority")
    # ... and nothing that varies with the task stands in front of it (round 8, C09-13: a component computed from the task's
    # direction and end date was put before the priority): a component ahead of the priority must not depend on the key's argument
    params = set(sk.params)

    def varies(e, depth=0):
        for x in ast.walk(e):
            if isinstance(x, ast.Name):
                if x.id in params:
                    return True
                if depth < 6 and any(varies(d, depth + 1) for d in res(x) if d is not x):
                    return True
        return False

    lead = [norm(el) for el in tup.elts[:pos.get("priority", 0)] if varies(el)]
    if lead:
        ok = False
    ctx.ob(rule, f"{sk.qual}: component order {pos}", (sk, rets[0]), ok, "priority decides before any tie-breaker" if ok else
           ("priority is not the leading component of the sort key" + (f": {lead} is compared first and varies with the task" if lead else "")),
           key=f"{rule}|sort_key|positions")
    # default priority
    proj = repo.func("Project._define_task_attributes")
    dflt = None
    for n in own_nodes(proj):
        if isinstance(n, ast.List) and len(n.elts) == 7 and const_str(n.elts[0]) == "priority":
            dflt = n.elts[6].value if isinstance(n.elts[6], ast.Constant) else None
    vals = [v for n in own_nodes(sk) if isinstance(n, ast.Assign) and isinstance(n.value, ast.BoolOp) and isinstance(n.value.op, ast.Or)
            and reads("priority")(n.value.values[0]) for v in n.value.values[1:] if isinstance(v, ast.Constant)]
    ok = bool(vals) and all(v.value == dflt for v in vals)
    ctx.ob(rule, f"{sk.qual}: missing priority counts as {[v.value for v in vals]} (table default {dflt})", sk, ok,
           "fallback equals the attribute default" if ok else "fallback priority differs from the attribute table's default",
           key=f"{rule}|sort_key|default")
    # pathcriticalness has no writer -> ties are broken by declaration order
    writers = []
    for fn in repo.all_funcs():
        for (pid, atoms, node, sc, tgt) in ctx.dep.of(fn).pattr_writes if fn in ctx.cg.reach([repo.func("Project.schedule")]) else []:
            if pid == "pathcriticalness":
                writers.append(fn.qual)
    ctx.ob(rule, "no writer of task pathcriticalness under Project.schedule", ss, not writers,
           "ties in priority are broken by sequence number only" if not writers else f"pathcriticalness is written by {writers}: it now reorders tasks",
           key=f"{rule}|pathcriticalness|writers")


def rollup_rules(ctx: Ctx, rule: str):
    """Container roll-up before the first and between a placement and the next readiness scan (C07 R07.2 / C09 R09.1 / C10 R10.8)."""
    repo = ctx.repo
    ss = repo.func("Project.scheduleScenario")
    g = cfg_of(ss)
    sched_calls = [c for c in own_nodes(ss) if isinstance(c, ast.Call) and isinstance(c.func, ast.Attribute) and c.func.attr == "schedule"]
    if not sched_calls:
        raise AnchorMissing("scheduleScenario does not call task.schedule")
    # container roll-up before the next readiness scan: readiness of a task that depends on a container is decided from the
    # container's `scheduled` flag, which only _updateContainerTaskStatus sets
    ready_nodes = [n for n in g.nodes if n.ast is not None and n.kind != "for" and any(
        isinstance(x, ast.Call) and isinstance(x.func, ast.Attribute) and x.func.attr == "readyForScheduling" for x in ast.walk(
            n.ast.test if isinstance(n.ast, (ast.If, ast.While)) else n.ast))]
    if not ready_nodes:
        raise AnchorMissing("scheduleScenario: readyForScheduling test not found")

    def rolls(n):
        if n.ast is None:
            return False
        root = n.ast.test if isinstance(n.ast, (ast.If, ast.While)) else (n.ast.iter if isinstance(n.ast, ast.For) else n.ast)
        return any(isinstance(x, ast.Call) and isinstance(x.func, ast.Attribute) and x.func.attr == "_updateContainerTaskStatus"
                   for x in ast.walk(root))
    for c in sched_calls:
        node = g.node_containing(c)
        ok = all(g.all_paths_pass(node, d, rolls) for d in ready_nodes)
        ctx.ob(rule, f"{ss.qual}: containers are rolled up between a placement and the next readiness test", (ss, c), ok,
               "every path from task.schedule() to the next readyForScheduling() passes _updateContainerTaskStatus()" if ok else
               "after a placement the next readiness scan can run before the completed containers are marked scheduled: a task that "
               "depends on a container is passed over although it is ready, and lower-priority tasks are placed first",
               key=key_of(rule, ss, None, "roll-up before rescan"))
    # ... and before the FIRST readiness test: containers that are complete from the start (dated milestones) count
    for d in ready_nodes:
        ok = g.all_paths_pass(g.entry, d, rolls)
        ctx.ob(rule, f"{ss.qual}: containers are rolled up before the first readiness test", (ss, d.ast), ok,
               "every path from the function entry to readyForScheduling() passes _updateContainerTaskStatus()" if ok else
               "the first readiness scan runs before any roll-up: a task that depends on a container whose children were all placed by "
               "the milestone pre-pass is never ready (reported as a deadlock)",
               key=key_of(rule, ss, None, "roll-up before first scan"))


def scan_rules(ctx: Ctx, rule: str):
    """The ready-scan of Project.scheduleScenario, in flow-graph terms (so that it does not matter whether the placement is written
    inside the `for task in tasks` scan, after it, or in a helper that N-inline has folded back):
      restart   every path from a placement `x.schedule(sc)` to the next readiness test passes the head of the outer `while tasks`
                loop -- the sorted list is rescanned from its head, a higher-priority task that just became ready is not passed over;
      gate      a placement is reached from the loop head only through the TRUE outcome of a readiness test;
      source    the readiness scan iterates the sorted work list `tasks`, front to back."""
    repo = ctx.repo
    ss = repo.func("Project.scheduleScenario")
    g = cfg_of(ss)
    sched_calls = [c for c in own_nodes(ss) if isinstance(c, ast.Call) and isinstance(c.func, ast.Attribute) and c.func.attr == "schedule"]
    if not sched_calls:
        raise AnchorMissing("scheduleScenario does not call task.schedule")
    outer = [n for n in g.nodes if n.kind == "while" and n.ast is not None and norm(n.ast) == "tasks"]
    if len(outer) != 1:
        raise AnchorMissing(f"scheduleScenario: {len(outer)} `while tasks` loops")
    head = outer[0]
    ready_nodes = [n for n in g.nodes if n.ast is not None and n.kind in ("if", "while", "stmt") and any(
        isinstance(c, ast.Call) and isinstance(c.func, ast.Attribute) and c.func.attr == "readyForScheduling" for c in ast.walk(n.ast))]
    if not ready_nodes:
        raise AnchorMissing("scheduleScenario: readyForScheduling test not found")
    ready_ids = {n.id for n in ready_nodes}
    for c in sched_calls:
        node = g.node_containing(c)
        # restart
        again = not all(g.all_paths_pass(node, r, lambda n: n.id == head.id) for r in ready_nodes if r.id != node.id)
        ctx.ob(rule, f"{ss.qual}: scan restarts after {norm(c)}", (ss, c), not again,
               "every path from the placement to the next readiness test passes the head of the outer loop (the sorted list is rescanned "
               "from its head)" if not again else
               "after placing a task the scan continues with the next list element: a higher-priority task that just became ready is passed over",
               key=key_of(rule, ss, None, "restart"))
        # gate: remove the edges on which a readiness test came out true; the placement must become unreachable from the loop head
        def ready_true_edge(a_id, lbl):
            n = g.nodes[a_id]
            if a_id not in ready_ids or n.kind != "if":
                return False
            neg = isinstance(n.ast, ast.UnaryOp) and isinstance(n.ast.op, ast.Not)
            return lbl == ("F" if neg else "T")
        # path-sensitive in one respect: which locals are known to hold None (a scan that found nothing leaves its result variable
        # None, and the `is None` test that follows cannot come out false on that path)
        def step_state(n, st_):
            a = n.ast
            if n.kind == "stmt" and isinstance(a, (ast.Assign, ast.AnnAssign)) and getattr(a, "value", None) is not None:
                tg = a.targets if isinstance(a, ast.Assign) else [a.target]
                if len(tg) == 1 and isinstance(tg[0], ast.Name):
                    v = a.value
                    if (isinstance(v, ast.Constant) and v.value is None) or (isinstance(v, ast.Name) and v.id in st_):
                        return st_ | {tg[0].id}
                    return st_ - {tg[0].id}
            if n.kind in ("for", "foriter") and isinstance(getattr(a, "target", None), ast.Name):
                return st_ - {a.target.id}
            return st_

        def feasible(n, lbl, st_):
            if n.kind != "if" or n.ast is None:
                return True
            t = n.ast
            neg = False
            while isinstance(t, ast.UnaryOp) and isinstance(t.op, ast.Not):
                t, neg = t.operand, not neg
            val = None            # truth value of the (un-negated) test when known
            if isinstance(t, ast.Compare) and len(t.ops) == 1 and isinstance(t.left, ast.Name) and t.left.id in st_ \
                    and isinstance(t.comparators[0], ast.Constant) and t.comparators[0].value is None:
                val = True if isinstance(t.ops[0], ast.Is) else (False if isinstance(t.ops[0], ast.IsNot) else None)
            elif isinstance(t, ast.Name) and t.id in st_:
                val = False
            if val is None:
                return True
            if neg:
                val = not val
            return lbl == ("T" if val else "F")
        start = (head.id, frozenset())
        seen, todo, reach = {start}, [start], False
        while todo:
            a_, st_ = todo.pop()
            na = g.nodes[a_]
            st2 = step_state(na, st_)
            for (b_, l_) in g.succ[a_]:
                if l_ in ("exc", "excb") or ready_true_edge(a_, l_) or not feasible(na, l_, st2):
                    continue
                if b_ == node.id:
                    reach = True
                if b_ == head.id:
                    continue          # next round of the outer loop: a fresh scan
                key_ = (b_, st2)
                if key_ not in seen and len(seen) < 20000:
                    seen.add(key_)
                    todo.append(key_)
        ctx.ob(rule, f"{ss.qual}: tasks that are not ready are skipped", (ss, c), not reach,
               "the placement is reached only after a readiness test came out true" if not reach else
               "readiness no longer gates the placement: a path from the loop head reaches task.schedule() without a successful readiness test",
               key=key_of(rule, ss, None, "ready gate"))
    scans = [l for l in own_nodes(ss) if isinstance(l, ast.For) and any(
        isinstance(c, ast.Call) and isinstance(c.func, ast.Attribute) and c.func.attr == "readyForScheduling" for c in ast.walk(l))]
    ok = bool(scans) and all(norm(l.iter) == "tasks" for l in scans)
    ctx.ob(rule, f"{ss.qual}: the readiness scan iterates the sorted work list", (ss, scans[0]) if scans else ss, ok,
           "for task in tasks" if ok else "the readiness scan does not iterate the sorted work list front to back",
           key=key_of(rule, ss, None, "loop iter"))
    rollup_rules(ctx, rule)
    # removal
    rem = [c for c in own_nodes(ss) if isinstance(c, ast.Call) and isinstance(c.func, ast.Attribute) and c.func.attr == "remove"
           and norm(c.func.value) == "tasks"]
    ctx.ob(rule, f"{ss.qual}: placed task leaves the work list", ss, bool(rem), "tasks.remove(placed)" if rem else
           "placed tasks are not removed from the work list", key=key_of(rule, ss, None, "remove"))
    # work list = unscheduled leaves
    for n in own_nodes(ss):
        if isinstance(n, (ast.Assign, ast.AnnAssign)) and norm(n.targets[0] if isinstance(n, ast.Assign) else n.target) == "tasks" \
                and isinstance(n.value, ast.ListComp) and not any(norm(g_.iter) == "tasks" for g_ in n.value.generators):
            conds = " and ".join(norm(c) for g_ in n.value.generators for c in g_.ifs)
            ok = ".leaf()" in conds and "not " in conds and "scheduled" in conds
            ctx.ob(rule, f"{ss.qual}: work list filter [{conds}]", (ss, n), ok, "only leaves that are not scheduled yet" if ok else
                   "work list is not 'unscheduled leaf tasks'", key=key_of(rule, ss, None, "worklist"))


def cursor_rules(ctx: Ctx, rule: str):
    repo = ctx.repo
    sched = repo.func("TaskScenario.schedule")
    slot = repo.func("TaskScenario.scheduleSlot")
    res = local_resolver(sched.node)
    from .common import slot_walks
    walks = slot_walks(sched)
    if len(walks) != 1:
        raise AnchorMissing(f"slot walk loop: {len(walks)} found")
    w = walks[0]
    writes = [n for n in ast.walk(w) if isinstance(n, (ast.Assign, ast.AugAssign)) and any(
        norm(t) == "self.currentSlotIdx" for t in (n.targets if isinstance(n, ast.Assign) else [n.target]))]
    ok = len(writes) == 1 and isinstance(writes[0], ast.AugAssign) and isinstance(writes[0].op, ast.Add) and isinstance(writes[0].value, ast.Name)
    stride = None
    if ok:
        vals = res(writes[0].value)
        ok = len(vals) == 1 and isinstance(vals[0], ast.IfExp) and norm(vals[0].test) == "forward" \
            and isinstance(vals[0].body, ast.Constant) and vals[0].body.value == 1 \
            and isinstance(vals[0].orelse, ast.UnaryOp) and norm(vals[0].orelse) == "-1"
        stride = norm(vals[0]) if vals else None
    ctx.ob(rule, f"{sched.qual}: cursor step {stride}", (sched, w), ok,
           "cursor moves by +1 forward / -1 backward, once per visited slot" if ok else
           "the slot cursor is not advanced by exactly one slot in the scheduling direction",
           key=f"{rule}|schedule|stride")
    # the intra-slot offset of the dependency bound belongs to the slot the walk began in: once the cursor moves on, it is cleared
    gsc = cfg_of(sched)
    if ok:
        stepn = gsc.node_of(writes[0])
        hdr = gsc.node_of(w)

        def clears(n):
            return n.kind == "stmt" and isinstance(n.ast, ast.Assign) and norm(n.ast.targets[0]) == "self.slotStartOffset" \
                and isinstance(n.ast.value, ast.Constant) and n.ast.value.value in (0, 0.0)
        # (anywhere in the iteration: before or after the cursor step)
        body_starts = [gsc.nodes[b] for (b, l) in gsc.succ[hdr.id] if l == "T"]
        okc = bool(body_starts) and all(gsc.all_paths_pass(b0, hdr, clears) for b0 in body_starts)
        ctx.ob(rule, f"{sched.qual}: start offset cleared when the cursor leaves the slot of the bound", (sched, writes[0]), okc,
               "self.slotStartOffset = 0 on every path from the cursor step to the next scheduleSlot()" if okc else
               "the mid-slot offset of the dependency bound stays set after the cursor moved on: it is applied to the first slot that can be "
               "booked (next morning), so the task starts late and leaves working time of its resource idle",
               key=f"{rule}|schedule|offset cleared")
    # nobody else writes the cursor while a task is being walked
    others = []
    for fn in ctx.cg.reach([slot]):
        for (_a, n_, _t) in heap_writes(ctx, fn, "currentSlotIdx"):
            v = getattr(n_.ast, "value", None)
            if not (isinstance(v, ast.Constant) and v.value is None):      # a reset to None is not a cursor move
                others.append(fn.qual)
    ctx.ob(rule, "no writer of currentSlotIdx reachable from scheduleSlot", slot, not others,
           "the walk's cursor is owned by TaskScenario.schedule" if not others else f"cursor also written by {others}: slots can be skipped or revisited",
           key=f"{rule}|scheduleSlot|cursor writers")
    # horizon stop
    stops = [n for n in w.body if isinstance(n, ast.If) and "currentSlotIdx" in norm(n.test) and "Limit" in norm(n.test)
             and any(isinstance(s, ast.Return) for s in n.body)]
    ok = bool(stops) and "lowerLimit" in norm(stops[0].test) and "upperLimit" in norm(stops[0].test)
    ctx.ob(rule, f"{sched.qual}: walk stops at the horizon", (sched, w), ok, "leaves the loop (runaway) outside [start, end]" if ok else
           "the slot walk has no horizon test", key=f"{rule}|schedule|horizon")
    # initial offsets
    init = []
    for n in own_nodes(sched):
        if isinstance(n, ast.Assign) and norm(n.targets[0]) == "self.currentSlotIdx" and not any(x is n for x in ast.walk(w)):
            init.append(n)
    cnt = {"fwd": 0, "bwd": 0}
    from .common import branch_of
    for n in init:
        br = branch_of(sched, n, "forward")
        from ..order import nearest_resolver
        a = affine(n.value, lambda e: isinstance(e, ast.Call) and (dotted(e.func) or "").endswith("dateToIdx"), nearest_resolver(sched.node, n))
        if br == "T":
            cnt["fwd"] += 1
            ok = a is not None and a[1] == 0
            ctx.ob(rule, f"{sched.qual}: forward cursor start {norm(n.value)}", (sched, n), ok,
                   f"starts in the slot of the bound ({a[0]} + 0)" if ok else f"forward cursor does not start in the slot of the bound ({a})",
                   key=key_of(rule, sched, None, "fwd init " + norm(n.value)))
        elif br == "F":
            cnt["bwd"] += 1
            ok = a is not None and a[1] == -1
            ctx.ob(rule, f"{sched.qual}: backward cursor start {norm(n.value)}", (sched, n), ok,
                   f"starts one slot before the deadline ({a[0]} - 1)" if ok else f"backward cursor does not start one slot before the deadline ({a})",
                   key=key_of(rule, sched, None, "bwd init " + norm(n.value)))
    if cnt["fwd"] < 2 or cnt["bwd"] < 2:
        raise AnchorMissing(f"cursor initialisations found: {cnt}")


def run_extra(ctx: Ctx):
    # ---------------------------------------------------------------- R07.13 ready only after every edge was examined (= C04 R04.7 exit clause)
    from .c04 import readiness_exit_rule
    readiness_exit_rule(ctx, "R07.13")
    ctx.floor("R07.13", 1)
    # ---------------------------------------------------------------- R07.12 an inherited edge points at the real predecessor (= C04 R04.15)
    from .c04 import inherited_edges_keep_identity_rule
    inherited_edges_keep_identity_rule(ctx, "R07.12")
    # ---------------------------------------------------------------- R07.11 the list schedule places a task after ALL its predecessors, own and inherited (= C04 R04.1)
    from .c04 import edge_set_rule
    edge_set_rule(ctx, "R07.11")
    # ---------------------------------------------------------------- R07.10 answers never come from state that outlives the question
    from .common import process_state_rule
    process_state_rule(ctx, "R07.10", [ctx.repo.func("Project.schedule"), ctx.repo.func("ProjectFileParser.parse")],
                       "the calendar, limit or readiness answer the list schedule is built from belongs to another slot, scenario or project")


def run(ctx: Ctx):
    sort_rules(ctx, "R07.1")
    scan_rules(ctx, "R07.2")
    cursor_rules(ctx, "R07.3")
    # "earliest slots at or after its dependency bound in which its resource(s) are working, unbooked and within limits":
    # the structural clauses already decided for C04 / C03, re-instantiated for this property
    from .c04 import forward_bound_accumulator
    from .c03 import booking_guard_rule, team_gate_rules
    forward_bound_accumulator(ctx, "R07.4")
    team_gate_rules(ctx, "R07.5")
    booking_guard_rule(ctx, "R07.6")
    from .c05 import period_index_rule
    period_index_rule(ctx, "R07.7")
    ctx.floor("R07.7", 2)
    # ---------------------------------------------------------------- R07.8 "as soon as all predecessors are placed": one roll-up call
    # closes every complete nesting level, so a task that depends on an outer container is ready in the very next round (= C10 R10.7)
    from .c10 import rollup_order_rule
    rollup_order_rule(ctx, "R07.8")
    # ---------------------------------------------------------------- R07.9 "within limits": the limit objects the scheduler consults
    # are complete copies of the declared ones (= C05 R05.7)
    from .c05 import limit_copy_rule
    limit_copy_rule(ctx, "R07.9")
    ctx.floor("R07.4", 8)
    ctx.floor("R07.5", 5)
    ctx.floor("R07.6", 1)
    ctx.floor("R07.1", 6)
    ctx.floor("R07.2", 5)
    ctx.floor("R07.3", 7)
