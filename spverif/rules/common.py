"""Helpers shared by the rule modules."""
from __future__ import annotations

import ast
from typing import Callable, Optional

from ..cfg import cfg_of
from ..core import Ctx
from ..dep import data, full, pattr_of
from ..guards import MustFacts
from ..model import Func, const_str, dotted, norm, own_nodes

_FACTS: dict = {}


def facts_of(fn: Func) -> MustFacts:
    if fn not in _FACTS:
        _FACTS[fn] = MustFacts(cfg_of(fn))
    return _FACTS[fn]


def heap_writes(ctx: Ctx, fn: Func, attr: str) -> list:
    """[(atoms, cfg node, target ast)] for writes to <obj>.<attr> (incl. element writes / mutator calls)."""
    return [(a, n, t) for (f, a, n, t) in ctx.dep.of(fn).heap_writes if f == attr]


def pattr_writes(ctx: Ctx, fn: Func, pid: str) -> list:
    """[(atoms, cfg node, scenario expr, target ast)]"""
    return [(a, n, sc, t) for (p, a, n, sc, t) in ctx.dep.of(fn).pattr_writes if p == pid]


def value_of_write(node_ast: ast.AST) -> Optional[ast.AST]:
    if isinstance(node_ast, (ast.Assign, ast.AnnAssign, ast.AugAssign)):
        return node_ast.value
    return None


def calls_named(fn: Func, name: str) -> list:
    out = []
    for n in own_nodes(fn):
        if isinstance(n, ast.Call):
            d = dotted(n.func)
            if d and d.split(".")[-1] == name:
                out.append(n)
    return out


def returns(fn: Func) -> list:
    return [n for n in own_nodes(fn) if isinstance(n, ast.Return)]


def lit_compare(text: str) -> Optional[ast.AST]:
    try:
        e = ast.parse(text, mode="eval").body
    except SyntaxError:
        return None
    return e


def resolver_at(ctx: Ctx, fn: Func):
    """Name -> list of assigned value expressions in fn (flow-insensitive)."""
    from ..order import local_resolver
    return local_resolver(fn.node)


def has_atoms(atoms: set, *need: str, mode: str = "data") -> bool:
    s = data(atoms) if mode == "data" else full(atoms)
    return all(n in s for n in need)


def any_atom(atoms: set, *alts: str, mode: str = "data") -> bool:
    s = data(atoms) if mode == "data" else full(atoms)
    return any(n in s for n in alts)


def ctl_only(atoms: set) -> set:
    return {a[1:] for a in atoms if a.startswith("~")}


def enclosing_ifs(node: ast.AST, stop: ast.AST) -> list:
    """[(If node, 'T'|'F')] from innermost to outermost, for statements lexically inside if-bodies."""
    out = []
    child = node
    p = getattr(node, "_parent", None)
    while p is not None and p is not stop:
        if isinstance(p, ast.If):
            if child in p.body:
                out.append((p, "T"))
            elif child in p.orelse:
                out.append((p, "F"))
        child = p
        p = getattr(p, "_parent", None)
    return out


def branch_of(fn, node: ast.AST, text: str):
    """'T' / 'F' / None: the truth value the flag `text` must have for the statement to run, read off the enclosing if-tests
    (`if flag:`, `if not flag:`, `if flag is [not] True/False:`; an elif arm is the else arm of the tests before it)."""
    for (i, b) in enclosing_ifs(node, fn.node):
        t, neg = i.test, False
        while isinstance(t, ast.UnaryOp) and isinstance(t.op, ast.Not):
            t, neg = t.operand, not neg
        if isinstance(t, ast.Compare) and len(t.ops) == 1 and isinstance(t.ops[0], (ast.Is, ast.IsNot, ast.Eq, ast.NotEq)) \
                and isinstance(t.comparators[0], ast.Constant) and isinstance(t.comparators[0].value, bool) and norm(t.left) == text:
            if isinstance(t.ops[0], (ast.IsNot, ast.NotEq)):
                neg = not neg
            if t.comparators[0].value is False:
                neg = not neg
            # `flag is False` decides the flag only in its true arm (the other arm admits None as well); accepted for a bool flag
            t = t.left
        if norm(t) == text:
            return b if not neg else ("F" if b == "T" else "T")
    return None


def module_consts(module) -> dict:
    """{name: value} for module-level names bound once to a constant expression over literals and earlier such names (folded from
    the syntax tree; nothing of the repository is imported)."""
    env, count = {}, {}
    for st in module.tree.body:
        tg, val = (st.targets[0], st.value) if isinstance(st, ast.Assign) and len(st.targets) == 1 else \
            ((st.target, st.value) if isinstance(st, ast.AnnAssign) else (None, None))
        if isinstance(tg, ast.Name):
            count[tg.id] = count.get(tg.id, 0) + 1
    for st in module.tree.body:
        tg, val = (st.targets[0], st.value) if isinstance(st, ast.Assign) and len(st.targets) == 1 else \
            ((st.target, st.value) if isinstance(st, ast.AnnAssign) else (None, None))
        if not isinstance(tg, ast.Name) or val is None or count.get(tg.id) != 1:
            continue
        if any(isinstance(x, (ast.Call, ast.Attribute, ast.Subscript, ast.Lambda, ast.Dict, ast.List, ast.Set)) for x in ast.walk(val)):
            continue
        try:
            env[tg.id] = eval(compile(ast.Expression(val), "<const>", "eval"), {"__builtins__": {}}, dict(env))
        except Exception:
            pass
    return env


def slot_walks(sched) -> list:
    """The loops of TaskScenario.schedule that walk the slots: `while self.scheduleSlot():`, or `while True:` whose body calls
    scheduleSlot(), keeps the answer in a local and leaves with `if not <answer>: break`."""
    out = []
    for w in own_nodes(sched):
        if not isinstance(w, ast.While):
            continue
        if "scheduleSlot" in norm(w.test):
            out.append(w)
            continue
        if isinstance(w.test, ast.Constant) and w.test.value is True:
            answers = {t.id for st in w.body if isinstance(st, (ast.Assign, ast.AnnAssign)) and st.value is not None and "scheduleSlot" in norm(st.value)
                       for t in (st.targets if isinstance(st, ast.Assign) else [st.target]) if isinstance(t, ast.Name)}
            leaves = [st for st in w.body if isinstance(st, ast.If) and isinstance(st.test, ast.UnaryOp) and isinstance(st.test.op, ast.Not)
                      and isinstance(st.test.operand, ast.Name) and st.test.operand.id in answers and any(isinstance(b, ast.Break) for b in st.body)]
            if answers and leaves:
                out.append(w)
    return out


def stmt_of(node: ast.AST) -> ast.AST:
    p = node
    while p is not None and not isinstance(p, ast.stmt):
        p = getattr(p, "_parent", None)
    return p


# ----------------------------------------------------------------------------------------------------------------
# Task identity.  A task's `.id` is its LOCAL id: two tasks in different containers may share it (`fe.test`, `be.test`);
# only `.fullId` and the object itself identify a task.  Resources, accounts, shifts, scenarios and attribute definitions
# live in flat name spaces, so their `.id` is an identity.  Frozen exception table: (function, receiver text) -> reason.
_FLAT_ID_HINTS = ("res", "account", "shift", "scenario", "report", "attr", "definition", "journal", "macro", "column")
LOCAL_ID_EXCEPTIONS = {
    ("PropertySet.addAttributeType", "attribute_definition"): "attribute definitions are a flat name space",
}


def _flat_receiver(e: ast.AST) -> bool:
    t = norm(e).lower()
    return any(h in t for h in _FLAT_ID_HINTS)


def local_id_identity_sites(fn: Func) -> list:
    """[(node, description)] where a local `.id` stands in for the identity of a (possibly) hierarchical property."""
    out = []

    def is_id(e):
        # `getattr(x, "id", default)` is the same read as `x.id`
        if isinstance(e, ast.Call) and isinstance(e.func, ast.Name) and e.func.id == "getattr" and len(e.args) >= 2 \
                and isinstance(e.args[1], ast.Constant) and e.args[1].value == "id":
            return not _flat_receiver(e.args[0]) and (fn.qual, norm(e.args[0])) not in LOCAL_ID_EXCEPTIONS
        return isinstance(e, ast.Attribute) and e.attr == "id" and not _flat_receiver(e.value) \
            and (fn.qual, norm(e.value)) not in LOCAL_ID_EXCEPTIONS
    def has_id(e):
        # the id itself, or a tuple key one of whose components is the id: (obj.id, attribute, scenario)
        return is_id(e) or (isinstance(e, ast.Tuple) and any(is_id(x) for x in e.elts))
    for n in own_nodes(fn):
        if isinstance(n, ast.Compare) and len(n.ops) == 1:
            l, r = n.left, n.comparators[0]
            if isinstance(n.ops[0], (ast.Eq, ast.NotEq)) and is_id(l) and is_id(r):
                out.append((n, f"identity test by local id: {norm(n)}"))
            elif isinstance(n.ops[0], (ast.In, ast.NotIn)) and has_id(l):
                out.append((n, f"membership test by local id: {norm(n)}"))
        elif isinstance(n, ast.Call) and isinstance(n.func, ast.Attribute) and n.func.attr in ("add", "append", "discard", "remove") \
                and len(n.args) == 1 and has_id(n.args[0]) and not (isinstance(n.args[0], ast.Tuple) and n.func.attr == "append"):
            out.append((n, f"collection keyed by local id: {norm(n)}"))
        elif isinstance(n, ast.Subscript) and has_id(n.slice):
            out.append((n, f"table keyed by local id: {norm(n)}"))
        elif isinstance(n, (ast.SetComp, ast.ListComp)) and is_id(n.elt):
            out.append((n, f"collection of local ids: {norm(n)[:60]}"))
        elif isinstance(n, ast.DictComp) and is_id(n.key):
            out.append((n, f"table keyed by local id: {norm(n)[:60]}"))
    return out


def local_id_identity_rule(ctx: Ctx, rid: str, files: tuple, what: str):
    """No function of `files` identifies a task by its local id (zero expected; a built-in control must match)."""
    ctrl = ast.parse("def f(a, b, s):\n    if a.id == b.id: s.add(a.id)\n    return a.fullId == b.fullId\n").body[0]

    class _F:  # minimal Func stand-in for the control sample
        qual = "<control>"
        node = ctrl

        @staticmethod
        def body():
            return ctrl.body
    for x in ast.walk(ctrl):
        for c in ast.iter_child_nodes(x):
            c._parent = x
    try:
        got = local_id_identity_sites(_F)
    except Exception:
        got = []
    if len(got) != 2:
        from ..model import AnchorMissing
        raise AnchorMissing("local-id identity rule: built-in control sample no longer matches")
    nfn = 0
    for fn in sorted(ctx.repo.all_funcs(), key=lambda f: f.key):
        if not fn.module.rel.endswith(files):
            continue
        nfn += 1
        for node, desc in local_id_identity_sites(fn):
            ctx.ob(rid, f"{fn.qual}: {desc}", (fn, node), False,
                   f"{desc}: a task's .id is its local id, shared by same-named tasks in other containers; {what}",
                   key=key_of_text(rid, fn.qual, norm(node)))
    ctx.ob(rid, f"no task identity by local id in {nfn} functions of {', '.join(files)}", None, True,
           "tasks are identified by object identity or fullId only", nontrivial=False)


def key_of_text(*parts) -> str:
    return "|".join(p for p in parts if p)


def edge_selects_me(ctx: Ctx, fn: Func, node: ast.AST) -> bool:
    """`node` tests that a dependency edge's predecessor is this task: `pred is self.property`, or `self._dependsOnMe(pred)`
    where _dependsOnMe walks self.property and its parent chain comparing by identity (a dependency on an enclosing container is a
    dependency on the task)."""
    if isinstance(node, ast.Compare) and len(node.ops) == 1 and isinstance(node.ops[0], ast.Is) and norm(node.comparators[0]) == "self.property":
        return True
    if isinstance(node, ast.Call) and norm(node.func) == "self._dependsOnMe" and len(node.args) == 1 and ctx.repo.has_func("TaskScenario._dependsOnMe"):
        f = ctx.repo.func("TaskScenario._dependsOnMe")
        p = f.params[1] if len(f.params) > 1 else None
        inits = [n for n in own_nodes(f) if isinstance(n, (ast.Assign, ast.AnnAssign)) and norm(n.value) == "self.property"]
        walks = [n for n in own_nodes(f) if isinstance(n, ast.Assign) and norm(n.value).endswith(".parent")]
        ident = [n for n in own_nodes(f) if isinstance(n, ast.Compare) and len(n.ops) == 1 and isinstance(n.ops[0], ast.Is) and norm(n.left) == p]
        trues = [r for r in own_nodes(f) if isinstance(r, ast.Return) and isinstance(r.value, ast.Constant) and r.value.value is True]
        guarded = all(any(isinstance(i.test, ast.Compare) and i.test in ident for (i, b) in enclosing_ifs(r, f.node) if b == "T") for r in trues)
        return bool(p and inits and walks and ident and trues and guarded)
    return False


def framework_callbacks(repo) -> list:
    """Methods the parsing framework calls by name (lark Transformer callbacks): the call graph cannot see these calls, so every
    method of a class whose base is lark's Transformer counts as reachable from ProjectFileParser.parse."""
    out = []
    for m in repo.by_rel.values():
        for st in m.tree.body:
            if isinstance(st, ast.ClassDef) and any("Transformer" in norm(b) for b in st.bases):
                for f in repo.all_funcs():
                    if f.cls is not None and f.cls.name == st.name and f.parent is None and f.module is m:
                        out.append(f)
    return out


def process_state_rule(ctx: Ctx, rid: str, entries: list, what: str, census: bool = True):
    """No answer on the paths below `entries` comes from state that outlives the question:
      * memo-key soundness (spverif/memo.py): a container entry, or a single attribute slot, that later calls are answered from
        is keyed / validated by every input the stored value was computed from;
      * census of class- and module-level mutable containers with a run-time writer in reach (c12.shared_container_census).
    `what` says why a stale answer breaks the calling property."""
    from ..memo import control_ok, memo_findings, slot_control_ok, slot_memo_findings
    from ..model import AnchorMissing
    if not control_ok() or not slot_control_ok():
        raise AnchorMissing("memo rules: a built-in control sample no longer matches")
    reach = sorted(ctx.cg.reach(entries), key=lambda f: f.key)
    n = 0
    for fn in reach:
        if not isinstance(fn.node, (ast.FunctionDef, ast.AsyncFunctionDef)):
            continue
        n += 1
        by_store = {}
        for cont, key, p, st in memo_findings(fn.node):
            by_store.setdefault((cont, norm(key)), (st, []))[1].append(p)
        for (cont, k), (st, lost) in sorted(by_store.items()):
            ctx.ob(rid, f"{fn.qual}: entry {cont}[{k}]", (fn, st), False,
                   f"a value computed from {', '.join(lost)} is stored under a key that does not contain {', '.join(lost)} itself: later calls "
                   f"with a different {lost[0]} that maps to the same key are answered with the first call's value; {what}",
                   key=key_of_text(rid, fn.qual, f"{cont} lost {','.join(lost)}"))
        by_slot = {}
        def hook(e, fn=fn):
            from ..dep import full
            try:
                return {a.split(":", 1)[1] for a in full(ctx.dep.of(fn).deps_of(e, control=True)) if a.startswith("param:")}
            except Exception:
                return set()
        for slot, p, st in slot_memo_findings(fn.node, hook):
            by_slot.setdefault(slot, (st, []))[1].append(p)
        for slot, (st, lost) in sorted(by_slot.items()):
            ctx.ob(rid, f"{fn.qual}: slot {slot}", (fn, st), False,
                   f"the value kept in {slot} was computed from {', '.join(lost)}, and the test that decides whether the kept value is "
                   f"returned does not compare {', '.join(lost)}: the first caller's value answers every later one; {what}",
                   key=key_of_text(rid, fn.qual, f"{slot} lost {','.join(lost)}"))
    # invalidation: values kept on an object and computed from its fields are dropped by every writer of those fields
    from ..memo import invalidation_control_ok, invalidation_findings
    if not invalidation_control_ok():
        raise AnchorMissing("memo rules: the invalidation control sample no longer matches")
    for ci in sorted({fn.cls for fn in reach if fn.cls is not None}, key=lambda c: c.name):
        meths = {nm: m.node for nm, m in ci.methods.items() if isinstance(m.node, (ast.FunctionDef, ast.AsyncFunctionDef))}
        for cont, desc, writer, w in invalidation_findings(meths):
            wf = ci.methods[writer]
            ctx.ob(rid, f"{ci.name}.{writer}: writes {desc}, on which the values kept in self.{cont} depend", (wf, w), False,
                   f"self.{cont} answers later calls from values computed with {desc}; this write changes it and no `self.{cont}.clear()` follows "
                   f"on the same path: the old values keep being returned; {what}",
                   key=key_of_text(rid, f"{ci.name}.{writer}", f"{cont} stale after {desc}"))
    ctx.ob(rid, f"memo soundness over {n} functions reachable from {', '.join(e.qual for e in entries)}", entries[0], True,
           "no container entry or attribute slot is keyed by less than the inputs its value was computed from", nontrivial=False)
    if census:
        from .c12 import shared_container_census
        shared_container_census(ctx, rid, reach, floor=0)


def _unit_capture(items) -> str:
    """What a regex unit group captures from the text 'min' (structural walk of the group's AST; greedy, first alternative wins)."""
    items = list(items)
    if len(items) == 1 and str(items[0][0]) == "MAX_REPEAT" and items[0][1][0] == 0 and items[0][1][1] == 1:
        inner = list(items[0][1][2])
        if len(inner) == 1 and str(inner[0][0]) == "SUBPATTERN":
            return _unit_capture(inner[0][1][3])
        return _unit_capture(inner)
    if len(items) == 1 and str(items[0][0]) == "SUBPATTERN":
        return _unit_capture(items[0][1][3])

    def cls(av):
        return {chr(v) for (o, v) in av if str(o) == "LITERAL"}
    if len(items) == 1 and str(items[0][0]) == "BRANCH":
        for alt in items[0][1][1]:
            alt = list(alt)
            if all(str(o) == "LITERAL" for o, _ in alt):
                s_ = "".join(chr(v) for _, v in alt)
                if "min".startswith(s_) and s_:
                    return s_
            elif len(alt) == 1 and str(alt[0][0]) == "IN":
                if "m" in cls(alt[0][1]):
                    return "m"
            else:
                return "?"
        return ""
    if len(items) == 1 and str(items[0][0]) == "MAX_REPEAT":
        lo, hi, sub = items[0][1]
        sub = list(sub)
        if len(sub) == 1 and str(sub[0][0]) == "IN":
            c = cls(sub[0][1])
            out = ""
            for ch in "min":
                if ch in c and len(out) < int(hi):
                    out += ch
                else:
                    break
            return out
        return "?"
    if len(items) == 1 and str(items[0][0]) == "IN":
        return "m" if "m" in cls(items[0][1]) else ""
    if all(str(o) == "LITERAL" for o, _ in items):
        s_ = "".join(chr(v) for _, v in items)
        return s_ if "min".startswith(s_) else ""
    return "?"


def duration_unit_rule(ctx: Ctx, rid: str, floor: int = 5):
    """Every pattern that takes a duration apart ('<number><unit>') reads the unit `min` as minutes: its unit group captures the
    whole of 'min' (not its first letter, which is the month unit) and the code has a case for it.  Sibling cross-check of all
    duration parsers of the repository (regex syntax trees, nothing is matched at run time)."""
    import re._parser as _sre
    n = 0
    for fn in sorted(ctx.repo.all_funcs(), key=lambda f: f.key):
        for c in own_nodes(fn):
            if not (isinstance(c, ast.Call) and norm(c.func) in ("re.match", "re.fullmatch", "re.search", "re.compile") and c.args
                    and isinstance(c.args[0], ast.Constant) and isinstance(c.args[0].value, str)):
                continue
            pat = c.args[0].value
            if not pat.startswith(r"(\d+"):
                continue
            try:
                tree = list(_sre.parse(pat))
            except Exception:
                continue
            groups = [(op, av) for (op, av) in tree if str(op) == "SUBPATTERN" or
                      (str(op) == "MAX_REPEAT" and len(list(av[2])) == 1 and str(list(av[2])[0][0]) == "SUBPATTERN")]
            if len(groups) < 2:
                continue
            cap = _unit_capture([groups[1]])
            # letters only: a unit group
            n += 1
            handled = any(isinstance(x, ast.Constant) and x.value == "min" for x in own_nodes(fn))
            if not handled:
                # the cases may live in a module- or class-level table the function looks the unit up in
                used = {x.id for x in own_nodes(fn) if isinstance(x, ast.Name)} | {x.attr for x in own_nodes(fn) if isinstance(x, ast.Attribute)}
                for st in ast.walk(fn.module.tree):
                    if isinstance(st, (ast.Assign, ast.AnnAssign)) and isinstance(getattr(st, "value", None), ast.Dict) \
                            and isinstance(getattr(st, "_parent", None), (ast.Module, ast.ClassDef)):
                        tg = st.targets[0] if isinstance(st, ast.Assign) else st.target
                        if isinstance(tg, ast.Name) and tg.id in used and any(isinstance(k, ast.Constant) and k.value == "min" for k in st.value.keys):
                            handled = True
            ok = cap == "min" and handled
            ctx.ob(rid, f"{fn.qual}: pattern {pat!r} reads the unit of '30min' as {cap!r}", (fn, c), ok,
                   "minutes are told from months, and the function has a case for 'min'" if ok else
                   (f"the unit group captures {cap!r} from 'min': a value such as `30min` is converted with the month factor"
                    if cap != "min" else "the pattern captures 'min' but the function has no case for it: the value falls to the default factor"),
                   key=key_of_text(rid, fn.qual, f"unit of {pat}"))
    ctx.floor(rid, floor)


def maybe_true(r: ast.Return) -> bool:
    """A return that can hand back a true value: anything but a constant False / None / 0.  (`return True`, but also
    `return self._limitsOk(i)` or `return ok` -- the facts required for a positive answer must hold there too.)"""
    v = r.value
    if v is None:
        return False
    if isinstance(v, ast.Constant):
        return bool(v.value)
    return True


def feasible_reach(g, start, targets: set, normal_only: bool = True) -> bool:
    """Is a node of `targets` reachable from `start` along paths that are consistent with the boolean / None constants assigned to
    local names on the way?  (`ok = False; break` ... `if not ok: return` -- the false edge of that test is not taken on this path.)
    Path-sensitive in exactly that respect; everything else is ordinary flow-graph reachability, so the answer errs on the side
    of "reachable"."""
    def step(n, st):
        a = n.ast
        if n.kind == "stmt" and isinstance(a, (ast.Assign, ast.AnnAssign)) and getattr(a, "value", None) is not None:
            tg = a.targets if isinstance(a, ast.Assign) else [a.target]
            if len(tg) == 1 and isinstance(tg[0], ast.Name):
                st = tuple(x for x in st if x[0] != tg[0].id)
                v = a.value
                if isinstance(v, ast.Constant) and (v.value is None or isinstance(v.value, bool)):
                    st = st + ((tg[0].id, v.value),)
                elif isinstance(v, ast.Name):
                    known = dict(st)
                    if v.id in known:
                        st = st + ((tg[0].id, known[v.id]),)
                return tuple(sorted(st, key=str))
        if isinstance(a, (ast.For,)) and isinstance(getattr(a, "target", None), ast.Name):
            return tuple(x for x in st if x[0] != a.target.id)
        if n.kind == "stmt" and isinstance(a, ast.AugAssign) and isinstance(a.target, ast.Name):
            return tuple(x for x in st if x[0] != a.target.id)
        return st

    def truth(e, known):
        if isinstance(e, ast.UnaryOp) and isinstance(e.op, ast.Not):
            v = truth(e.operand, known)
            return None if v is None else (not v)
        if isinstance(e, ast.Name) and e.id in known:
            return bool(known[e.id])
        if isinstance(e, ast.Compare) and len(e.ops) == 1 and isinstance(e.left, ast.Name) and e.left.id in known \
                and isinstance(e.comparators[0], ast.Constant) and e.comparators[0].value is None:
            isnone = known[e.left.id] is None
            if isinstance(e.ops[0], ast.Is):
                return isnone
            if isinstance(e.ops[0], ast.IsNot):
                return not isnone
        if isinstance(e, ast.BoolOp):
            vals = [truth(v, known) for v in e.values]
            if isinstance(e.op, ast.And):
                if any(v is False for v in vals):
                    return False
                if all(v is True for v in vals):
                    return True
            else:
                if any(v is True for v in vals):
                    return True
                if all(v is False for v in vals):
                    return False
        return None
    s0 = (start.id, ())
    seen, todo = {s0}, [s0]
    while todo:
        a, st = todo.pop()
        na = g.nodes[a]
        st2 = step(na, st)
        for (b, lbl) in g.succ[a]:
            if normal_only and lbl in ("exc", "excb"):
                continue
            if na.kind in ("if", "while") and na.ast is not None and lbl in ("T", "F"):
                tv = truth(na.ast, dict(st2))
                if tv is not None and lbl != ("T" if tv else "F"):
                    continue
            if b in targets:
                return True
            key = (b, st2)
            if key not in seen and len(seen) < 50000:
                seen.add(key)
                todo.append(key)
    return False
