"""Helpers shared by the rule modules."""
from __future__ import annotations

import ast
from typing import Callable, Optional

from ..cfg import cfg_of
from ..core import Ctx
from ..dep import data, full, pattr_of
from ..guards import MustFacts
from ..model import Func, const_str, dotted, norm, own_nodes

_FACTS: dict = {}


def facts_of(fn: Func) -> MustFacts:
    if fn not in _FACTS:
        _FACTS[fn] = MustFacts(cfg_of(fn))
    return _FACTS[fn]


def heap_writes(ctx: Ctx, fn: Func, attr: str) -> list:
    """[(atoms, cfg node, target ast)] for writes to <obj>.<attr> (incl. element writes / mutator calls)."""
    return [(a, n, t) for (f, a, n, t) in ctx.dep.of(fn).heap_writes if f == attr]


def pattr_writes(ctx: Ctx, fn: Func, pid: str) -> list:
    """[(atoms, cfg node, scenario expr, target ast)]"""
    return [(a, n, sc, t) for (p, a, n, sc, t) in ctx.dep.of(fn).pattr_writes if p == pid]


def value_of_write(node_ast: ast.AST) -> Optional[ast.AST]:
    if isinstance(node_ast, (ast.Assign, ast.AnnAssign, ast.AugAssign)):
        return node_ast.value
    return None


def calls_named(fn: Func, name: str) -> list:
    out = []
    for n in own_nodes(fn):
        if isinstance(n, ast.Call):
            d = dotted(n.func)
            if d and d.split(".")[-1] == name:
                out.append(n)
    return out


def returns(fn: Func) -> list:
    return [n for n in own_nodes(fn) if isinstance(n, ast.Return)]


def lit_compare(text: str) -> Optional[ast.AST]:
    try:
        e = ast.parse(text, mode="eval").body
    except SyntaxError:
        return None
    return e


def resolver_at(ctx: Ctx, fn: Func):
    """Name -> list of assigned value expressions in fn (flow-insensitive)."""
    from ..order import local_resolver
    return local_resolver(fn.node)


def has_atoms(atoms: set, *need: str, mode: str = "data") -> bool:
    s = data(atoms) if mode == "data" else full(atoms)
    return all(n in s for n in need)


def any_atom(atoms: set, *alts: str, mode: str = "data") -> bool:
    s = data(atoms) if mode == "data" else full(atoms)
    return any(n in s for n in alts)


def ctl_only(atoms: set) -> set:
    return {a[1:] for a in atoms if a.startswith("~")}


def enclosing_ifs(node: ast.AST, stop: ast.AST) -> list:
    """[(If node, 'T'|'F')] from innermost to outermost, for statements lexically inside if-bodies."""
    out = []
    child = node
    p = getattr(node, "_parent", None)
    while p is not None and p is not stop:
        if isinstance(p, ast.If):
            if child in p.body:
                out.append((p, "T"))
            elif child in p.orelse:
                out.append((p, "F"))
        child = p
        p = getattr(p, "_parent", None)
    return out


def stmt_of(node: ast.AST) -> ast.AST:
    p = node
    while p is not None and not isinstance(p, ast.stmt):
        p = getattr(p, "_parent", None)
    return p
