"""C01 — a resource is never double-booked.

Decided (necessary structural conditions of the per-slot ledger discipline):
  R01.1  ResourceScenario.book guards itself: every ledger write is reached only under the fact
         `force or self.available(<slot>)`; every call site of book leaves force at its default
  R01.2  the amount booked is what is left in the slot: it data-depends on the ledger, the remaining-
         seconds function is antitone in the seconds already used, `available` says yes only when
         remaining > 0, and the same booked amount goes to the per-task record, the slot total and the
         credited effort
  R01.3  every write that can lower / overwrite the slot total outside book depends on what this task
         had booked (the per-task record)
  R01.4  the start-offset write in bookResource is raise-only (guarded by ledger < offset)
  R01.6  the reported portion of a task inside its final slot is placed by the slot ledger (own per-task record),
         in the forward and in the backward branch (rule shared with C06 R06.1)
  R01.5  a slot owned by another task is offered again only if part of it was released (remaining < slot)
Not decided: the arithmetic fact sum <= slot length for float seconds.
"""
from __future__ import annotations

import ast
import re

from ..cfg import cfg_of
from ..core import Ctx, key_of
from ..dep import data, full
from ..model import AnchorMissing, dotted, norm, own_nodes
from ..order import local_resolver, mono, order_table
from .common import calls_named, facts_of, heap_writes, lit_compare, returns, maybe_true

META = {
    "level": "other",
    "technique": "static analysis: must-fact dominance, dependence closure, order tables and monotonicity over the booking ledger code",
    "explanation": "Rule instances over ResourceScenario.book/available/getAvailableSecondsInSlot and every writer of the "
                   "per-slot ledgers (slotSecondsUsed, slotTaskUsage, scoreboard): guard facts on all paths to a ledger "
                   "write, data dependence of the booked amount on the ledger, antitonicity of the remaining-seconds "
                   "function, and dependence of every lowering write on the seconds this task had booked. These are "
                   "necessary conditions of 'never more than the slot length, portions do not overlap'; the sums "
                   "themselves are runtime quantities and are not decided."
                   " Also: read-modify-write shape of every ledger-lowering write, the order table of the partial-slot re-offer, placement of the final-slot portion by the slot ledger in both scheduling directions, unconditional own-record lookup and the all-paths clamp of the seconds used to the seconds booked."
                   " Round 3: the ledger survives the per-run preparation of a resource (shared with C12), the amount book() adds to a slot derives from the ledger on every path, and no answer under Project.schedule comes from a lossy memo, a stale attribute slot or a process-level container."
                   " Round 4: every trace of a booking is written on every path of book() (CFG dominance), the mid-slot reservation is decided by state that does not change between the members of a team.",
    "assumptions": ["a predicate call tested in a branch (available) is stable until the guarded write in the same function"],
}

LEDGERS = ("slotSecondsUsed", "slotTaskUsage", "scoreboard")


def _signed_terms(e, sign=1):
    """additive terms of an expression with their signs"""
    if isinstance(e, ast.BinOp) and isinstance(e.op, ast.Add):
        return _signed_terms(e.left, sign) + _signed_terms(e.right, sign)
    if isinstance(e, ast.BinOp) and isinstance(e.op, ast.Sub):
        return _signed_terms(e.left, sign) + _signed_terms(e.right, -sign)
    return [(sign, e)]


def partial_reoffer_rule(ctx: Ctx, rid: str):
    """available(): an occupied slot is offered again only when part of it was released (shared by C01 / C02).
    Stated over the must-facts at every return that can answer True: there is a clause each of whose literals says either "the slot
    table entry is None" or "what is left of the slot is less than (or equal to) a whole slot" -- i.e. on every path to a positive
    answer the slot is unowned, or something of it was handed back.  Any control-flow shape that establishes this is accepted
    (`if owned and left < slot: pass / elif owned: return False`, a single guard `if owned and not left < slot: return False`, a
    helper predicate folded back by N-inline, a local alias of the table entry)."""
    avail = ctx.repo.func("ResourceScenario.available")
    g = cfg_of(avail)
    facts = facts_of(avail)
    rem_names = {t.id for n in own_nodes(avail) if isinstance(n, ast.Assign) and isinstance(n.value, ast.Call)
                 and (dotted(n.value.func) or "").endswith("getAvailableSecondsInSlot") for t in n.targets if isinstance(t, ast.Name)}
    slotp = avail.params[1] if len(avail.params) > 1 else "sb_idx"
    gran_names = {t.id for n in own_nodes(avail) if isinstance(n, (ast.Assign, ast.AnnAssign)) and n.value is not None
                  and "scheduleGranularity" in norm(n.value) for t in (n.targets if isinstance(n, ast.Assign) else [n.target]) if isinstance(t, ast.Name)}

    def lit_ok(t, p):
        tt = t.replace('"', "'")
        if tt == f"self.scoreboard[{slotp}] is not None":
            return p is False
        if tt == f"self.scoreboard[{slotp}] is None":
            return p is True
        e = lit_compare(t)
        if isinstance(e, ast.Compare) and len(e.ops) == 1:
            tab = order_table(e if p else ast.UnaryOp(op=ast.Not(), operand=e),
                              lambda x: isinstance(x, ast.Name) and x.id in rem_names or "getAvailableSecondsInSlot" in norm(x),
                              lambda x: "scheduleGranularity" in norm(x) or (isinstance(x, ast.Name) and x.id in gran_names))
            if tab is not None and tab["<"] is True and tab[">"] is False:
                return True
        return False
    rets = [r for r in returns(avail) if maybe_true(r)]
    if not rets:
        raise AnchorMissing("available(): no return that can answer True")
    for r in rets:
        node = g.node_of(r)
        cl = next((c for c in sorted(facts.at(node), key=lambda c: sorted(map(str, c))) if c and all(lit_ok(t, p) for (t, p) in c)), None)
        ok = cl is not None
        ctx.ob(rid, f"{avail.qual}: {norm(r)[:40]} -- occupied slot re-offered only after a partial release", (avail, r), ok,
               f"on every path to this answer: {sorted(t for t, _ in cl)}" if ok else
               "a slot owned by another task can be offered although nothing was released from it",
               key=key_of(rid, avail, None, "owned-slot"))


def marker_never_offered_rule(ctx: Ctx, rid: str):
    """available(): every positive answer is reached only under the fact that the slot-table entry is not a blocking marker
    (an int: off-shift / leave); markers are not "partly released bookings" (C02 R02.9 / C01 R01.7)."""
    avail = ctx.repo.func("ResourceScenario.available")
    g = cfg_of(avail)
    fa = facts_of(avail)
    n = 0
    for r in returns(avail):
        if not maybe_true(r):
            continue
        n += 1
        node = g.node_of(r)

        res_m = local_resolver(avail.node)

        def not_marker(t, p):
            t_ = t.replace(" ", "")
            if "scoreboard[" not in t_:
                # the entry may have been read into a local first:  entry = self.scoreboard[sb_idx]
                e_ = lit_compare(t)
                arg0 = e_.args[0] if isinstance(e_, ast.Call) and norm(e_.func) == "isinstance" and e_.args else (
                    e_.left if isinstance(e_, ast.Compare) else None)
                if not (isinstance(arg0, ast.Name) and any("scoreboard[" in norm(v).replace(" ", "") for v in res_m(arg0))):
                    return False
            if t_.startswith("isinstance(") and t_.endswith(",int)"):
                return not p
            if t_.startswith("isinstance(") and t_.endswith(",Task)"):
                return p
            return (t_.endswith("isNone") and p)
        cl = fa.holds(node, not_marker)
        # either the entry is known not to be an int marker, or it is a Task / None on every path
        ok = cl is not None
        ctx.ob(rid, f"{avail.qual}: return True only for an entry that is not a blocking marker", (avail, r), ok,
               f"fact on every path: {sorted(cl)}" if ok else
               "available() can answer True for a slot whose table entry is an off-shift / leave marker (it only needs `remaining < slot "
               "length`, which the start-offset reservation of bookResource establishes): a task is booked inside a leave",
               key=key_of(rid, avail, None, "marker never offered"))
    if not n:
        raise AnchorMissing("available(): no `return True`")


def raise_only_write(fn, node, val) -> bool:
    """The ledger write at cfg node is guarded exactly by `<ledger read> < <written value>`."""
    ffacts = facts_of(fn)
    res = local_resolver(fn.node)

    def is_led(x):
        if isinstance(x, ast.Name):
            return any(isinstance(v, ast.Call) and "slotSecondsUsed" in norm(v) for v in res(x))
        return "slotSecondsUsed" in norm(x)
    for cl in ffacts.at(node):
        if len(cl) != 1:
            continue
        (t, p), = tuple(cl)
        e = lit_compare(t)
        if isinstance(e, ast.Compare):
            tab = order_table(e if p else ast.UnaryOp(op=ast.Not(), operand=e), is_led, lambda x: norm(x) == norm(val))
            if tab == {"<": True, "=": False, ">": False}:
                return True
    return False


def offset_reservation_rule(ctx: Ctx, rid: str):
    """bookResource reserves the predecessor's part of the start slot whenever less than the offset is used."""
    fn = ctx.repo.func("TaskScenario.bookResource")
    n = 0
    for atoms, node, tgt in heap_writes(ctx, fn, "slotSecondsUsed"):
        val = node.ast.value if isinstance(node.ast, (ast.Assign, ast.AugAssign)) else None
        if val is None or "field:slotStartOffset" not in data(atoms):
            continue
        n += 1
        ok = raise_only_write(fn, node, val)
        # ... and a slot without a ledger entry counts as unused (0), so the reservation is made on a fresh slot too
        res_ = local_resolver(fn.node)
        reads = [v for nm in own_nodes(fn) if isinstance(nm, ast.Assign) and isinstance(nm.targets[0], ast.Name)
                 for v in [nm.value] if isinstance(v, ast.Call) and "slotSecondsUsed" in norm(v) and isinstance(v.func, ast.Attribute)
                 and v.func.attr == "get"]
        zero_default = bool(reads) and all(len(v.args) >= 2 and isinstance(v.args[1], ast.Constant) and v.args[1].value in (0, 0.0) for v in reads)
        other_guards = [t for cl in facts_of(fn).at(node) if len(cl) == 1 for (t, p) in cl if "is not None" in t or "is None" in t
                        if any(isinstance(x, ast.Name) and any(isinstance(v, ast.Call) and "slotSecondsUsed" in norm(v) for v in res_(x))
                               for x in ast.walk(lit_compare(t) or ast.Constant(value=0)))]
        ok = ok and zero_default and not other_guards
        # the "first slot of this task" part of the guard gives the same answer for every member of a team: it reads no field that
        # bookResources writes inside its loop over the members (the per-slot effort accumulator is written after the loop)
        brs = ctx.repo.func("TaskScenario.bookResources")
        loop_writes = set()
        for lp in own_nodes(brs):
            if isinstance(lp, ast.For):
                for x in ast.walk(lp):
                    if isinstance(x, (ast.Assign, ast.AugAssign)):
                        for t_ in (x.targets if isinstance(x, ast.Assign) else [x.target]):
                            if isinstance(t_, ast.Attribute) and norm(t_.value) == "self":
                                loop_writes.add(t_.attr)
        guard_reads = set()
        for cl in facts_of(fn).at(node):
            for (t_, _p) in cl:
                try:
                    for x in ast.walk(ast.parse(t_, mode="eval")):
                        if isinstance(x, ast.Attribute) and isinstance(x.value, ast.Name) and x.value.id == "self":
                            guard_reads.add(x.attr)
                except SyntaxError:
                    pass
        unstable = sorted(guard_reads & loop_writes)
        if unstable:
            ctx.ob(rid, f"{fn.qual}: reservation guard reads {unstable}, written per member by bookResources", (fn, node.ast), False,
                   f"the test that decides whether the start offset is set aside reads self.{unstable[0]}, which bookResources assigns after each "
                   "member of a team: the first member gets the reservation, the others book the slot from its beginning and the whole slot is credited",
                   key=key_of(rid, fn, None, "guard stable across team members"))
        ctx.ob(rid, f"{fn.qual}: {norm(node.ast)[:70]}", (fn, node.ast), ok,
               "the start-offset part of the slot is reserved exactly when less than the offset is in use" if ok else
               "the reservation of the predecessor's part of the start slot is not guarded by exactly `used < offset`: "
               "either it can lower the total or it is skipped while less than the offset is reserved, and the task's "
               "reported start (slot time + offset) no longer frames what was booked",
               key=key_of(rid, fn, node.ast, "offset-reservation"))
    if not n:
        raise AnchorMissing("bookResource: start-offset reservation write not found")


def slot_increment_rule(ctx: Ctx, rid: str):
    """What book() adds to a slot's total -- and credits -- is, on every path, derived from what is left in that slot
    (C01 R01.9 / C03 R03.11): each definition of the increment depends on the slot's ledger entry."""
    book = ctx.repo.func("ResourceScenario.book")
    fd = ctx.dep.of(book)
    incs = []
    for n in own_nodes(book):
        if isinstance(n, ast.Assign) and len(n.targets) == 1 and isinstance(n.targets[0], ast.Subscript) \
                and norm(n.targets[0].value) == "self.slotSecondsUsed":
            incs.append(n)
        elif isinstance(n, ast.AugAssign) and isinstance(n.target, ast.Subscript) and norm(n.target.value) == "self.slotSecondsUsed":
            incs.append(n)
    if not incs:
        raise AnchorMissing("ResourceScenario.book: no write of slotSecondsUsed[...]")
    res = local_resolver(book.node)
    nobs = 0
    for w in incs:
        # the names the new total is computed from, other than the previous total itself
        names = []
        for x in ast.walk(w.value):
            if isinstance(x, ast.Name) and isinstance(x.ctx, ast.Load):
                vals = res(x)
                if vals and all("slotSecondsUsed" in norm(v) for v in vals):
                    continue                      # the previous total
                names.append(x.id)
        for nm in sorted(set(names)):
            defs = [d for d in own_nodes(book) if isinstance(d, (ast.Assign, ast.AnnAssign)) and d.value is not None
                    and any(isinstance(t, ast.Name) and t.id == nm for t in (d.targets if isinstance(d, ast.Assign) else [d.target]))]
            def alts(e):
                if isinstance(e, ast.IfExp):
                    return alts(e.body) + alts(e.orelse)
                return [e]
            for d, alt in [(d, a) for d in defs for a in alts(d.value)]:
                atoms = data(fd.deps_of(alt))          # data flow only: the guard at the top of book() controls every path
                ok = "field:slotSecondsUsed" in atoms or "call:getAvailableSecondsInSlot" in atoms
                nobs += 1
                ctx.ob(rid, f"{book.qual}: increment {nm} = {norm(alt)[:60]}", (book, d), ok,
                       "the amount booked is what the ledger says is left in the slot" if ok else
                       f"on this path the amount added to the slot's total (and credited as effort) is {norm(alt)[:50]}, which does not "
                       "depend on what is already used or set aside in the slot: a slot whose first part is reserved (mid-slot start) or "
                       "partly used is booked as a whole",
                       key=key_of(rid, book, alt, "increment"))
    if not nobs:
        raise AnchorMissing("ResourceScenario.book: the increment of slotSecondsUsed is not a local quantity")


def book_effects_rule(ctx: Ctx, rid: str, which: tuple):
    """Every successful booking leaves all of its traces: in ResourceScenario.book the normal return of the booked amount is
    dominated (CFG) by the write of the slot total, the per-task record, the increments of the resource's own and its ancestors'
    limit counters, and the task's limit counters.  An effect that is skipped on some path (`only for shared slots`, `only when
    nothing was used yet`) leaves a booking the ledger or a counter does not know about.  `which` selects the effects the calling
    property needs."""
    book = ctx.repo.func("ResourceScenario.book")
    g = cfg_of(book)
    dom = g.dominators()
    rets = [n for n in g.nodes if isinstance(n.ast, ast.Return) and n.ast.value is not None
            and not (isinstance(n.ast.value, ast.Constant) and n.ast.value.value in (0, 0.0, None, False))]
    if not rets:
        raise AnchorMissing("ResourceScenario.book: return of the booked amount not found")
    EFFECTS = {
        "total": ("the slot total slotSecondsUsed[slot]", lambda a: isinstance(a, (ast.Assign, ast.AugAssign)) and any(
            isinstance(t, ast.Subscript) and norm(t.value) == "self.slotSecondsUsed" for t in (a.targets if isinstance(a, ast.Assign) else [a.target]))),
        "record": ("the per-task record slotTaskUsage[slot]", lambda a: isinstance(a, ast.Expr) and isinstance(a.value, ast.Call) and isinstance(a.value.func, ast.Attribute)
                   and a.value.func.attr == "append" and "slotTaskUsage" in norm(a.value.func.value)),
        "own_limit": ("the resource's own limit counters", lambda a: isinstance(a, ast.Expr) and isinstance(a.value, ast.Call) and norm(a.value.func) == "limits.inc"),
        # (loop heads carry their test expression in the flow graph)
        "parent_limit": ("the ancestors' limit counters", lambda a: isinstance(a, ast.Name) and isinstance(getattr(a, "_parent", None), ast.While)
                         and any(isinstance(x, ast.Assign) and norm(x.targets[0]) == a.id and norm(x.value) == f"{a.id}.parent" for x in ast.walk(a._parent))
                         and any(isinstance(x, ast.Call) and isinstance(x.func, ast.Attribute) and x.func.attr == "inc" for x in ast.walk(a._parent))),
        "task_limit": ("the task's limit counters", lambda a: isinstance(a, ast.Expr) and isinstance(a.value, ast.Call) and norm(a.value.func).endswith(".incLimits")),
    }
    GUARD_OK = {"own_limit": ("limits",), "task_limit": ("task_scenario",), "record": (), "total": (), "parent_limit": ()}
    from .common import enclosing_ifs
    for key in which:
        what, pred = EFFECTS[key]
        nodes = [n for n in g.nodes if n.ast is not None and pred(n.ast)]
        if not nodes:
            ctx.ob(rid, f"{book.qual}: {what} is written", book, False,
                   f"book() no longer writes {what}: bookings are not on record", key=key_of(rid, book, None, f"effect {key} missing"))
            continue
        for n in nodes[:1]:
            # guards that only test the existence of the object written to (`if limits and hasattr(limits, 'inc')`) do not skip an effect
            extra = [norm(i.test) for (i, b) in enclosing_ifs(n.ast, book.node)
                     if not all(any(tok in norm(lit_) for tok in GUARD_OK[key]) for lit_ in
                                (i.test.values if isinstance(i.test, ast.BoolOp) else [i.test]))
                     and "not in self.slotTaskUsage" not in norm(i.test)]
            ok = not extra
            ctx.ob(rid, f"{book.qual}: {what} written on every booking", (book, n.ast), ok,
                   "unconditional apart from the existence test of the object" if ok else
                   f"{what} is written only under {extra}: a booking made on the other path is missing from it -- the slot can be offered "
                   "again, or the limit is not counted",
                   key=key_of(rid, book, None, f"effect {key}"))


def remaining_seconds_rule(ctx: Ctx, rid: str):
    """getAvailableSecondsInSlot: every return is a clamped, decreasing function of the seconds the ledger says are used in the slot
    (C01 R01.2; C06 R06.12 / C03: a slot whose head is set aside for a mid-slot start is not wholly free)."""
    rem = ctx.repo.func("ResourceScenario.getAvailableSecondsInSlot")
    # remaining-seconds function antitone in used seconds, clamped at 0
    res_rem = local_resolver(rem.node)

    def is_used(e):
        return isinstance(e, ast.Call) and isinstance(e.func, ast.Attribute) and e.func.attr == "get" \
            and isinstance(e.func.value, ast.Attribute) and e.func.value.attr == "slotSecondsUsed"

    for r in returns(rem):
        m = mono(r.value, is_used, res_rem)
        clamp = any(isinstance(c, ast.Call) and norm(c.func) == "max" and any(isinstance(a, ast.Constant) and a.value == 0 for a in c.args)
                    for c in ast.walk(r.value))
        ctx.ob(rid, f"{rem.qual}: return {norm(r.value)[:50]}", (rem, r), m == "-" and clamp,
               "remaining seconds = max(0, slot - used): antitone in used seconds" if (m == "-" and clamp) else
               f"remaining seconds is not a clamped decreasing function of the seconds used (monotonicity '{m}', clamp={clamp})",
               key=key_of(rid, rem, r.value))
        dd = data(ctx.dep.of(rem).deps_of(r.value))
        ok = "pattr:scheduleGranularity" in dd
        ctx.ob(rid, f"{rem.qual}: slot length source", (rem, r), ok,
               "slot length comes from the project's scheduleGranularity" if ok else "slot length is not the project's granularity",
               key=key_of(rid, rem, None, "granularity"))


def record_only_lowered_rule(ctx: Ctx, rid: str):
    """Outside book(), a per-task record of slotTaskUsage is only ever LOWERED to what the task really used: each element write
    `records[i] = (task, new)` is reached under a fact that compares the previous amount with the new one (`previous > new`, or
    `unused > 0` with unused = previous - new).  A write without it can raise a team member's record above what that member had
    left in the slot, and the slot then holds more than its length."""
    repo = ctx.repo
    n = 0
    for fn in sorted(ctx.cg.reach([repo.func("Project.schedule")]), key=lambda f: f.key):
        if fn.name == "book" or fn.cls is None or fn.cls.name not in ("TaskScenario", "ResourceScenario"):
            continue
        g = cfg_of(fn)
        facts = facts_of(fn)
        res = local_resolver(fn.node)
        for node in g.nodes:
            a = node.ast
            if not (node.kind == "stmt" and isinstance(a, ast.Assign) and len(a.targets) == 1 and isinstance(a.targets[0], ast.Subscript)
                    and isinstance(a.value, ast.Tuple) and len(a.value.elts) == 2):
                continue
            base = a.targets[0].value
            based = norm(base)
            root = base
            while isinstance(root, (ast.Subscript, ast.Attribute)):
                root = root.value                     # records / usage[slot] / self.x.slotTaskUsage[slot]: the name the path starts from
            vals = res(root) if isinstance(root, ast.Name) else [base]
            if "slotTaskUsage" not in based and not any("slotTaskUsage" in norm(v) for v in vals):
                continue
            new = norm(a.value.elts[1])
            n += 1
            ok = False
            for cl in facts.at(node):
                if len(cl) != 1:
                    continue
                (t, p), = tuple(cl)
                e = lit_compare(t)
                if not isinstance(e, ast.Compare) or len(e.ops) != 1:
                    continue
                l, r = norm(e.left), norm(e.comparators[0])
                gt = isinstance(e.ops[0], ast.Gt) and p or isinstance(e.ops[0], ast.LtE) and not p
                lt = isinstance(e.ops[0], ast.Lt) and p or isinstance(e.ops[0], ast.GtE) and not p
                if (gt and r == new and l != new) or (lt and l == new and r != new):
                    ok = True
                if gt and r in ("0", "0.0"):
                    for v in (res(e.left) if isinstance(e.left, ast.Name) else [e.left]):
                        if isinstance(v, ast.BinOp) and isinstance(v.op, ast.Sub) and norm(v.right) == new:
                            ok = True             # previous - new > 0, written in place or through a name
            ctx.ob(rid, f"{fn.qual}: {norm(a)[:70]}", (fn, a), ok,
                   "the record is replaced only when it held more than the new amount" if ok else
                   f"the record is set to {new} whatever it held before: a member that had less of the slot left than the task ends up using gets "
                   "MORE seconds on record than it booked, and the slot's records add up to more than the slot",
                   key=key_of(rid, fn, a.value, "record only lowered"))
    if n < 2:
        raise AnchorMissing(f"writes of per-task usage records outside book(): {n} found (lead and team members expected)")


def run_extra(ctx: Ctx):
    record_only_lowered_rule(ctx, "R01.12")
    # ---------------------------------------------------------------- R01.11 the head of the start slot is set aside for every resource the task books
    offset_reservation_rule(ctx, "R01.11")
    # ---------------------------------------------------------------- R01.8 answers never come from state that outlives the question
    from .common import process_state_rule
    process_state_rule(ctx, "R01.8", [ctx.repo.func("Project.schedule")],
                       "a slot's booked total is answered from another slot's or another run's record")


def run(ctx: Ctx):
    repo = ctx.repo
    book = repo.func("ResourceScenario.book")
    avail = repo.func("ResourceScenario.available")
    rem = repo.func("ResourceScenario.getAvailableSecondsInSlot")
    slot_param = book.params[1] if len(book.params) > 1 else None
    if slot_param is None:
        raise AnchorMissing("ResourceScenario.book has no slot parameter")

    # ---------------------------------------------------------------- R01.1
    facts = facts_of(book)
    fd = ctx.dep.of(book)
    pat = re.compile(r"^self\.available\(\s*" + re.escape(slot_param) + r"\s*\)$")

    def guard_lit(t, p):
        return p and (t == "force" or bool(pat.match(t)))

    n_writes = 0
    for led in LEDGERS:
        if not heap_writes(ctx, book, led):
            raise AnchorMissing(f"ResourceScenario.book (helpers inlined) has no write to the ledger '{led}'")
        for atoms, node, tgt in heap_writes(ctx, book, led):
            n_writes += 1
            cl = facts.holds(node, guard_lit)
            ok = cl is not None and any(pat.match(t) for (t, _p) in cl)
            ctx.ob("R01.1", f"{book.qual}: write {norm(tgt)[:60]}", (book, node.ast), ok,
                   f"reached only under {{{' or '.join(t for t, _ in sorted(cl))}}}" if ok else
                   "ledger write in book() is not guarded by the availability test of the same slot on every path",
                   witness={"fact": sorted(t for t, _ in cl)} if ok else None,
                   key=key_of("R01.1", book, tgt))
    for caller, call in ctx.cg.callers(book):
        forced = len(call.args) > 2 or any(k.arg == "force" and not (isinstance(k.value, ast.Constant) and k.value.value is False)
                                           for k in call.keywords)
        ctx.ob("R01.1", f"{caller.qual}: {norm(call)[:60]}", (caller, call), not forced,
               "call leaves force at its default (False)" if not forced else "book() is called with force: the availability guard is bypassed",
               key=key_of("R01.1", caller, call))

    # ---------------------------------------------------------------- R01.2
    sec_writes = heap_writes(ctx, book, "slotSecondsUsed")
    for atoms, node, tgt in sec_writes:
        d = data(atoms)
        ok = "field:slotSecondsUsed" in d and ("call:getAvailableSecondsInSlot" in d)
        ctx.ob("R01.2", f"{book.qual}: {norm(node.ast)[:70]}", (book, node.ast), ok,
               "new slot total = old total + remaining seconds (depends on the ledger through getAvailableSecondsInSlot)" if ok else
               "the seconds added to the slot total do not depend on what is already used in the slot",
               key=key_of("R01.2", book, node.ast))
        # additive: value is monotone increasing in the previous total
        val = node.ast.value if isinstance(node.ast, ast.Assign) else None
        if val is not None:
            res = local_resolver(book.node)

            def is_old(e):
                return isinstance(e, ast.Call) and isinstance(e.func, ast.Attribute) and e.func.attr == "get" \
                    and isinstance(e.func.value, ast.Attribute) and e.func.value.attr == "slotSecondsUsed"
            m = mono(val, is_old, res)
            ctx.ob("R01.2", f"{book.qual}: slot total monotone in previous total", (book, node.ast), m == "+",
                   "previous total is carried forward (value is non-decreasing in it)" if m == "+" else
                   f"new slot total is not an increment of the previous total (monotonicity '{m}')",
                   key=key_of("R01.2", book, node.ast, "mono"))
    # per-task record and credited effort use the same amount
    for atoms, node, tgt in heap_writes(ctx, book, "slotTaskUsage"):
        if isinstance(tgt, ast.Call):     # .append((task, seconds))
            d = data(atoms)
            ok = "call:getAvailableSecondsInSlot" in d and "param:" + book.params[2] in d
            ctx.ob("R01.2", f"{book.qual}: {norm(tgt)[:70]}", (book, node.ast), ok,
                   "per-task record holds (task, booked seconds)" if ok else
                   "per-task usage record does not carry the task and the seconds actually booked",
                   key=key_of("R01.2", book, tgt))
    for r in returns(book):
        if r.value is None or (isinstance(r.value, ast.Constant)):
            continue
        d = data(fd.deps_of(r.value))
        ok = "call:getAvailableSecondsInSlot" in d and "pattr:efficiency" in d
        ctx.ob("R01.2", f"{book.qual}: return {norm(r.value)[:40]}", (book, r), ok,
               "credited effort = booked seconds x efficiency" if ok else
               "effort returned by book() does not depend on the booked seconds and the efficiency",
               key=key_of("R01.2", book, r.value))
    remaining_seconds_rule(ctx, "R01.2")
    # available(): yes only when remaining > 0
    g = cfg_of(avail)
    afacts = facts_of(avail)
    res_av = local_resolver(avail.node)
    rem_names = {t.id for n in own_nodes(avail) if isinstance(n, ast.Assign) and isinstance(n.value, ast.Call)
                 and (dotted(n.value.func) or "").endswith("getAvailableSecondsInSlot") for t in n.targets if isinstance(t, ast.Name)}
    for r in returns(avail):
        if not maybe_true(r):
            continue
        node = g.node_of(r)
        found = None
        for cl in afacts.at(node):
            if len(cl) != 1:
                continue
            (t, p), = tuple(cl)
            e = lit_compare(t)
            if not isinstance(e, ast.Compare):
                continue
            tab = order_table(e if p else ast.UnaryOp(op=ast.Not(), operand=e),
                              lambda x: isinstance(x, ast.Name) and x.id in rem_names,
                              lambda x: isinstance(x, ast.Constant) and x.value in (0, 0.0))
            if tab == {"<": False, "=": False, ">": True}:
                found = t
        ctx.ob("R01.2", f"{avail.qual}: return True requires remaining > 0", (avail, r), found is not None,
               f"fact on every path: not ({found})" if found else
               "available() can answer True without having established that seconds remain in the slot",
               key=key_of("R01.2", avail, None, "remaining>0"))
    # ---------------------------------------------------------------- R01.5 (partial-slot re-offer)
    partial_reoffer_rule(ctx, "R01.5")

    # ---------------------------------------------------------------- R01.3 / R01.4
    sched_roots = [repo.func("Project.schedule")]
    reach = ctx.cg.reach(sched_roots)
    for fn in sorted(repo.all_funcs(), key=lambda f: f.key):
        if fn is book or fn.name in ("__init__", "prepareScheduling"):
            continue
        ws = heap_writes(ctx, fn, "slotSecondsUsed")
        if not ws:
            continue
        if fn not in reach:
            ctx.ob("R01.3", f"{fn.qual}: writes slotSecondsUsed, not reachable from Project.schedule", fn, None,
                   "dead code today; becomes an obligation when wired in", info=True)
            continue
        ffacts = facts_of(fn)
        res = local_resolver(fn.node)
        from .c12 import scenarios_processed_once
        prep_only = fn.name == "initScoreboard" and scenarios_processed_once(ctx)
        for atoms, node, tgt in ws:
            val = node.ast.value if isinstance(node.ast, (ast.Assign, ast.AugAssign)) else None
            # a fresh, empty ledger installed while the slot table is built: each scenario is prepared once, before its first
            # booking (C12 R12.8), so nothing is dropped
            if prep_only and isinstance(node.ast, ast.Assign) and norm(node.ast.targets[0]) == "self.slotSecondsUsed" \
                    and isinstance(val, (ast.Dict, ast.Call)) and norm(val) in ("{}", "dict()"):
                ctx.ob("R01.3", f"{fn.qual}: {norm(node.ast)[:70]}", (fn, node.ast), True,
                       "empty ledger for a slot table that has no bookings yet (scenario prepared once)")
                continue
            # raise-only idiom: guarded by `<ledger read> < <value>`
            raise_only = False
            if val is not None:
                for cl in ffacts.at(node):
                    if len(cl) != 1:
                        continue
                    (t, p), = tuple(cl)
                    e = lit_compare(t)
                    if isinstance(e, ast.Compare):
                        def is_led(x):
                            if isinstance(x, ast.Name):
                                return any(isinstance(v, ast.Call) and "slotSecondsUsed" in norm(v) for v in res(x))
                            return "slotSecondsUsed" in norm(x)
                        tab = order_table(e if p else ast.UnaryOp(op=ast.Not(), operand=e), is_led,
                                          lambda x: norm(x) == norm(val))
                        if tab == {"<": True, "=": False, ">": False}:
                            raise_only = True
            if raise_only:
                ctx.ob("R01.4", f"{fn.qual}: {norm(node.ast)[:70]}", (fn, node.ast), True,
                       "write can only raise the slot total (guarded by ledger < new value)")
                continue
            d = data(atoms)
            ok = "field:slotTaskUsage" in d or "call:book" in d
            # every amount that is subtracted from the slot total must be what this task had booked
            if ok and val is not None:
                fdx = ctx.dep.of(fn)
                for sign, term in _signed_terms(val):
                    if sign < 0:
                        td = data(fdx.deps_of(term))
                        if not ("field:slotTaskUsage" in td or "call:book" in td):
                            ok = False
                # ... and the write is a read-modify-write: what the other tasks hold in the slot stays in the total
                rmw = any(sign > 0 and "field:slotSecondsUsed" in data(fdx.deps_of(term)) for sign, term in _signed_terms(val))
                ctx.ob("R01.3", f"{fn.qual}: {norm(node.ast)[:70]} keeps the previous total", (fn, node.ast), rmw,
                       "new total = previous total adjusted by this task's own seconds" if rmw else
                       "the slot total is overwritten with a value that does not contain the previous total: whatever other "
                       "tasks hold in the slot is dropped (or invented), so total != sum of the per-task records",
                       key=key_of("R01.3", fn, node.ast, "rmw"))
            ctx.ob("R01.3", f"{fn.qual}: {norm(node.ast)[:90]}", (fn, node.ast), ok,
                   "lowering write depends on the seconds this task had booked" if ok else
                   "the slot total is rewritten from the slot length and the used fraction only; the seconds this task had "
                   "actually booked (per-task record / book() result) are not read, so when the task shared the slot "
                   "(start offset, earlier partial booking) the total no longer equals the sum of the per-task records",
                   key=key_of("R01.3", fn, node.ast))
    # ---------------------------------------------------------------- R01.6 (shared with C06)
    from .c06 import precise_end_rules
    precise_end_rules(ctx, "R01.6")
    ctx.floor("R01.6", 6)
    # ---------------------------------------------------------------- R01.7 (shared with C12): the ledger outlives the slot table
    from .c12 import ledger_survives_prepare_rule
    ledger_survives_prepare_rule(ctx, "R01.7")
    ctx.floor("R01.7", 2)
    slot_increment_rule(ctx, "R01.9")
    ctx.floor("R01.9", 1)
    book_effects_rule(ctx, "R01.10", ("total", "record"))
    ctx.floor("R01.10", 2)
    ctx.floor("R01.1", 4)      # one write per ledger (checked by name above) and one caller
    ctx.floor("R01.2", 7)
    ctx.floor("R01.3", 2)
    ctx.floor("R01.4", 1)
