"""C17 — slot/time conversion and interval scanning obey their algebra.

Decided:
  R17.1  range discipline: without clamping, index <-> date conversion rejects anything outside
         [0, size-1] (must-facts on the in-range result); with clamping the results are exactly 0 / size-1
         (dates: start / end); raw item access rejects negative indices
  R17.2  the slot table has ceil((end-start)/resolution) + 1 entries; index -> time is start + i*resolution
         (strictly increasing in i); time -> index is the floor of (t-start)/resolution
  R17.3  sentinel/domain collision: a variable initialised to a literal and tested against it as "unset"
         must not be assigned values whose range contains the literal (run start in the interval scan)
  R17.4  the compiled and the Python implementation of every conversion agree (pair comparison of C13)
  R17.5  interval scan: window widened by the minimum duration and clamped to [0, size-1]; a run is
         reported iff its length >= minimum; start clipped up to the query start, end clipped down to the
         query end
Not decided: the inverse laws index(time(i)) = i over float division.
"""
from __future__ import annotations

import ast
import os

from ..cfg import cfg_of
from ..dep import data, full
from ..core import Ctx, key_of
from ..model import AnchorMissing, Inconclusive, dotted, norm, own_nodes
from ..order import affine, local_resolver, mono, order_table
from .. import pair as P
from .. import pyx as PX
from .common import facts_of, returns
from . import c13

META = {
    "level": "other",
    "technique": "static analysis: must-facts on conversion results, affine offsets, monotonicity, sentinel/domain rule, fast/fallback decision-table comparison",
    "explanation": "Rule instances over Scoreboard.__init__/idxToDate/dateToIdx/__getitem__/collectIntervals, "
                   "Project.dateToIdx/idxToDate and their compiled twins: range facts on every in-range result, clamp "
                   "results as affine forms of the table size, monotonicity of index -> time, a sentinel rule for the "
                   "interval scan, and the pair comparison of C13 restricted to the conversion functions."
                   " Also: every dateToIdx result decided on the computed index, floor (not truncation) in all conversions, reset of the run on every non-matching path, and a non-empty clipped run at every reported interval."
                   " Round 3: conversions are not answered from memos that a change of start or resolution does not empty (invalidation rule)."
                   " Round 4: the minimum duration decides about runs, never about the window.",
    "assumptions": ["resolution > 0"],
    "trusted_base": ["Cython 3.3.0 front end (pair comparison)"],
}


def min_duration_scope_rule(ctx: Ctx, rid: str):
    """The minimum duration of collectIntervals applies to the length of a RUN (measured before clipping), never to the length of the
    query window: no return of an empty result is taken under a test that involves the minimum duration -- a long run overlapping a
    narrow window must still be reported, clipped."""
    from .common import facts_of
    from ..cfg import cfg_of
    fn = ctx.repo.func("Scoreboard.collectIntervals")
    g = cfg_of(fn)
    facts = facts_of(fn)
    res = local_resolver(fn.node) if "local_resolver" in globals() else None
    mins = {p for p in fn.params if "min" in p.lower()}
    for a in own_nodes(fn):
        if isinstance(a, (ast.Assign, ast.AnnAssign)) and a.value is not None and any(isinstance(x, ast.Name) and x.id in mins for x in ast.walk(a.value)):
            for t in (a.targets if isinstance(a, ast.Assign) else [a.target]):
                if isinstance(t, ast.Name):
                    mins.add(t.id)
    if not mins:
        raise AnchorMissing("collectIntervals: minimum-duration parameter not found")
    n = 0
    for node in g.nodes:
        r = node.ast
        if not (node.kind == "stmt" and isinstance(r, ast.Return) and r.value is not None and isinstance(r.value, (ast.List, ast.Tuple)) and not r.value.elts):
            continue
        n += 1
        involved = sorted({t for cl in facts.at(node) for (t, _p) in cl if any(m in t for m in mins)})
        ctx.ob(rid, f"{fn.qual}: empty result at line {r.lineno}", (fn, r), not involved,
               "not decided by the minimum duration" if not involved else
               f"an empty result is returned under {involved}: the minimum duration is compared with something other than the length of a run, so "
               "a run longer than the minimum is dropped when the window it is clipped to is shorter",
               key=key_of(rid, fn, None, f"empty return {n}"))
    ctx.ob(rid, f"{fn.qual}: {n} early empty returns, none decided by {sorted(mins)}", fn, True, "minimum duration is a property of runs", nontrivial=False)


def run_extra(ctx: Ctx):
    min_duration_scope_rule(ctx, "R17.7")
    # ---------------------------------------------------------------- R17.6 conversions are not answered from stale or lossy memos
    from .common import process_state_rule
    process_state_rule(ctx, "R17.6", [ctx.repo.func(q) for q in ("Project.dateToIdx", "Project.idxToDate", "Scoreboard.dateToIdx", "Scoreboard.idxToDate",
                                                              "WorkingHours.onShift")],
                       "an index or a date is answered from a conversion made under another start or resolution", census=False)



def slot_floor_rule(ctx: Ctx, rid: str):
    """Project.dateToIdx, Python path: the slot of an instant is the floor of (instant - start) / slot length -- every division of the
    elapsed time by the slot length is a floor division or sits directly inside floor().  Rounding to the nearest slot puts an instant
    of the second half of a slot into the next one: a milestone dated by its dependency bound moves to the next slot boundary
    (C17 R17.2 / C06 R06.13)."""
    repo = ctx.repo
    pd2i = repo.func("Project.dateToIdx")
    # every division of the elapsed time by the slot length in the Python path is a floor division or sits directly inside floor()
    fdp = ctx.dep.of(pd2i)
    res_p = local_resolver(pd2i.node)

    def is_gran(e):
        if "scheduleGranularity" in norm(e):
            return True
        return isinstance(e, ast.Name) and any("scheduleGranularity" in norm(d) for d in res_p(e))
    pasg = [x for x in own_nodes(pd2i) if isinstance(x, ast.BinOp) and isinstance(x.op, (ast.Div, ast.FloorDiv)) and is_gran(x.right)
            and f"param:{pd2i.params[1]}" in full(fdp.deps_of(x.left))]

    def floored(x):
        if isinstance(x.op, ast.FloorDiv):
            return True
        par = getattr(x, "_parent", None)
        return isinstance(par, ast.Call) and norm(par.func) in ("math.floor", "floor") and len(par.args) == 1 and par.args[0] is x
    ok = bool(pasg) and all(floored(x) for x in pasg)
    ctx.ob(rid, f"{pd2i.qual}: {norm(pasg[0]) if pasg else '-'}", pd2i, ok, "index(t) = floor((t - start) / granularity)" if ok else
           "project time -> index is not a floor: an instant before the project start maps to slot 0",
           key=f"{rid}|Project.dateToIdx|formula")

def run(ctx: Ctx):
    repo = ctx.repo
    i2d = repo.func("Scoreboard.idxToDate")
    d2i = repo.func("Scoreboard.dateToIdx")
    init = repo.func("Scoreboard.__init__")
    ci = repo.func("Scoreboard.collectIntervals")
    # ---------------------------------------------------------------- R17.1
    for fn, var in ((i2d, "idx"), (d2i, "idx")):
        facts = facts_of(fn)
        g = cfg_of(fn)
        rets = [r for r in returns(fn)]
        last = rets[-1]
        node = g.node_of(last)
        fs = facts.at(node)
        # on the final (fallback, unclamped or in-range) return: either clamping was requested and handled, or the range test passed
        lo = any(all(((t.replace(" ", "") == f"{var}<0") and not p) or (t == "forceIntoProject" and p) for (t, p) in cl) and
                 any(t.replace(" ", "") == f"{var}<0" for (t, _p) in cl) for cl in fs)
        hi = any(all(((t.replace(" ", "") == f"{var}>=self.size") and not p) or (t == "forceIntoProject" and p) for (t, p) in cl) and
                 any(t.replace(" ", "") == f"{var}>=self.size" for (t, _p) in cl) for cl in fs)
        ctx.ob("R17.1", f"{fn.qual}: in-range result {norm(last.value)[:50]}", (fn, last), lo and hi,
               "reached only with 0 <= index < size (or after clamping)" if lo and hi else
               f"an index outside [0, size-1] can reach the plain conversion (lower fact {lo}, upper fact {hi})",
               key=f"R17.1|{fn.qual}|range")
        raises = [n for n in own_nodes(fn) if isinstance(n, ast.Raise) and "IndexError" in norm(n)]
        ctx.ob("R17.1", f"{fn.qual}: {len(raises)} IndexError raise(s) (fast wrapper + fallback)", fn, len(raises) >= 2,
               "both implementations reject out-of-range values when clamping is off" if len(raises) >= 2 else
               "an implementation no longer rejects out-of-range values", key=f"R17.1|{fn.qual}|raises")
        for r_ in raises:
            t = norm(next(i for i in _ancestors(r_) if isinstance(i, ast.If)).test)
            ok = f"{var} < 0" in t and f"{var} >= self.size" in t
            ctx.ob("R17.1", f"{fn.qual}: raise under {t[:70]}", (fn, r_), ok, "rejected iff index < 0 or index >= size" if ok else
                   "rejection condition is not (index < 0 or index >= size)", key=key_of("R17.1", fn, None, "raise cond " + t[:60]))
    # every result of dateToIdx is the conversion arithmetic itself or a clamp decided on the computed INDEX: an answer taken
    # from a comparison of dates short-cuts the floor (time(size-1) <= end does not make end's floor index size-1)
    fd2i = facts_of(d2i)
    gd2i = cfg_of(d2i)
    for r in returns(d2i):
        if r.value is None:
            continue
        v = r.value
        while isinstance(v, ast.Call) and norm(v.func) == "int" and v.args:
            v = v.args[0]
        if isinstance(v, ast.Name) and v.id == "idx":
            continue
        fs = fd2i.at(gd2i.node_of(r))
        idx_fact = any(len(cl) == 1 and next(iter(cl))[0].replace(" ", "").startswith("idx") for cl in fs)
        low_ok = isinstance(v, ast.Constant) and v.value == 0 and any(
            len(cl) == 1 and next(iter(cl))[1] and next(iter(cl))[0].replace(" ", "") in ("date<=self.startDate", "date<self.startDate") for cl in fs)
        ok = idx_fact or low_ok
        ctx.ob("R17.1", f"{d2i.qual}: return {norm(r.value)} decided on the computed index", (d2i, r), ok,
               "clamp result under a fact about the computed index" if ok else
               "a result is returned under a comparison of DATES, not of the computed index: for a window that is not a whole number of "
               "slots long the instant `end` floors to size-2, so time(index(t)) > t",
               key=key_of("R17.1", d2i, None, "return " + norm(r.value)))
    # clamp results
    res = local_resolver(d2i.node)
    clamp = []
    for i in own_nodes(d2i):
        if isinstance(i, ast.If) and isinstance(i.test, ast.Compare) and norm(i.test.left) == "idx":
            for s in i.body:
                if isinstance(s, ast.Return):
                    clamp.append((norm(i.test), s))
    want = {"idx < 0": ("0", 0), "idx >= self.size": ("self.size", -1)}
    seen = set()
    for t, s in clamp:
        if t in want:
            seen.add(t)
            root, k = want[t]
            if root == "0":
                ok = isinstance(s.value, ast.Constant) and s.value.value == 0
            else:
                a = affine(s.value, lambda e: norm(e) == "self.size")
                ok = a is not None and a[1] == k
            ctx.ob("R17.1", f"{d2i.qual}: clamp {t} -> {norm(s.value)}", (d2i, s), ok, "clamped to the first / last slot" if ok else
                   "clamped result is not 0 / size-1", key=f"R17.1|dateToIdx|clamp {t}")
    if seen != set(want):
        raise AnchorMissing(f"dateToIdx clamps found: {sorted(seen)}")
    clampd = {}
    for i in own_nodes(i2d):
        if isinstance(i, ast.If) and isinstance(i.test, ast.Compare) and norm(i.test.left) == "idx":
            for s in i.body:
                if isinstance(s, ast.Return):
                    clampd[norm(i.test)] = norm(s.value)
    ok = clampd.get("idx < 0") == "self.startDate" and clampd.get("idx >= self.size") == "self.endDate"
    ctx.ob("R17.1", f"{i2d.qual}: clamps {clampd}", i2d, ok, "clamped to the table's start / end date" if ok else
           "clamped dates are not start / end", key="R17.1|idxToDate|clamps")
    for nm in ("__getitem__", "__setitem__"):
        f = repo.func(f"Scoreboard.{nm}")
        facts = facts_of(f)
        g = cfg_of(f)
        idxp = f.params[1]
        oks = []
        for n in g.nodes:
            if n.kind == "stmt" and n.ast is not None and any(isinstance(s, ast.Subscript) and norm(s.value) == "self.sb" for s in ast.walk(n.ast)):
                oks.append(facts.holds(n, lambda t, p: (not p) and t.replace(" ", "") == f"{idxp}<0") is not None)
        ctx.ob("R17.1", f"{f.qual}: negative index rejected", f, bool(oks) and all(oks), "no wrap-around" if oks and all(oks) else
               "negative indices wrap around to the end of the table", key=f"R17.1|{f.qual}|negative")
    # ---------------------------------------------------------------- R17.2
    sz = [a for a in own_nodes(init) if isinstance(a, ast.Assign) and norm(a.targets[0]) == "self.size"]
    if not sz:
        raise AnchorMissing("Scoreboard.__init__ does not set self.size")
    a = affine(sz[0].value, lambda e: isinstance(e, ast.Call) and norm(e.func) == "math.ceil")
    ok = a is not None and a[1] == 1 and "diff / granularity" in a[0]
    ctx.ob("R17.2", f"{init.qual}: {norm(sz[0])}", (init, sz[0]), ok, "size = ceil(span / resolution) + 1: covers [start, end]" if ok else
           f"table size is not ceil(span/resolution) + 1 ({a})", key="R17.2|Scoreboard.__init__|size")
    last = returns(i2d)[-1]
    m = mono(last.value, lambda e: isinstance(e, ast.Name) and e.id == "idx")
    ok = m == "+" and "self.resolution" in norm(last.value) and "self.startDate" in norm(last.value)
    ctx.ob("R17.2", f"{i2d.qual}: {norm(last.value)}", (i2d, last), ok, "time(i) = start + i * resolution: strictly increasing" if ok else
           f"index -> time is not start + i * resolution (monotonicity {m})", key="R17.2|idxToDate|formula")
    asg = [x for x in own_nodes(d2i) if isinstance(x, ast.Assign) and norm(x.targets[0]) == "idx" and "diff / self.resolution" in norm(x.value)]
    # floor, not truncation: an instant before the start must get a negative index (and be rejected / clamped), not slot 0
    asg = asg or [x for x in own_nodes(d2i) if isinstance(x, ast.Assign) and norm(x.targets[0]) == "idx" and "diff // self.resolution" in norm(x.value)]
    ok = bool(asg) and norm(asg[0].value) in ("math.floor(diff / self.resolution)", "int(math.floor(diff / self.resolution))",
                                              "int(diff // self.resolution)", "diff // self.resolution")
    dres = local_resolver(d2i.node)
    diff_ok = any(norm(v) in ("diff_result.total_seconds()",) for v in dres(ast.Name(id="diff", ctx=ast.Load()))) and \
        any(norm(v) == "date - self.startDate" for v in dres(ast.Name(id="diff_result", ctx=ast.Load())))
    ctx.ob("R17.2", f"{d2i.qual}: {norm(asg[0]) if asg else '-'}", d2i, ok and diff_ok, "index(t) = floor((t - start) / resolution)" if ok and diff_ok else
           "time -> index is not floor((t - start) / resolution): int() truncates toward zero, so an instant up to one slot before the "
           "start maps to slot 0 and is accepted where it must be rejected", key="R17.2|dateToIdx|formula")
    ps = repo.func("Project.scoreboardSize")
    first = [s for s in ps.node.body if isinstance(s, ast.If)][0]
    ok = norm(first.test) == "self.scoreboard" and any(isinstance(s, ast.Return) and norm(s.value) == "self.scoreboard.size" for s in first.body)
    ctx.ob("R17.2", f"{ps.qual}: uses the slot table's own size when it exists", ps, ok,
           "the int()+1 estimate below is only used before the table exists" if ok else "Project.scoreboardSize no longer prefers the table's size",
           key="R17.2|Project.scoreboardSize|prefer table")
    # ---------------------------------------------------------------- R17.3 sentinel
    pm = PX.load(os.path.join(repo.root, "scriptplan/_cython/scoreboard_cy.pyx"))
    for label, fnode, where in (("Scoreboard.collectIntervals", ci.node, (ci, None)),
                                ("collect_intervals_fast", pm.functions["collect_intervals_fast"].node, "scriptplan/_cython/scoreboard_cy.pyx:1")):
        for v, lit, test in _sentinels(fnode):
            # values assigned under the "unset" test
            assigned = [a_ for i in ast.walk(fnode) if isinstance(i, ast.If) and norm(i.test) == norm(test)
                        for a_ in i.body if isinstance(a_, ast.Assign) and norm(a_.targets[0]) == v]
            # domain of the assigned value: loop cursor starting at a clamp `if x < 0: x = 0` -> contains 0, never negative
            nonneg = any(isinstance(i, ast.If) and isinstance(i.test, ast.Compare) and isinstance(i.test.ops[0], ast.Lt)
                         and isinstance(i.test.comparators[0], ast.Constant) and i.test.comparators[0].value == 0 for i in ast.walk(fnode)) \
                or label == "collect_intervals_fast"
            collides = isinstance(lit, (int, float)) and lit >= 0 and nonneg and bool(assigned)
            ctx.ob("R17.3", f"{label}: sentinel {v} = {lit}, 'unset' test {norm(test)}", where if not isinstance(where, tuple) else (ci, test), not collides,
                   f"sentinel {lit} lies outside the slot range [0, size-1]" if not collides else
                   f"{v} uses {lit} as 'no run open' but receives slot indices from a cursor that starts at 0: a run starting at slot {lit} is mistaken for 'unset'",
                   key=f"R17.3|{label}|{v}")
    # ---------------------------------------------------------------- R17.4 pair agreement (conversion functions)
    pairs = 0
    for rel, pyx_rel in (("scriptplan/scheduler/scoreboard.py", "scriptplan/_cython/scoreboard_cy.pyx"),
                         ("scriptplan/core/project.py", "scriptplan/_cython/time_utils_cy.pyx")):
        mod = repo.module(rel)
        names, trynode, imp = c13.guarded_import(mod)
        pmod = PX.load(os.path.join(repo.root, pyx_rel))
        for fn in sorted((f for f in repo.all_funcs() if f.module is mod), key=lambda f: f.lineno):
            for c in own_nodes(fn):
                if isinstance(c, ast.Call) and isinstance(c.func, ast.Name) and c.func.id in (names or []) and c.func.id in pmod.functions:
                    guard = next((p_ for p_ in _ancestors(c) if isinstance(p_, ast.If) and norm(p_.test) == "_USE_CYTHON"), None)
                    if guard is None:
                        continue
                    lem = P.Lemmas(enabled=("L2",) if fn.qual == "Scoreboard.collectIntervals" else ())
                    try:
                        ft, bt = c13._tables(fn, guard, c, pmod.functions[c.func.id], lem)
                        eq, detail = P.compare_tables(ft, bt)
                    except Inconclusive as e:
                        raise Inconclusive(f"{fn.qual} <-> {c.func.id}: {e}")
                    pairs += 1
                    ctx.ob("R17.4", f"{fn.qual} <-> {c.func.id}", (fn, c), eq,
                           (detail if isinstance(detail, str) else "") if eq else "compiled and Python conversion differ: " + P.describe_diff(detail),
                           key=f"R17.4|{fn.qual}|{c.func.id}")
    ctx.stats["pairs"] = pairs
    # ---------------------------------------------------------------- R17.5 interval scan
    checks = {
        "startIdx < 0": ("startIdx", "0"), "endIdx > self.size - 1": ("endIdx", "self.size - 1"),
        "start < sIdx": ("start", "sIdx"), "current_idx > eIdx": ("current_idx", "eIdx"),
    }
    found = {}
    for i in own_nodes(ci):
        if isinstance(i, ast.If) and norm(i.test) in checks and len(i.body) == 1 and isinstance(i.body[0], ast.Assign):
            v, val = checks[norm(i.test)]
            ok = norm(i.body[0].targets[0]) == v and norm(i.body[0].value) == val
            found[norm(i.test)] = ok
            ctx.ob("R17.5", f"{ci.qual}: if {norm(i.test)}: {norm(i.body[0])}", (ci, i), ok, "clamp / clip to the window" if ok else
                   "clamp assigns the wrong bound", key=f"R17.5|collectIntervals|{norm(i.test)}")
    if set(found) != set(checks):
        raise AnchorMissing(f"collectIntervals clamps found {sorted(found)}")
    wid = [x for x in own_nodes(ci) if isinstance(x, ast.AugAssign) and norm(x.value) == "minDurationSlots"]
    ok = {(norm(x.target), type(x.op).__name__) for x in wid} == {("startIdx", "Sub"), ("endIdx", "Add")}
    ctx.ob("R17.5", f"{ci.qual}: scan window widened by the minimum duration on both sides", ci, ok, "startIdx -= min, endIdx += min" if ok else
           "scan window is not widened symmetrically", key="R17.5|collectIntervals|widen")
    for i in own_nodes(ci):
        if isinstance(i, ast.If) and isinstance(i.test, ast.Compare) and norm(i.test.left) == "duration" and "minDurationSlots" in norm(i.test):
            tab = order_table(i.test, lambda e: norm(e) == "duration", lambda e: norm(e) == "minDurationSlots")
            ok = tab == {"<": False, "=": True, ">": True}
            ctx.ob("R17.5", f"{ci.qual}: run kept iff {norm(i.test)}", (ci, i), ok, "runs of at least the minimum length are reported" if ok else
                   f"minimum-length test has the wrong shape ({tab})", key="R17.5|collectIntervals|min length")
    # a slot that does not match closes the open run on EVERY path: from the non-matching branch of the predicate test the
    # loop step is reached only through `duration = 0` and `start = <sentinel>`, or along the edge where no run is open
    gci = cfg_of(ci)
    wl = [w for w in own_nodes(ci) if isinstance(w, ast.While)]
    if len(wl) != 1:
        raise AnchorMissing(f"collectIntervals: {len(wl)} while loops")
    ptest = [i for i in wl[0].body if isinstance(i, ast.If) and "predicate(" in norm(i.test)]
    step = [x for x in wl[0].body if isinstance(x, ast.AugAssign) and norm(x.target) == "idx"]
    if len(ptest) != 1 or len(step) != 1 or not ptest[0].orelse:
        raise AnchorMissing("collectIntervals: predicate test / loop step not found")
    pn, sn = gci.node_of(ptest[0]), gci.node_of(step[0])
    for var, what in (("duration", "run length"), ("start", "run start")):
        def resets(n, var=var):
            return n.ast is not None and isinstance(n.ast, ast.Assign) and norm(n.ast.targets[0]) == var and isinstance(
                n.ast.value, (ast.Constant, ast.UnaryOp))
        seen_, todo, leak = set(), [], None
        for (b, l) in gci.succ[pn.id]:
            if l == "F":
                todo.append(b)
        if not todo:
            raise AnchorMissing("collectIntervals: false edge of the predicate test not found")
        while todo:
            a = todo.pop()
            if a in seen_:
                continue
            seen_.add(a)
            na = gci.nodes[a]
            if a == sn.id:
                leak = na
                break
            if resets(na):
                continue
            for (b, l) in gci.succ[a]:
                if l in ("exc", "excb"):
                    continue
                # the edge on which no run is open needs no reset
                tst = na.ast.test if isinstance(na.ast, ast.If) else na.ast
                if na.kind == "if" and isinstance(tst, ast.Compare):
                    tab = order_table(tst, lambda e: norm(e) == "duration", lambda e: isinstance(e, ast.Constant) and e.value == 0)
                    if tab == {"<": False, "=": False, ">": True} and l == "F":
                        continue
                todo.append(b)
        ctx.ob("R17.5", f"{ci.qual}: a non-matching slot resets the {what} on every path", (ci, ptest[0]), leak is None,
               f"{var} is reset before the next slot is examined unless no run is open" if leak is None else
               f"a path from the non-matching branch reaches the loop step without resetting {var}: a run that is too short is not "
               "discarded and leaks into the next run (one interval is reported across the gap)",
               key=f"R17.5|collectIntervals|reset {var}")
    # an interval is reported only if something of the run is left after clipping it to the query window
    fci = facts_of(ci)
    apps = [n for n in gci.nodes if n.kind == "stmt" and n.ast is not None and any(
        isinstance(c, ast.Call) and isinstance(c.func, ast.Attribute) and c.func.attr == "append" and norm(c.func.value) == "intervals"
        for c in ast.walk(n.ast))]
    if not apps:
        raise AnchorMissing("collectIntervals: intervals.append not found")
    for n in apps:
        cl = fci.holds(n, lambda t, p: p and t.replace(" ", "") in ("start<current_idx", "current_idx>start"))
        ctx.ob("R17.5", f"{ci.qual}: {norm(n.ast)[:60]} only for a non-empty clipped run", (ci, n.ast), cl is not None,
               "reported under the fact start < end after clipping" if cl else
               "a run found in the look-back / look-ahead padding is clipped to the window and reported although nothing of it lies "
               "inside: a zero-length interval is returned",
               key="R17.5|collectIntervals|non-empty")
    slot_floor_rule(ctx, "R17.2")
    ms = [x for x in own_nodes(ci) if isinstance(x, ast.Assign) and norm(x.targets[0]) == "minDurationSlots" and "int(" in norm(x.value)]
    ok = bool(ms) and norm(ms[0].value) == "int(minDuration / self.resolution)"
    ctx.ob("R17.5", f"{ci.qual}: {norm(ms[0]) if ms else '-'}", ci, ok, "minimum duration converted to slots" if ok else
           "minimum duration is not converted with the table resolution", key="R17.5|collectIntervals|min slots")
    # the project's slot tables are (re)built from the CURRENT start, end and resolution whenever initScoreboards runs
    isb = repo.func("Project.initScoreboards")
    gi = cfg_of(isb)

    res_i = local_resolver(isb.node)

    def from_end(x):
        """the argument is the project's current end: written in place, or a local name every definition of which is"""
        if "'end'" in norm(x).replace('"', "'"):
            return True
        if isinstance(x, ast.Name):
            ds = res_i(x)
            return bool(ds) and all("'end'" in norm(d).replace('"', "'") for d in ds)
        return False

    def builds(n):
        a = n.ast
        return n.kind == "stmt" and isinstance(a, ast.Assign) and any(norm(t) == "self.scoreboard" for t in a.targets) and isinstance(a.value, ast.Call) \
            and norm(a.value.func) == "Scoreboard" and any(from_end(x) for x in a.value.args)

    def reuse_compares_end(n):
        if n.kind != "if" or n.ast is None:
            return False
        t = norm(n.ast.test if isinstance(n.ast, ast.If) else n.ast).replace('"', "'")
        return "endDate" in t and "'end'" in t
    size_user = [n for n in gi.nodes if n.ast is not None and n.kind in ("stmt", "for", "while", "if") and "scoreboardSize()" in
                 norm(n.ast.iter if isinstance(n.ast, ast.For) else (n.ast.test if isinstance(n.ast, (ast.If, ast.While)) else n.ast))]
    if not size_user or not any(builds(n) for n in gi.nodes):
        raise AnchorMissing("Project.initScoreboards: table construction / size use not found")
    ok = all(gi.all_paths_pass(gi.entry, u, lambda n: builds(n) or reuse_compares_end(n)) for u in size_user)
    ctx.ob("R17.2", f"{isb.qual}: slot tables rebuilt from the current window on every path", isb, ok,
           "Scoreboard(start, end, resolution) is constructed (or a reuse test compares the end as well) before the table is filled" if ok else
           "an existing table can be reused without comparing its end with the current project end: after the end has moved the table "
           "no longer covers [start, end]",
           key="R17.2|Project.initScoreboards|rebuilt")
    ctx.floor("R17.1", 9)
    ctx.floor("R17.2", 6)
    ctx.floor("R17.3", 2)
    ctx.floor("R17.4", 5)
    ctx.floor("R17.5", 10)


def _ancestors(n):
    p = getattr(n, "_parent", None)
    while p is not None:
        yield p
        p = getattr(p, "_parent", None)


def _sentinels(fnode):
    """(variable, literal, test expr) for `v = <literal>` ... `if v == <literal>` / `if v < 0` idioms where the
    guarded body assigns v."""
    inits = {}
    for a in ast.walk(fnode):
        if isinstance(a, ast.Assign) and isinstance(a.targets[0], ast.Name) and isinstance(a.value, (ast.Constant, ast.UnaryOp)):
            try:
                val = ast.literal_eval(a.value)
            except Exception:
                continue
            if isinstance(val, (int, float)) and not isinstance(val, bool):
                inits.setdefault(a.targets[0].id, set()).add(val)
    out = []
    for i in ast.walk(fnode):
        if isinstance(i, ast.If) and isinstance(i.test, ast.Compare) and isinstance(i.test.left, ast.Name) and i.test.left.id in inits \
                and len(i.test.ops) == 1 and isinstance(i.test.comparators[0], (ast.Constant, ast.UnaryOp)):
            v = i.test.left.id
            if any(isinstance(s, ast.Assign) and norm(s.targets[0]) == v for s in i.body) and len(inits[v]) == 1:
                try:
                    lit = ast.literal_eval(i.test.comparators[0])
                except Exception:
                    continue
                init = next(iter(inits[v]))
                if isinstance(i.test.ops[0], ast.Eq) and lit == init:
                    out.append((v, init, i.test))
                elif isinstance(i.test.ops[0], ast.Lt) and init < lit:
                    out.append((v, init, i.test))
    return out
