"""C06 — reported start and end frame exactly the booked work.

Decided:
  R06.1  the precise end inside the final slot depends on where in the slot this task's portion
         begins (recorded per-task seconds / start offset / ledger), not only on the slot start
  R06.2  `start` of an effort task is written only under a successful booking (effort gained > 0)
         while no effort was done yet, and includes the intra-slot start offset
  R06.3  milestones: start and end receive the same value on every path (scheduleSlot branch and
         the scheduleScenario pre-pass)
  R06.4  backward mode: end = time(first booked slot + 1), start = time(last visited slot + 0);
         duration tasks end at time(slot + 1) forward / time(slot + 0) backward
  R06.5  the completion test compares accumulated effort against the requested effort with >=
  R06.6  the predecessor's part of the start slot is reserved exactly when less than the offset is in use
  R06.7  a forward milestone dated by its dependency bound includes the bound's offset inside the slot
Not decided: tightness as a numeric fact.
"""
from __future__ import annotations

import ast

from ..cfg import cfg_of
from ..core import Ctx, key_of
from ..dep import data, full
from ..model import AnchorMissing, dotted, norm, own_nodes
from ..order import affine, local_resolver, order_table
from .common import branch_of, ctl_only, pattr_writes, returns

META = {
    "level": "other",
    "technique": "static analysis: dependence closure, control dependence, affine-offset and order-table rules over the date-setting code",
    "explanation": "Rule instances over the code that writes task start/end: data dependence of the precise end on the "
                   "in-slot position, control dependence of the start write on a successful first booking, value equality "
                   "of milestone start/end, affine slot offsets (+1 / +0) in backward mode. Necessary conditions; the dates "
                   "themselves are runtime values and are not decided."
                   " Also: per-direction position terms read from the slot ledger, all-paths clamp to the booked seconds, raise-only start-offset reservation with a zero default for absent ledger entries, recording of the first booked slot when the task completes in it, and milestone dates at the dependency bound in both directions."
                   " Round 3: the terminal test uses own + inherited edges (shared with C04), scenario-index discipline in the functions that write reported dates (shared with C16), whole seconds of a task with work are at least 1, process-state rule."
                   " Round 4: what is left of a slot honours the reservation on every path.",
    "assumptions": [],
}


def _is_own_test(text: str, tvar: str) -> bool:
    try:
        e = ast.parse(text, mode="eval").body
    except SyntaxError:
        return False
    if isinstance(e, ast.Compare) and len(e.ops) == 1 and isinstance(e.ops[0], (ast.Eq, ast.Is)):
        sides = {norm(e.left), norm(e.comparators[0])}
        return sides == {tvar, "self.property"}
    return False


def _is_requested_effort(e: ast.AST) -> bool:
    """`effort`, or `effort - k` with a constant k of at most half a second (in hours): within the property's rounding."""
    if norm(e) == "effort":
        return True
    if isinstance(e, ast.BinOp) and isinstance(e.op, ast.Sub) and norm(e.left) == "effort" \
            and isinstance(e.right, ast.Constant) and isinstance(e.right.value, (int, float)):
        return 0 <= e.right.value <= 0.5 / 3600.0
    return False


def completion_test_rule(ctx: Ctx, rid: str):
    """scheduleSlot: the task is complete exactly when doneEffort >= effort (shared by C06 R06.5 / C03 R03.7)."""
    slot = ctx.repo.func("TaskScenario.scheduleSlot")
    found = False
    for nd in own_nodes(slot):
        if isinstance(nd, ast.If) and isinstance(nd.test, ast.Compare) and "doneEffort" in norm(nd.test) \
                and any(isinstance(x, ast.Call) and "_calculatePreciseEndTimeAndRelease" in norm(x.func) for s in nd.body for x in ast.walk(s)):
            tab = order_table(nd.test, lambda e: norm(e) == "self.doneEffort", _is_requested_effort)
            ok = tab == {"<": False, "=": True, ">": True}
            found = True
            ctx.ob(rid, f"{slot.qual}: {norm(nd.test)}", (slot, nd), ok,
                   "task completes when doneEffort >= effort" if ok else
                   f"completion test is not doneEffort >= effort (table {tab}): the task is declared finished with less than "
                   "the requested effort, or books a further slot beyond it",
                   key=key_of(rid, slot, None, "completion"))
    if not found:
        raise AnchorMissing("completion test not found in scheduleSlot")


def milestone_bound_rule(ctx: Ctx, rid: str):
    """scheduleSlot: a forward milestone dated by its dependency bound (no pinned start) gets slot time + intra-slot offset of the
    bound (C04 R04.10 / C06 R06.7)."""
    from .common import enclosing_ifs
    slot = ctx.repo.func("TaskScenario.scheduleSlot")
    fd = ctx.dep.of(slot)
    n = 0
    for pid in ("start", "end"):
        for atoms, node, sc, tgt in pattr_writes(ctx, slot, pid):
            encl = enclosing_ifs(node.ast, slot.node)
            in_ms = branch_of(slot, node.ast, "is_milestone") == "T"
            fwd = branch_of(slot, node.ast, "forward") == "T"
            unpinned = branch_of(slot, node.ast, "start_date") == "F"
            if not (in_ms and fwd and unpinned):
                continue
            n += 1
            d = data(atoms)
            ok = {"field:slotStartOffset", "call:idxToDate", "field:currentSlotIdx"} <= d
            ctx.ob(rid, f"{slot.qual}: milestone {pid} := {norm(node.ast.value)[:40]} at the dependency bound", (slot, node.ast), ok,
                   "date = time(current slot) + offset of the bound inside the slot" if ok else
                   "a milestone dated by its dependency bound is put at the START of the slot that contains the bound: after a "
                   "predecessor ending mid-slot it is reported before the predecessor's end",
                   key=key_of(rid, slot, None, f"milestone bound {pid}"))
    if n < 2:
        raise AnchorMissing(f"scheduleSlot: milestone writes at the dependency bound found: {n}")
    # backward: the milestone sits at the bound derived in schedule() (earliest successor start minus gap / project end)
    nb = 0
    for pid in ("start", "end"):
        for atoms, node, sc, tgt in pattr_writes(ctx, slot, pid):
            encl = enclosing_ifs(node.ast, slot.node)
            in_ms = branch_of(slot, node.ast, "is_milestone") == "T"
            bwd = branch_of(slot, node.ast, "forward") == "F"
            unpinned = branch_of(slot, node.ast, "end_date") == "F"
            if not (in_ms and bwd and unpinned):
                continue
            nb += 1
            ok = "field:backwardBound" in data(atoms)
            ctx.ob(rid, f"{slot.qual}: backward milestone {pid} := {norm(node.ast.value)[:40]} at the dependency bound", (slot, node.ast), ok,
                   "date = the bound derived for the backward walk" if ok else
                   "a backward-scheduled milestone is dated at the start of the last working slot BEFORE its bound (13:00 for a successor "
                   "starting at 14:00), not at the bound",
                   key=key_of(rid, slot, None, f"backward milestone bound {pid}"))
    if nb < 2:
        raise AnchorMissing(f"scheduleSlot: backward milestone writes found: {nb}")


def precise_end_rules(ctx: Ctx, rid: str):
    """Rules over _calculatePreciseEndTimeAndRelease shared by C06 (R06.1) and C01 (R01.6)."""
    repo = ctx.repo
    prec = repo.func("TaskScenario._calculatePreciseEndTimeAndRelease")
    from .c01 import _signed_terms
    from .common import enclosing_ifs, facts_of
    fd = ctx.dep.of(prec)
    LEDGER = {"field:slotTaskUsage", "field:slotSecondsUsed"}
    n = 0
    for r in returns(prec):
        if r.value is None:
            continue
        first = r.value.elts[0] if isinstance(r.value, ast.Tuple) and r.value.elts else r.value
        n += 1
        # every slot-based assignment of the returned date, in the forward and in the backward branch
        per_branch = {"T": [], "F": []}
        for asg in [n_ for n_ in own_nodes(prec) if isinstance(n_, ast.Assign) and norm(n_.targets[0]) == norm(first)]:
            br = branch_of(prec, asg, "forward")
            if br is None or "call:idxToDate" not in data(fd.deps_of(asg.value)):
                continue
            per_branch[br].append(asg)
        for br, what in (("T", "forward end"), ("F", "backward start")):
            if not per_branch[br]:
                raise AnchorMissing(f"_calculatePreciseEndTimeAndRelease: no slot-based {what} assignment")
            for asg in per_branch[br]:
                pos_terms = 0
                for sign, term in _signed_terms(asg.value):
                    td = data(fd.deps_of(term))
                    if td & LEDGER and "param:required_effort" not in td:
                        pos_terms += 1
                ok = pos_terms > 0
                ctx.ob(rid, f"{prec.qual}: {what} {norm(asg.value)[:70]}", (prec, asg), ok,
                       "date has a term that is the in-slot position of this task's portion, read from the slot ledger" if ok else
                       "the date inside the final slot has no term that places this task's portion by what the slot ledger "
                       "(per-task seconds / slot total) recorded: a task that shares the slot gets a date measured from the "
                       "slot edge or from its dependency offset (portions of two tasks overlap / end before own start)",
                       key=key_of(rid, prec, None, f"precise_end {what}"))
                d = data(fd.deps_of(asg.value))
                ok2 = {"param:required_effort", "param:effort_before_slot", "pattr:efficiency"} <= d
                ctx.ob(rid, f"{prec.qual}: {what} depends on remaining effort and efficiency", (prec, asg), ok2,
                       "date depends on (required - done before) / efficiency" if ok2 else
                       "the date does not depend on the effort still needed in the slot and the resource efficiency",
                       key=key_of(rid, prec, None, f"effort-eff {what}"))
    if not n:
        raise AnchorMissing("no return in _calculatePreciseEndTimeAndRelease")
    # only this task's own ledger record is read
    g = cfg_of(prec)
    ffacts = facts_of(prec)
    nloops = 0
    res_p = local_resolver(prec.node)

    def over_records(it):
        """the loop walks per-task records: written in place, or through local names every definition of which is such a list"""
        if "slotTaskUsage" in norm(it):
            return True
        roots = [x for x in ast.walk(it) if isinstance(x, ast.Name) and x.id not in ("enumerate", "list", "reversed")]
        return bool(roots) and any(res_p(r) and all("slotTaskUsage" in norm(d) for d in res_p(r)) for r in roots)
    for lp in [x for x in own_nodes(prec) if isinstance(x, ast.For) and over_records(x.iter)]:
        tgt = lp.target
        if isinstance(tgt, ast.Call):
            continue
        if isinstance(lp.iter, ast.Call) and dotted(lp.iter.func) == "enumerate" and isinstance(tgt, ast.Tuple) and len(tgt.elts) == 2:
            tgt = tgt.elts[1]
        if not (isinstance(tgt, ast.Tuple) and len(tgt.elts) == 2 and all(isinstance(e, ast.Name) for e in tgt.elts)):
            raise AnchorMissing(f"per-task record loop with unrecognised target {norm(lp.target)}")
        tvar, svar = tgt.elts[0].id, tgt.elts[1].id
        nloops += 1
        for st in [x for b in lp.body for x in ast.walk(b) if isinstance(x, ast.stmt)]:
            uses = any(isinstance(x, ast.Name) and x.id == svar and isinstance(x.ctx, ast.Load)
                       for x in (ast.walk(st.value) if isinstance(st, (ast.Assign, ast.AugAssign)) else []))
            if not uses:
                continue
            node = g.node_of(st)
            own = node is not None and ffacts.holds(node, lambda t, p: p and _is_own_test(t, tvar)) is not None
            is_lookup = isinstance(st, ast.Assign) and all(isinstance(t_, ast.Name) for t_ in st.targets)
            if own and is_lookup:
                # ... whatever the task did before this slot: the lookup is not conditional on the call's parameters
                # (a ledger update in a release loop is, rightly, conditional on something being left over)
                cparams = sorted(a for a in {x.lstrip("~") for x in fd.ctl_atoms(node)} if a.startswith("param:") and a not in ("param:self", "param:cls"))
                if cparams:
                    ctx.ob(rid, f"{prec.qual}: record read {norm(st)[:50]} is unconditional", (prec, st), False,
                           f"the task's own ledger record is consulted only under a condition on {cparams}: in the other case the task is "
                           "assumed to have booked the whole slot, so the release hands back seconds another task holds",
                           key=key_of(rid, prec, st, "own-record unconditional"))
            ctx.ob(rid, f"{prec.qual}: record read {norm(st)[:60]}", (prec, st), own,
                   "the seconds of a ledger record are read only for this task's own entry" if own else
                   "seconds recorded for OTHER tasks in the slot flow into this task's dates: entries of tasks that booked the "
                   "slot later (released tail) are counted as taken before it",
                   key=key_of(rid, prec, st, "own-record"))
    if not nloops:
        raise AnchorMissing("_calculatePreciseEndTimeAndRelease: no loop over the per-task slot records")
    # the seconds used in the final slot never exceed the seconds booked there: every use of `seconds_into_slot` in the
    # date and in the release is reached only through the clamp min(seconds_into_slot, booked_seconds)
    var = "seconds_into_slot"
    defs = [n_ for n_ in g.nodes if n_.kind == "stmt" and isinstance(n_.ast, ast.Assign) and norm(n_.ast.targets[0]) == var]
    clamps = [n_ for n_ in defs if isinstance(n_.ast.value, ast.Call) and norm(n_.ast.value.func) == "min"
              and any("booked" in norm(a_) for a_ in n_.ast.value.args) and any(norm(a_) == var for a_ in n_.ast.value.args)]
    uses = [n_ for n_ in g.nodes if n_.ast is not None and n_ not in defs and any(
        isinstance(x, ast.Name) and x.id == var and isinstance(x.ctx, ast.Load)
        for x in ast.walk(n_.ast.test if isinstance(n_.ast, (ast.If, ast.While)) else n_.ast)
        if not isinstance(n_.ast, (ast.For, ast.With, ast.Try, ast.FunctionDef)))]
    if not defs or not uses:
        raise AnchorMissing("_calculatePreciseEndTimeAndRelease: seconds_into_slot definitions / uses not found")
    ok = bool(clamps) and all(g.all_paths_pass(d_, u_, lambda n_: n_ in clamps) for d_ in defs if d_ not in clamps for u_ in uses)
    ctx.ob(rid, f"{prec.qual}: seconds used in the final slot are clamped to the seconds booked ({len(uses)} uses)", prec, ok,
           "every use is reached through min(seconds_into_slot, booked_seconds)" if ok else
           "the seconds the task needs in its final slot are used unclamped: when the credited effort and the precise end use "
           "different rates (team with different efficiencies) the end lies beyond the last booked slot",
           key=key_of(rid, prec, None, "clamp to booked"))


def release_rules(ctx: Ctx, rid: str):
    """The unused part of the final slot is handed back in both scheduling directions (C03 R03.9, C01 R01.7)."""
    from .common import heap_writes
    prec = ctx.repo.func("TaskScenario._calculatePreciseEndTimeAndRelease")
    fd = ctx.dep.of(prec)
    n = 0
    for field in ("slotSecondsUsed", "slotTaskUsage"):
        for atoms, node, tgt in heap_writes(ctx, prec, field):
            n += 1
            c = {x.lstrip("~") for x in fd.ctl_atoms(node)}
            bad = "param:forward" in c
            ctx.ob(rid, f"{prec.qual}: release write {norm(tgt)[:50]} in both directions", (prec, node.ast), not bad,
                   "the trim of the final-slot booking does not depend on the scheduling direction" if not bad else
                   "the final-slot booking is trimmed only in one scheduling direction: a backward-scheduled task keeps the whole slot, "
                   "so the time booked for it exceeds its effort",
                   key=key_of(rid, prec, None, f"release {field} direction"))
    if n < 2:
        raise AnchorMissing(f"_calculatePreciseEndTimeAndRelease: {n} release writes found")
    # the trim reaches every member of a team, not only the resource that was booked last
    team = [1 for atoms, node, tgt in heap_writes(ctx, prec, "slotSecondsUsed") if {"field:_selectedResources", "str:_selectedResources"} & full(atoms)]
    ctx.ob(rid, f"{prec.qual}: release covers the whole team ({len(team)} write(s) reached from the selected resources)", prec, bool(team),
           "each selected resource hands back the tail of the final slot" if team else
           "only the resource booked last is trimmed in the final slot: the other team members keep the whole slot, so the members of a "
           "team are not booked for the same instants",
           key=key_of(rid, prec, None, "release whole team"))



def positive_length_rule(ctx: Ctx, rid: str):
    """A task with work never has zero length: the whole seconds by which the precise end (forward) / start (backward) is set off
    from the beginning of the task's portion of its final slot are at least 1 -- the rounding is `max(1, ...)` or a ceiling, not a
    plain round() that turns a fraction of a second into 0."""
    fn = ctx.repo.func("TaskScenario._calculatePreciseEndTimeAndRelease")
    res = local_resolver(fn.node)
    used = set()
    for a in own_nodes(fn):
        if isinstance(a, ast.Assign) and norm(a.targets[0]) == "precise_end":
            for c in ast.walk(a.value):
                if isinstance(c, ast.Call) and norm(c.func).endswith("timedelta"):
                    for kw in c.keywords:
                        if kw.arg == "seconds" and isinstance(kw.value, ast.Name):
                            used.add(kw.value.id)
    rounded = []
    for nm in sorted(used):
        for v in res(ast.Name(id=nm, ctx=ast.Load())):
            if any(isinstance(c, ast.Call) and norm(c.func).split(".")[-1] in ("round", "ceil", "int", "floor") for c in ast.walk(v)):
                rounded.append((nm, v))
    if not rounded:
        raise AnchorMissing("_calculatePreciseEndTimeAndRelease: rounding of the seconds used in the final slot not found")
    for nm, v in rounded:
        def at_least_one(e):
            if isinstance(e, ast.Call) and norm(e.func) == "max" and any(isinstance(a, ast.Constant) and isinstance(a.value, (int, float)) and a.value >= 1 for a in e.args):
                return True
            if isinstance(e, ast.Call) and norm(e.func).split(".")[-1] == "ceil":
                return True
            if isinstance(e, ast.IfExp):
                return at_least_one(e.body) and (at_least_one(e.orelse) or (isinstance(e.orelse, ast.Constant) and e.orelse.value == 0
                                                                             and any(k in norm(e.test) for k in ("> 0", "!= 0"))))
            return False
        ok = at_least_one(v)
        ctx.ob(rid, f"{fn.qual}: {nm} = {norm(v)[:60]}", (fn, v), ok,
               "a fraction of a second of work still gives the task a length of one second" if ok else
               f"{norm(v)[:40]} is 0 for work that takes less than half a second of the final slot: the task is reported with start = end "
               "although time is booked for it",
               key=key_of(rid, fn, None, f"rounding of {nm}"))


def run_extra(ctx: Ctx):
    # ---------------------------------------------------------------- R06.13 the slot of a bound is its floor: a bound in the second half of a slot must
    # not be taken for the next slot (the in-slot offset is then dropped and the milestone / start moves to the slot boundary) (= C17 R17.2)
    from .c17 import slot_floor_rule
    slot_floor_rule(ctx, "R06.13")
    # ---------------------------------------------------------------- R06.12 what is left of a slot takes the head set aside for a mid-slot
    # start into account on every path: otherwise the task books seconds that lie before its reported start (= C01 R01.2)
    from .c01 import remaining_seconds_rule
    remaining_seconds_rule(ctx, "R06.12")
    # ---------------------------------------------------------------- R06.8 answers never come from state that outlives the question
    from .common import process_state_rule
    process_state_rule(ctx, "R06.8", [ctx.repo.func("Project.schedule")],
                       "a reported start or end is computed from another task's or run's record")


def run(ctx: Ctx):
    repo = ctx.repo
    ts_sched = repo.func("TaskScenario.schedule")
    slot = repo.func("TaskScenario.scheduleSlot")
    book_rs = repo.func("TaskScenario.bookResources")
    prec = repo.func("TaskScenario._calculatePreciseEndTimeAndRelease")
    sscen = repo.func("Project.scheduleScenario")

    # ---------------------------------------------------------------- R06.1
    precise_end_rules(ctx, "R06.1")

    # ---------------------------------------------------------------- R06.2
    ws = pattr_writes(ctx, book_rs, "start")
    for atoms, node, sc, tgt in ws:
        c = ctl_only(atoms)
        ok = "call:bookResource" in c and "field:doneEffort" in c
        ctx.ob("R06.2", f"{book_rs.qual}: {norm(node.ast)[:60]}", (book_rs, node.ast), ok,
               "start is written only under a successful booking while doneEffort == 0" if ok else
               "the start date write is not control dependent on a successful booking and on 'no effort done yet'",
               key=key_of("R06.2", book_rs, node.ast))
        d = full(atoms)
        ok = "field:slotStartOffset" in d and "call:idxToDate" in d and "field:currentSlotIdx" in d
        ctx.ob("R06.2", f"{book_rs.qual}: start value", (book_rs, node.ast), ok,
               "start = time(current slot) + intra-slot offset" if ok else
               "start value does not combine the current slot's time with the intra-slot start offset",
               key=key_of("R06.2", book_rs, node.ast, "value"))
    # the guard really tests gained effort > 0
    gt = False
    for nd in own_nodes(book_rs):
        if isinstance(nd, ast.If) and isinstance(nd.test, ast.Compare):
            tab = order_table(nd.test, lambda e: isinstance(e, ast.Name) and any(
                isinstance(v, ast.Call) and (dotted(v.func) or "").endswith("bookResource") for v in local_resolver(book_rs.node)(e)),
                lambda e: isinstance(e, ast.Constant) and e.value == 0)
            if tab == {"<": False, "=": False, ">": True}:
                gt = True
    ctx.ob("R06.2", f"{book_rs.qual}: booking counted only when effort gained > 0", book_rs, gt,
           "a booking counts when bookResource() returned > 0" if gt else
           "no branch accepts a booking exactly when the effort gained is positive",
           key="R06.2|TaskScenario.bookResources|gained>0")

    # ---------------------------------------------------------------- R06.3 milestones
    def milestone_blocks(fn, is_ms_test):
        blocks = []
        for nd in own_nodes(fn):
            if isinstance(nd, ast.If) and is_ms_test(nd.test):
                # innermost statement lists inside the branch
                def leaves(stmts):
                    has_inner = False
                    for s in stmts:
                        if isinstance(s, ast.If):
                            has_inner = True
                            leaves(s.body)
                            if s.orelse:
                                leaves(s.orelse)
                    direct = [s for s in stmts if not isinstance(s, ast.If)]
                    if direct:
                        blocks.append(direct)
                leaves(nd.body)
        return blocks

    def wr(stmts):
        out = {}
        for s in stmts:
            if isinstance(s, ast.Assign):
                for t in s.targets:
                    if isinstance(t, ast.Subscript) and isinstance(t.slice, ast.Tuple) and t.slice.elts \
                            and isinstance(t.slice.elts[0], ast.Constant) and t.slice.elts[0].value in ("start", "end"):
                        out[t.slice.elts[0].value] = s
        return out

    fds = ctx.dep.of(slot)
    cnt = 0
    for blk in milestone_blocks(slot, lambda t: norm(t) == "is_milestone"):
        w = wr(blk)
        if not w:
            continue
        cnt += 1
        if "start" in w and "end" in w:
            ok = norm(w["start"].value) == norm(w["end"].value)
            ctx.ob("R06.3", f"{slot.qual}: milestone start/end := {norm(w['start'].value)} / {norm(w['end'].value)}",
                   (slot, w["start"]), ok, "same value written to start and end" if ok else
                   "milestone branch writes different values to start and end", key=key_of("R06.3", slot, w["start"]))
        else:
            k, s = next(iter(w.items()))
            other = "start" if k == "end" else "end"
            d = data(fds.deps_of(s.value))
            ok = f"pattr:{other}" in d
            ctx.ob("R06.3", f"{slot.qual}: milestone {k} := {norm(s.value)}", (slot, s), ok,
                   f"{k} receives the existing {other}" if ok else f"milestone {k} is not set to the existing {other}",
                   key=key_of("R06.3", slot, s))
    if cnt < 4:
        raise AnchorMissing(f"scheduleSlot milestone branch: {cnt} writing blocks found, expected 4")
    fdp = ctx.dep.of(sscen)
    cnt = 0
    # every write of a start / end date in scheduleScenario (the pre-pass over dated milestones, whatever its nesting): the missing
    # date receives the pinned one, and the write is control dependent on the milestone test
    for k in ("start", "end"):
        other = "start" if k == "end" else "end"
        for atoms, node, sc, tgt in pattr_writes(ctx, sscen, k):
            st = node.ast
            if not isinstance(st, ast.Assign):
                continue
            d = data(fdp.deps_of(st.value))
            ctl = {a.lstrip("~") for a in fdp.ctl_atoms(node)}
            ok = f"pattr:{other}" in d and f"pattr:{k}" not in d and "pattr:milestone" in ctl
            cnt += 1
            ctx.ob("R06.3", f"{sscen.qual}: pre-pass {k} := {norm(st.value)}", (sscen, st), ok,
                   f"{k} receives the pinned {other}" if ok else f"milestone pre-pass sets {k} to something other than the pinned {other}",
                   key=key_of("R06.3", sscen, st))
    if cnt < 2:
        raise AnchorMissing("scheduleScenario milestone pre-pass writes not found")

    # ---------------------------------------------------------------- R06.4 backward offsets
    res = local_resolver(ts_sched.node)
    g = cfg_of(ts_sched)

    def branch_of_forward(node_ast):
        """'F' if the statement sits in the else-branch of `if forward:` (backward mode)."""
        from .common import branch_of
        return branch_of(ts_sched, node_ast, "forward")

    seen = {"start": 0, "end": 0}
    for pid, want in (("end", 1), ("start", 0)):
        for atoms, node, sc, tgt in pattr_writes(ctx, ts_sched, pid):
            if branch_of_forward(node.ast) != "F":
                continue
            val = node.ast.value
            # resolve to the idxToDate(...) call
            cands = [val] if not isinstance(val, ast.Name) else res(val)
            for v in cands:
                if isinstance(v, ast.Call) and (dotted(v.func) or "").endswith("idxToDate") and v.args:
                    roots = ("first_booked_slot", "start_slot_idx", "end_slot") if pid == "end" else ("self.currentSlotIdx",)
                    a = affine(v.args[0], lambda e: norm(e) in roots, res)
                    ok = a is not None and a[1] == want
                    seen[pid] += 1
                    ctx.ob("R06.4", f"{ts_sched.qual}: backward {pid} := {norm(v)}", (ts_sched, node.ast), ok,
                           f"{pid} = time({a[0]} + {a[1]})" if ok else
                           f"backward-mode {pid} is not time(slot + {want}) (found {a})",
                           key=key_of("R06.4", ts_sched, None, f"backward {pid}"))
    if not (seen["start"] and seen["end"]):
        raise AnchorMissing("backward-mode start/end writes not found in TaskScenario.schedule")
    # duration tasks
    for c in ast.walk(slot.node):
        if isinstance(c, ast.Call) and (dotted(c.func) or "").endswith("idxToDate") and c.args \
                and isinstance(c.args[0], ast.BinOp) and isinstance(c.args[0].right, ast.IfExp):
            ie = c.args[0].right
            ok = norm(ie.test) == "forward" and isinstance(ie.body, ast.Constant) and ie.body.value == 1 \
                and isinstance(ie.orelse, ast.Constant) and ie.orelse.value == 0 and isinstance(c.args[0].op, ast.Add)
            ctx.ob("R06.4", f"{slot.qual}: duration end {norm(c)}", (slot, c), ok,
                   "duration task ends at time(slot + 1) forward / time(slot) backward" if ok else
                   "duration task end offset is not +1 forward / +0 backward", key=key_of("R06.4", slot, None, "duration end"))

    # the slot of the first booking is known also when the task completes in that very slot: the walk loop is left (scheduleSlot()
    # returns False) before its body can record it, so a recording after the loop is needed
    from .common import slot_walks
    walk = slot_walks(ts_sched)
    if len(walk) != 1:
        raise AnchorMissing("TaskScenario.schedule: slot walk not found")
    in_loop = [n for n in ast.walk(walk[0]) if isinstance(n, ast.Assign) and norm(n.targets[0]) == "first_booked_slot"]
    after = [n for n in own_nodes(ts_sched) if isinstance(n, ast.Assign) and norm(n.targets[0]) == "first_booked_slot"
             and n.lineno > walk[0].end_lineno and norm(n.value) == "self.currentSlotIdx"]
    from .common import enclosing_ifs as _ei
    guarded = [n for n in after if any("first_booked_slot is None" in norm(i.test) and "doneEffort" in norm(i.test) and b == "T"
                                       for (i, b) in _ei(n, ts_sched.node))]
    ok = bool(in_loop) and bool(guarded)
    if not ok and in_loop and isinstance(walk[0].test, ast.Constant):
        # `while True:` form: the recording runs after every call of scheduleSlot(), the last one included, when it sits between
        # the call and the `if not <answer>: break` at the top level of the body, under the same "something was booked" test
        body = walk[0].body
        call_i = next((i for i, st in enumerate(body) if isinstance(st, (ast.Assign, ast.AnnAssign)) and "scheduleSlot" in norm(st.value)), None)
        brk_i = next((i for i, st in enumerate(body) if isinstance(st, ast.If) and any(isinstance(b, ast.Break) for b in st.body)), None)
        rec_i = [i for i, st in enumerate(body) if isinstance(st, ast.If) and "first_booked_slot is None" in norm(st.test) and "doneEffort" in norm(st.test)
                 and any(n in in_loop for n in ast.walk(st))]
        if call_i is not None and brk_i is not None and rec_i and all(call_i < i < brk_i for i in rec_i):
            ok = True
            guarded = [body[i] for i in rec_i]
    ctx.ob("R06.4", f"{ts_sched.qual}: first booked slot recorded in the loop ({len(in_loop)}) and after it ({len(guarded)})", (ts_sched, walk[0]), ok,
           "a task that completes in the slot of its first booking still ends in that slot" if ok else
           "the slot of the first booking is recorded only inside the walk loop: a backward task that completes in that very slot gets its "
           "end from the slot of the deadline, so its reported end lies beyond the last slot it worked in",
           key="R06.4|TaskScenario.schedule|first booking recorded")
    # ---------------------------------------------------------------- R06.5 completion test
    completion_test_rule(ctx, "R06.5")
    # ---------------------------------------------------------------- R06.6 start-offset reservation (shared with C01 R01.4)
    from .c01 import offset_reservation_rule
    offset_reservation_rule(ctx, "R06.6")
    ctx.floor("R06.6", 1)
    milestone_bound_rule(ctx, "R06.7")
    # ---------------------------------------------------------------- R06.9 which backward tasks are terminal (and so are pinned to the
    # container end, milestones included) is decided over own + inherited edges (= C04 R04.1)
    from .c04 import edge_set_rule
    edge_set_rule(ctx, "R06.9", only={"Project._propagateContainerEndDates"})
    # ---------------------------------------------------------------- R06.10 the dates a task is framed by are read for the scenario
    # being scheduled (= C16 R16.1, restricted to the functions that write reported dates)
    positive_length_rule(ctx, "R06.11")
    from .c16 import scenario_index_rule
    scenario_index_rule(ctx, "R06.10", only={"Project.scheduleScenario", "TaskScenario.schedule", "TaskScenario.scheduleSlot",
                                             "TaskScenario._calculatePreciseEndTimeAndRelease", "TaskScenario.scheduleContainer"})
    ctx.floor("R06.7", 4)
    ctx.floor("R06.1", 6)
    ctx.floor("R06.2", 3)
    ctx.floor("R06.3", 6)
    ctx.floor("R06.4", 3)
