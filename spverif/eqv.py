"""EQV — shift-equivariance typing for calendar code (property C14, reused by C08).

Question decided: if every absolute date of the project moves by the same whole number of weeks,
does this function take the same decisions and produce dates moved by that amount?

Abstract values
    INV    unchanged by the shift (indices, durations, weekday, hour/minute, booleans of those)
    EQUI   an absolute instant/date: moves by the shift
    NON    definitely neither (ISO year / week number, .year/.month/.day, replace(month|day|year),
           relativedelta(months|years), comparison of an instant with a constant)
    TOP    not typed (no information).  TOP never raises an alarm: only an explicit NON source that
           reaches a decision, an index or a result does.

Rule: every branch condition, every subscript index and every returned value in the scoped
functions must not be NON.  By induction over the scheduler's steps a run in which all decisions
are INV takes the same decisions after the shift, and EQUI results move with it.
"""
from __future__ import annotations

import ast
from typing import Optional

from .model import Func, dotted, norm, own_nodes

INV, EQUI, NON, TOP, DELTA = "INV", "EQUI", "NON", "TOP", "DELTA"

EQUI_ATTRS = {"interval_start", "interval_end", "startDate", "endDate"}
EQUI_NAMES = {"date", "dt", "start_date", "end_date", "slot_datetime", "slot_date", "dep_time", "earliest_start",
              "latest_end", "min_end_date", "succ_start", "pred_start", "precise_end", "slot_start", "slot_end",
              "start", "end", "utc_dt"}
INV_NAMES = {"index", "idx", "sb_idx", "slot_idx", "sbIdx", "granularity", "resolution", "size", "weekday", "hour",
             "slot_minutes", "period", "amount", "total_days_needed"}
TIME_INV_ATTRS = {"hour", "minute", "second", "microsecond"}
NON_ATTRS = {"year", "month", "day"}
PATTR_EQUI = {"start", "end", "minstart", "maxstart", "minend", "maxend", "now"}


class Finding:
    def __init__(self, node, origin, kind):
        self.node = node          # decision / index / return that is NON
        self.origin = origin      # sub-expression that introduced NON
        self.kind = kind


class Eqv:
    def __init__(self, fn: Func, utc_premise: bool = True):
        self.fn = fn
        self.env: dict = {}
        self.origin: dict = {}     # id(expr) -> ast node that introduced NON
        self.utc = utc_premise
        self._infer()

    # ------------------------------------------------------------------ typing
    def _join(self, a, b):
        if a == b:
            return a
        if a == TOP:
            return b
        if b == TOP:
            return a
        if NON in (a, b):
            return NON
        return TOP

    def _mark(self, e, src):
        self.origin[id(e)] = self.origin.get(id(src), src)
        return NON

    def ty(self, e: ast.AST) -> str:
        if e is None:
            return TOP
        if isinstance(e, ast.Constant):
            return INV
        if isinstance(e, ast.Name):
            if e.id in self.env:
                t = self.env[e.id]
                if t == NON and id(e) not in self.origin:
                    self.origin[id(e)] = self._name_origin.get(e.id, e)
                return t
            if e.id in EQUI_NAMES and e.id in self.fn.params:
                return EQUI
            if e.id in INV_NAMES:
                return INV
            return TOP
        if isinstance(e, ast.Attribute):
            if e.attr in EQUI_ATTRS:
                return EQUI
            bt = self.ty(e.value)
            if e.attr in ("start", "end") and isinstance(e.value, ast.Attribute) and e.value.attr == "interval":
                return EQUI
            if bt == EQUI:
                if e.attr in TIME_INV_ATTRS:
                    return INV
                if e.attr in NON_ATTRS:
                    return self._mark(e, e)
            if bt == DELTA and e.attr in ("days", "seconds", "microseconds"):
                return INV
            if bt == NON:
                return self._mark(e, e.value)
            if e.attr in ("slot_duration", "period", "resolution", "size", "value"):
                return INV
            return TOP
        if isinstance(e, ast.Subscript):
            # project["start"] / attributes["end"] / node.get handled in Call
            s = e.slice
            key = s.value if isinstance(s, ast.Constant) else (s.elts[0].value if isinstance(s, ast.Tuple) and s.elts and isinstance(s.elts[0], ast.Constant) else None)
            if key in PATTR_EQUI:
                return EQUI
            bt = self.ty(e.value)
            if bt == NON:
                # element of an isocalendar() tuple etc.
                return self._mark(e, e.value)
            st = self.ty(s)
            if st == NON:
                return self._mark(e, s)
            return TOP
        if isinstance(e, ast.Call):
            return self._call(e)
        if isinstance(e, ast.BinOp):
            a, b = self.ty(e.left), self.ty(e.right)
            if NON in (a, b):
                return self._mark(e, e.left if a == NON else e.right)
            if isinstance(e.op, ast.Sub):
                if a == EQUI and b == EQUI:
                    return DELTA
                if a == EQUI and b in (DELTA, TOP):
                    return EQUI if b == DELTA else TOP
                if a == DELTA and b == DELTA:
                    return DELTA
                if a == EQUI and b == INV:
                    return self._mark(e, e)      # instant minus a number
            if isinstance(e.op, ast.Add):
                if (a == EQUI and b == DELTA) or (a == DELTA and b == EQUI):
                    return EQUI
                if a == EQUI and b == EQUI:
                    return self._mark(e, e)
                if a == DELTA and b == DELTA:
                    return DELTA
            if a in (INV, DELTA) and b in (INV, DELTA):
                return INV if (a == INV and b == INV) else (DELTA if isinstance(e.op, (ast.Mult, ast.Div, ast.FloorDiv)) and INV in (a, b) else INV)
            return TOP
        if isinstance(e, ast.UnaryOp):
            t = self.ty(e.operand)
            return t if t != NON else self._mark(e, e.operand)
        if isinstance(e, ast.Compare):
            ts = [self.ty(e.left)] + [self.ty(c) for c in e.comparators]
            if NON in ts:
                src = ([e.left] + list(e.comparators))[ts.index(NON)]
                return self._mark(e, src)
            if EQUI in ts and INV in ts and not all(isinstance(o, (ast.Is, ast.IsNot)) for o in e.ops):
                # instant compared with a constant: only None-tests are fine
                consts = [c for c, t in zip([e.left] + list(e.comparators), ts) if t == INV]
                if any(not (isinstance(c, ast.Constant) and c.value is None) for c in consts):
                    return self._mark(e, e)
            return INV if all(t in (INV, EQUI, DELTA) for t in ts) else TOP
        if isinstance(e, ast.BoolOp):
            ts = [self.ty(v) for v in e.values]
            if NON in ts:
                return self._mark(e, e.values[ts.index(NON)])
            return INV if all(t == INV for t in ts) else TOP
        if isinstance(e, ast.IfExp):
            tt = self.ty(e.test)
            if tt == NON:
                return self._mark(e, e.test)
            return self._join(self.ty(e.body), self.ty(e.orelse))
        if isinstance(e, (ast.Tuple, ast.List)):
            ts = [self.ty(x) for x in e.elts]
            if NON in ts:
                return self._mark(e, e.elts[ts.index(NON)])
            return TOP
        return TOP

    def _call(self, e: ast.Call) -> str:
        d = dotted(e.func) or ""
        last = d.split(".")[-1]
        recv_t = self.ty(e.func.value) if isinstance(e.func, ast.Attribute) else TOP
        args_t = [self.ty(a) for a in e.args] + [self.ty(k.value) for k in e.keywords]
        if last == "get" and e.args and isinstance(e.args[0], ast.Constant) and e.args[0].value in PATTR_EQUI \
                and isinstance(e.func, ast.Attribute):
            return EQUI
        if last in ("idxToDate", "project_idx_to_date", "idx_to_date_fast"):
            return EQUI if (args_t and args_t[0] != NON) else self._mark(e, e.args[0])
        if last in ("dateToIdx", "project_date_to_idx", "date_to_idx_fast"):
            if args_t and args_t[0] == NON:
                return self._mark(e, e.args[0])
            return INV
        if last == "isocalendar" and recv_t == EQUI:
            return self._mark(e, e)          # (year, week) are not shift invariant; element 2 refined below
        if last in ("weekday", "isoweekday", "time", "timetz") and recv_t == EQUI:
            return INV
        if last == "date" and recv_t == EQUI:
            return EQUI
        if last in ("total_seconds",) and recv_t == DELTA:
            return INV
        if last == "replace" and recv_t == EQUI:
            bad = [k for k in e.keywords if k.arg in ("year", "month", "day")]
            if bad:
                return self._mark(e, e)
            return EQUI
        if last in ("astimezone", "_convert_to_timezone", "localize"):
            src = e.func.value if last != "_convert_to_timezone" else (e.args[0] if e.args else None)
            t = self.ty(src) if src is not None else TOP
            return t if t != TOP else TOP         # premise: UTC project (fixed offset) keeps equivariance
        if last == "timedelta":
            if NON in args_t:
                return self._mark(e, e)
            return DELTA
        if last == "relativedelta":
            if any(k.arg in ("months", "years", "month", "year", "day") for k in e.keywords):
                return self._mark(e, e)
            return DELTA
        if last in ("strftime", "isoformat") and recv_t == EQUI:
            return TOP                             # rendering of an instant: expected to move
        if last in ("int", "float", "round", "abs", "min", "max", "len", "ceil", "floor"):
            if NON in args_t:
                return self._mark(e, e.args[args_t.index(NON)] if args_t.index(NON) < len(e.args) else e)
            if last in ("min", "max") and args_t and all(t == EQUI for t in args_t):
                return EQUI
            if args_t and all(t in (INV, DELTA) for t in args_t):
                return INV
            return TOP
        if NON in args_t:
            idx = args_t.index(NON)
            return self._mark(e, e.args[idx] if idx < len(e.args) else e.keywords[idx - len(e.args)].value)
        if recv_t == NON:
            return self._mark(e, e.func.value)
        return TOP

    # ------------------------------------------------------------------ inference
    def _infer(self):
        self._name_origin: dict = {}
        for _ in range(6):
            changed = False
            for n in own_nodes(self.fn):
                pairs = []
                if isinstance(n, ast.Assign):
                    for t in n.targets:
                        pairs.append((t, n.value))
                elif isinstance(n, ast.AnnAssign) and n.value is not None:
                    pairs.append((n.target, n.value))
                elif isinstance(n, ast.AugAssign):
                    pairs.append((n.target, ast.BinOp(left=n.target, op=n.op, right=n.value)))
                elif isinstance(n, (ast.For, ast.comprehension)):
                    pairs.append((n.target, None))
                for tgt, val in pairs:
                    if isinstance(tgt, ast.Name):
                        t = self.ty(val) if val is not None else TOP
                        changed |= self._set(tgt.id, t, val)
                    elif isinstance(tgt, (ast.Tuple, ast.List)) and val is not None:
                        if isinstance(val, ast.Call) and (dotted(val.func) or "").endswith("isocalendar") \
                                and isinstance(val.func, ast.Attribute) and self.ty(val.func.value) == EQUI and len(tgt.elts) == 3:
                            for i, el in enumerate(tgt.elts):
                                if isinstance(el, ast.Name):
                                    if i < 2:
                                        self.origin[id(val)] = val
                                        changed |= self._set(el.id, NON, val)
                                    else:
                                        changed |= self._set(el.id, INV, val)
                        elif isinstance(val, (ast.Tuple, ast.List)) and len(val.elts) == len(tgt.elts):
                            for el, v in zip(tgt.elts, val.elts):
                                if isinstance(el, ast.Name):
                                    changed |= self._set(el.id, self.ty(v), v)
                        else:
                            t = self.ty(val)
                            for el in tgt.elts:
                                if isinstance(el, ast.Name):
                                    changed |= self._set(el.id, t if t == NON else TOP, val)
            if not changed:
                break

    def _set(self, name, t, val) -> bool:
        old = self.env.get(name)
        new = t if old is None else self._join(old, t)
        if t == NON and val is not None:
            self._name_origin.setdefault(name, self.origin.get(id(val), val))
        if new != old:
            self.env[name] = new
            return True
        return False

    # ------------------------------------------------------------------ rule
    def findings(self) -> list:
        out = []
        for n in own_nodes(self.fn):
            if isinstance(n, (ast.If, ast.While)):
                if self.ty(n.test) == NON:
                    out.append(Finding(n.test, self.origin.get(id(n.test), n.test), "branch condition"))
            elif isinstance(n, ast.IfExp):
                if self.ty(n.test) == NON:
                    out.append(Finding(n.test, self.origin.get(id(n.test), n.test), "conditional expression"))
            elif isinstance(n, ast.Subscript) and not isinstance(n.slice, (ast.Constant, ast.Tuple)):
                if self.ty(n.slice) == NON:
                    out.append(Finding(n.slice, self.origin.get(id(n.slice), n.slice), "subscript index"))
            elif isinstance(n, ast.Return) and n.value is not None:
                if self.ty(n.value) == NON:
                    out.append(Finding(n.value, self.origin.get(id(n.value), n.value), "returned value"))
        # de-duplicate by origin
        seen, res = set(), []
        for f in out:
            k = (id(f.origin), f.kind)
            if k not in seen:
                seen.add(k)
                res.append(f)
        return res

    def decisions(self) -> int:
        return sum(1 for n in own_nodes(self.fn) if isinstance(n, (ast.If, ast.While, ast.IfExp, ast.Return))
                   or (isinstance(n, ast.Subscript) and not isinstance(n.slice, (ast.Constant, ast.Tuple))))
