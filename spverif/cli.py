"""./check <Cxx> quick|thorough   |   ./check explain <violation.json>   |   ./check doctor   |   ./check all [tier]"""
from __future__ import annotations

import importlib
import json
import os
import sys


def _load(prop: str):
    return importlib.import_module(f"spverif.rules.{prop.lower()}")


def main(argv=None) -> int:
    argv = list(sys.argv[1:] if argv is None else argv)
    if not argv:
        print(__doc__)
        return 2
    cmd = argv[0]
    if cmd == "doctor":
        from .model import Repo
        r = Repo()
        print(f"doctor: parsed {len(r.modules)} modules, {len(r.funcs)} functions from {r.root}; digest {r.hexdigest()[:12]}")
        return 0
    if cmd == "explain":
        with open(argv[1]) as f:
            rec = json.load(f)
        print(json.dumps(rec, indent=1))
        prop = rec["property"]
        print(f"--- re-evaluating {prop} on the current tree ---")
        from .core import run_property
        mod = _load(prop)
        return run_property(prop, rec.get("tier", "quick"), _rules(mod), mod.META)
    if cmd == "all":
        tier = argv[1] if len(argv) > 1 else "quick"
        rc = 0
        here = os.path.dirname(__file__)
        for f in sorted(os.listdir(os.path.join(here, "rules"))):
            if f.startswith("c") and f.endswith(".py") and f[1:3].isdigit():
                rc = max(rc, main([f[:-3].upper(), tier]))
        return rc
    prop = cmd.upper()
    tier = argv[1] if len(argv) > 1 else os.environ.get("VERIF_TIER", "quick")
    if tier not in ("quick", "thorough"):
        tier = "quick"
    try:
        mod = _load(prop)
    except ModuleNotFoundError:
        print(f"ANALYSIS-ERROR property={prop} no check built")
        return 2
    from .core import run_property
    return run_property(prop, tier, _rules(mod), mod.META)


def _rules(mod):
    """The property's rules: the robust shared rules first (run_extra: they need no property-specific anchor, so their verdicts
    stand even when a later rule stops the analysis), then the module's own."""
    def both(ctx):
        from .model import AnchorMissing, Inconclusive
        extra = getattr(mod, "run_extra", None)
        pending = None
        if extra is not None:
            try:
                extra(ctx)
            except (AnchorMissing, Inconclusive) as e:
                pending = e          # an undecided shared rule does not keep the property's own rules from being evaluated
        mod.run(ctx)
        if pending is not None:
            raise pending
    return both


if __name__ == "__main__":
    try:
        rc = main()
    except SystemExit:
        raise
    except BaseException as e:  # a traceback must never look like a violation (exit 1)
        import traceback
        traceback.print_exc()
        print(f"ANALYSIS-ERROR internal: {type(e).__name__}: {e}")
        rc = 2
    sys.stdout.flush()
    os._exit(rc)
