"""Cross-check of the engine's call graph against the type checker's resolution (thorough tier).

The engine resolves calls by class-hierarchy analysis with name / annotation / constructor typing of receivers
(spverif/callgraph.py).  Reachability-based rules (census of loops, nondeterminism sources, stdout writes, temp
resources, who-may-call) are only as sound as that graph.  The repository environment ships mypy: its front end is run
as a library over /repo/scriptplan (semantic analysis + type inference, nothing is executed), every call expression
whose callee it resolves to a function or method defined in scriptplan is collected, and each such typed edge must be
contained in the engine's callee set for the same call site.  A typed edge the engine does not have is a hole in the
graph; the run is then INCONCLUSIVE (exit 2) and names the site.

Only edges into scriptplan are compared; sites mypy types as Any give no typed edge (the engine's by-name resolution
is the only opinion there).
"""
from __future__ import annotations

import ast
import os

_ATTRS: dict = {}
# attributes of mypy nodes that point OUT of the syntax tree (to the definition a name refers to, to class infos):
# following them would walk other modules' bodies under this module's file name
_REFERENCES = {"node", "info", "def_var", "original_def", "var", "type_guard", "type_is", "deco_line", "fullname", "name", "mro"}


def _fields(node):
    t = type(node)
    if t not in _ATTRS:
        names = []
        for n in dir(t):
            if n.startswith("_"):
                continue
            try:
                v = getattr(t, n)
            except Exception:
                names.append(n)
                continue
            if callable(v) and not isinstance(v, property):
                continue
            if n in _REFERENCES:
                continue
            names.append(n)
        _ATTRS[t] = names
    return _ATTRS[t]


def typed_edges(root: str) -> dict:
    """(rel path, line, col) -> set of fullnames of scriptplan functions the call can reach according to mypy."""
    from mypy import build, nodes as N, types as T
    from mypy.find_sources import create_source_list
    from mypy.options import Options
    cwd = os.getcwd()
    os.chdir(root)
    try:
        o = Options()
        o.preserve_asts = True
        o.export_types = True
        o.incremental = False
        o.cache_dir = os.devnull
        o.ignore_missing_imports = True
        o.follow_imports = "silent"
        res = build.build(create_source_list(["scriptplan"], o), o)
    finally:
        os.chdir(cwd)
    types = res.types
    edges: dict = {}

    def func_of(n):
        if isinstance(n, N.Decorator):
            n = n.func
        # plugin-synthesised methods (dataclass __init__) have no source extent: there is no body to reach
        return n if isinstance(n, N.FuncDef) and n.end_line is not None else None

    def visit_call(node, mod):
        c = node.callee
        tg = set()
        if isinstance(c, N.NameExpr):
            n = c.node
            f = func_of(n)
            if f is not None:
                tg.add(f.fullname)
            elif isinstance(n, N.TypeInfo):
                m = func_of(n.get_method("__init__"))
                if m is not None:
                    tg.add(m.fullname)
        elif isinstance(c, N.MemberExpr):
            rt = types.get(c.expr)
            rt = T.get_proper_type(rt) if rt is not None else None
            items = [T.get_proper_type(i) for i in rt.items] if isinstance(rt, T.UnionType) else [rt]
            for it in items:
                if isinstance(it, T.Instance):
                    m = func_of(it.type.get_method(c.name))
                    if m is not None:
                        tg.add(m.fullname)
        tg = {x for x in tg if x.startswith("scriptplan.")}
        if tg:
            edges.setdefault((mod, node.line, node.column, node.end_line, node.end_column), set()).update(tg)

    def walk(root_node, mod):
        seen = set()
        todo = [root_node]
        while todo:
            node = todo.pop()
            if id(node) in seen or isinstance(node, (N.TypeInfo, N.Var)) or (isinstance(node, N.MypyFile) and node is not root_node):
                continue
            seen.add(id(node))
            if isinstance(node, N.CallExpr):
                visit_call(node, mod)
            for name in _fields(node):
                try:
                    v = getattr(node, name)
                except Exception:
                    continue
                if isinstance(v, N.Node):
                    todo.append(v)
                elif isinstance(v, (list, tuple)):
                    for x in v:
                        if isinstance(x, N.Node):
                            todo.append(x)
                        elif isinstance(x, (list, tuple)):
                            todo.extend(y for y in x if isinstance(y, N.Node))
    for mid, st in res.graph.items():
        if mid.startswith("scriptplan") and st.tree is not None:
            walk(st.tree, st.tree.path)
    return edges


def crosscheck(ctx) -> dict:
    """Compare typed edges with the engine's call sites. Returns statistics; holes are listed under 'missing'."""
    repo, cg = ctx.repo, ctx.cg
    edges = typed_edges(repo.root)
    by_site = {}
    for fn in repo.all_funcs():
        for node, tg in cg.sites(fn):
            if isinstance(node, ast.Call):
                by_site[(fn.module.rel, node.lineno, node.col_offset, node.end_lineno, node.end_col_offset)] = (fn, node, tg)

    def fullname(f):
        return f.module.rel[:-3].replace("/", ".").replace(".__init__", "") + "." + f.qual
    compared = missing_site = 0
    missing = []
    for key, want in sorted(edges.items()):
        hit = by_site.get(key)
        if hit is None:
            missing_site += 1
            continue
        fn, node, tg = hit
        compared += 1
        have = {fullname(f) for f in tg}
        # an override in a subclass satisfies the base-class edge: compare by method name within the class hierarchy
        lack = set()
        for w in want - have:
            cls_meth = w.rsplit(".", 1)[-1]
            if any(h.rsplit(".", 1)[-1] == cls_meth for h in have) and _same_family(repo, w, have):
                continue
            # nested function: mypy names it Class.inner, the engine Class.outer.inner
            if any(h.endswith("." + cls_meth) and h.startswith(w.rsplit(".", 1)[0] + ".") for h in have):
                continue
            lack.add(w)
        if lack:
            missing.append({"site": f"{key[0]}:{key[1]}", "call": ast.unparse(node)[:70], "typed": sorted(lack), "engine": sorted(have)[:4]})
    return {"typed_edges": len(edges), "compared": compared, "sites_not_in_model": missing_site, "missing": missing}


def _same_family(repo, want: str, have: set) -> bool:
    """`want` = pkg.mod.Class.meth; True if some engine target is the same method on a sub- or superclass."""
    parts = want.split(".")
    if len(parts) < 2:
        return False
    cname, meth = parts[-2], parts[-1]
    try:
        ci = repo.cls(cname)
    except Exception:
        return False
    fam = {c.name for c in ci.all_subclasses()} | {cname}
    try:
        fam |= {b.name for b in ci.mro()}
    except Exception:
        pass
    return any(h.split(".")[-2] in fam and h.split(".")[-1] == meth for h in have if h.count(".") >= 1)
