"""Thorough tier = the quick rules, plus an adequacy pass over the CURRENT tree.

A static rule that matches nothing passes for ever.  Floors (core.Ctx.floor) catch an anchor that vanished; they do not
catch an anchor that is still there while the rule has silently stopped discriminating (a refactoring moved the decisive
construct to a place the rule does not look at).  So the thorough tier re-derives, on every run and from /repo's current
working tree, that the property's check still tells broken code from sound code:

  * every single-edit variant of the corpus that breaks this property (selftest/mutants.py MUTANTS, and the seeded
    sub-agent changes the check is on record as catching, selftest/matrix.json) is applied to a scratch copy of the
    current tree (outside /repo and /verif, removed at once) and the property's quick check is run on the copy by
    pure source analysis: it must NOT pass (exit 1 = reported, exit 2 = fails closed);
  * every behaviour-preserving variant (BENIGN) must stay silent.

Nothing is executed from the copies; a variant whose anchor no longer occurs in the current source is counted as stale
and reported, not as a failure.  A variant that passes silently, or a benign variant that alarms, makes the run
INCONCLUSIVE (exit 2): the check cannot be trusted on this tree until it is repaired.  The verdict on the property itself
is the quick rules' verdict on /repo; the adequacy pass only guards that verdict against being vacuous.

It also cross-checks the engine: every call edge the repository environment's type checker resolves into scriptplan
(mypy front end run as a library; semantic analysis and type inference only) must be in the engine's call graph
(spverif/typedcg.py) -- reachability-based censuses are only as sound as that graph.
"""
from __future__ import annotations

import concurrent.futures as cf
import json
import os
import sys

from .model import Inconclusive

VERIF = os.path.dirname(os.path.dirname(os.path.abspath(__file__)))


def adequacy(ctx, prop: str):
    st = os.path.join(VERIF, "selftest")
    if st not in sys.path:
        sys.path.insert(0, st)
    import mutants as M  # noqa
    import run as R      # noqa
    R.REPO = ctx.repo.root
    jobs = []
    for name, p, edits in M.MUTANTS:
        if p == prop:
            jobs.append(("mutant", name, prop, edits))
    for name, props, edits in M.BENIGN:
        if prop in props:
            jobs.append(("benign", name, prop, edits))
    mpath = os.path.join(st, "matrix.json")
    matrix = json.load(open(mpath)) if os.path.exists(mpath) else {}
    for seed, row in sorted(matrix.items()):
        patch = os.path.join(VERIF, "seeded", seed, "patch.diff")
        mp = os.path.join(VERIF, "seeded", seed, "meta.json")
        if os.path.exists(mp) and "retired" in json.load(open(mp)):
            continue
        if row.get(prop, {}).get("rc") == 1 and os.path.exists(patch):
            jobs.append(("seeded", seed, prop, patch))
    # behaviour-preserving changes by independent sub-agents (/verif/benign): the ones made for this property, and the ones this
    # property's check once alarmed on (selftest/round5_benign_first_contact.txt) -- as far as the check is on record as silent
    # on them (selftest/benign_matrix.json); the ones it still alarms on are listed in DESIGN 11.11, not re-litigated here
    bpath = os.path.join(st, "benign_matrix.json")
    bmatrix = json.load(open(bpath)) if os.path.exists(bpath) else {}
    once = set()
    fc = os.path.join(st, "round5_benign_first_contact.txt")
    if os.path.exists(fc):
        for line in open(fc):
            parts = line.split(None, 2)
            if len(parts) == 3 and parts[1] == "ALARM" and f"'{prop}'" in parts[2]:
                once.add(parts[0])
    for bname, row in sorted(bmatrix.items()):
        patch = os.path.join(VERIF, "benign", bname, "patch.diff")
        mp = os.path.join(VERIF, "benign", bname, "meta.json")
        if not os.path.exists(patch) or (os.path.exists(mp) and "retired" in json.load(open(mp))):
            continue
        if (bname.startswith(prop + "-") or bname in once) and row.get(prop, {}).get("rc") == 0:
            jobs.append(("benign-patch", bname, prop, patch))
    res = {"caught": [], "failed_closed": [], "silent_benign": [], "stale": [], "lost": [], "false_alarm": []}
    workers = min(16, os.cpu_count() or 4)
    os.environ["SPVERIF_NESTED"] = "1"          # the sub-runs are quick runs of the same check on the scratch copies
    try:
        with cf.ThreadPoolExecutor(max_workers=workers) as ex:
            for kind, name, _p, rc, info in ex.map(R.one, jobs):
                if rc == "BROKEN-VARIANT":
                    res["stale"].append(name)
                elif kind in ("benign", "benign-patch"):
                    (res["silent_benign"] if rc == 0 else res["false_alarm"]).append(name if rc == 0 else f"{name} (exit {rc}: {info})")
                elif rc == 1:
                    res["caught"].append(f"{name} {info}")
                elif rc == 2:
                    res["failed_closed"].append(name)
                else:
                    res["lost"].append(name)
    finally:
        os.environ.pop("SPVERIF_NESTED", None)
    ctx.stats["adequacy"] = {k: (v if k in ("lost", "false_alarm", "stale") else len(v)) for k, v in res.items()}
    ctx.stats["adequacy_variants"] = len(jobs)
    ctx.ob("ADEQ", f"{len(jobs)} variants of the current tree: {len(res['caught'])} reported, {len(res['failed_closed'])} fail closed, "
           f"{len(res['silent_benign'])} benign silent, {len(res['stale'])} stale", None, None,
           "adequacy pass of the thorough tier (see spverif/thorough.py)", info=True)
    if res["lost"] or res["false_alarm"]:
        raise Inconclusive(f"adequacy pass on the current tree: variants that break {prop} but pass the check: {res['lost']}; "
                           f"behaviour-preserving variants that alarm: {res['false_alarm']}")
    if jobs and len(res["stale"]) > len(jobs) // 2:
        raise Inconclusive(f"adequacy pass: {len(res['stale'])} of {len(jobs)} variants no longer apply to the current source; "
                           "the corpus (selftest/mutants.py) needs maintenance before the check can be trusted on this tree")


def engine_crosscheck(ctx):
    """Typed call edges (mypy front end as a library, nothing executed) must be contained in the engine's call graph."""
    from .typedcg import crosscheck
    try:
        r = crosscheck(ctx)
    except ImportError as e:
        ctx.note(f"engine cross-check skipped: mypy is not importable in this environment ({e})")
        return
    ctx.stats["typed_call_edges"] = {k: v for k, v in r.items() if k != "missing"}
    ctx.ob("XCHK", f"{r['compared']} call sites with a type-resolved callee inside scriptplan: all contained in the engine's call graph"
           if not r["missing"] else f"{len(r['missing'])} typed call edges missing from the engine's call graph", None, None,
           "engine soundness cross-check of the thorough tier (spverif/typedcg.py)", info=True)
    if r["missing"]:
        raise Inconclusive("the engine's call graph lacks edges the type checker resolves: " +
                           "; ".join(f"{m['site']} {m['call']} -> {m['typed']}" for m in r["missing"][:5]))
