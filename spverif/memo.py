"""Memo-key soundness: a function that stores a computed value in a container and answers later calls
from that container must key the entry by the parameters the value was computed from, themselves --
not by a projection of them.  `cache[(tz, dt.toordinal())] = offset_of(dt)` answers every later dt of
the same day with the first one's value.

Pure syntax over one function; flow-insensitive local resolution (a Name stands for the expressions
assigned to it in the function).  Sound for the claim "the key loses a parameter the value depends on";
a key that is a projection through which the function really factors is reported too -- that needs a
semantic argument a reader has to make, and is listed as an exception by (function, container).
"""
from __future__ import annotations

import ast

from .model import norm


def _assigned(fn_node: ast.AST) -> dict:
    out: dict = {}
    for n in ast.walk(fn_node):
        if isinstance(n, ast.Assign):
            for t in n.targets:
                if isinstance(t, ast.Name):
                    out.setdefault(t.id, []).append(n.value)
        elif isinstance(n, ast.AnnAssign) and isinstance(n.target, ast.Name) and n.value is not None:
            out.setdefault(n.target.id, []).append(n.value)
        elif isinstance(n, ast.AugAssign) and isinstance(n.target, ast.Name):
            out.setdefault(n.target.id, []).append(n.value)
    return out


def _params(fn_node) -> list:
    a = fn_node.args
    return [x.arg for x in a.posonlyargs + a.args + a.kwonlyargs if x.arg not in ("self", "cls")]


def _param_deps(e: ast.AST, params: set, asg: dict, seen=None) -> set:
    seen = seen if seen is not None else set()
    out = set()
    for n in ast.walk(e):
        if isinstance(n, ast.Name) and isinstance(n.ctx, ast.Load):
            if n.id in params and n.id not in asg:
                out.add(n.id)
            elif n.id in asg and n.id not in seen:
                seen.add(n.id)
                if n.id in params:
                    out.add(n.id)
                for v in asg[n.id]:
                    out |= _param_deps(v, params, asg, seen)
    return out


def _key_elements(k: ast.AST, asg: dict, depth=0) -> list:
    if isinstance(k, ast.Tuple):
        out = []
        for e in k.elts:
            out += _key_elements(e, asg, depth)
        return out
    if isinstance(k, ast.Name) and k.id in asg and len(asg[k.id]) == 1 and depth < 4:
        v = asg[k.id][0]
        if isinstance(v, (ast.Tuple, ast.Name)):
            return _key_elements(v, asg, depth + 1)
    return [k]


def memo_findings(fn_node: ast.AST) -> list:
    """[(container text, key ast, lost parameter, store stmt)]"""
    params = set(_params(fn_node))
    asg = _assigned(fn_node)
    stores = []   # (container, key, value, stmt)
    reads = set()
    for n in ast.walk(fn_node):
        if isinstance(n, ast.Assign) and len(n.targets) == 1 and isinstance(n.targets[0], ast.Subscript):
            t = n.targets[0]
            stores.append((norm(t.value), t.slice, n.value, n))
        elif isinstance(n, ast.Call) and isinstance(n.func, ast.Attribute) and n.func.attr == "setdefault" and len(n.args) == 2:
            stores.append((norm(n.func.value), n.args[0], n.args[1], n))
            reads.add(norm(n.func.value))
        elif isinstance(n, ast.Call) and isinstance(n.func, ast.Attribute) and n.func.attr == "get" and n.args:
            reads.add(norm(n.func.value))
        elif isinstance(n, ast.Subscript) and isinstance(n.ctx, ast.Load):
            reads.add(norm(n.value))
        elif isinstance(n, ast.Compare) and any(isinstance(o, (ast.In, ast.NotIn)) for o in n.ops):
            for c in n.comparators:
                reads.add(norm(c))
    out = []
    for cont, key, val, stmt in stores:
        if cont not in reads:
            continue
        # only containers that outlive the call: module globals / attributes, not locals built here
        root = cont.split(".")[0].split("[")[0]
        if root in asg and root not in ("self", "cls"):
            continue
        if root in params:
            continue
        elems = _key_elements(key, asg)
        bare = set()
        for e in elems:
            if isinstance(e, ast.Name):
                bare |= ({e.id} if e.id in params else _param_deps(e, params, asg)
                         if all(isinstance(v, ast.Name) for v in asg.get(e.id, [])) else set())
        # parameters that select the container itself (`self.tab[scenario][key] = ...`) are part of the key
        try:
            for sub in ast.walk(ast.parse(cont, mode="eval")):
                if isinstance(sub, ast.Name) and sub.id in params:
                    bare.add(sub.id)
        except SyntaxError:
            pass
        need = _param_deps(val, params, asg)
        for p in sorted(need - bare):
            out.append((cont, key, p, stmt))
    return out


_CONTROL = '''
_C = {}
def lossy(tz, dt):
    key = (tz, dt.toordinal())
    off = _C.get(key)
    if off is None:
        off = compute(tz, dt)
        _C[key] = off
    return dt + off
def exact(tz, dt):
    key = (tz, dt)
    if key not in _C:
        _C[key] = compute(tz, dt)
    return _C[key]
'''


def control_ok() -> bool:
    m = ast.parse(_CONTROL)
    fns = {n.name: n for n in m.body if isinstance(n, ast.FunctionDef)}
    a = memo_findings(fns["lossy"])
    b = memo_findings(fns["exact"])
    return [x[2] for x in a] == ["dt"] and b == []
