"""Memo-key soundness: a function that stores a computed value in a container and answers later calls
from that container must key the entry by the parameters the value was computed from, themselves --
not by a projection of them.  `cache[(tz, dt.toordinal())] = offset_of(dt)` answers every later dt of
the same day with the first one's value.

Pure syntax over one function; flow-insensitive local resolution (a Name stands for the expressions
assigned to it in the function).  Sound for the claim "the key loses a parameter the value depends on";
a key that is a projection through which the function really factors is reported too -- that needs a
semantic argument a reader has to make, and is listed as an exception by (function, container).
"""
from __future__ import annotations

import ast

from .model import norm


def _assigned(fn_node: ast.AST) -> dict:
    out: dict = {}
    for n in ast.walk(fn_node):
        if isinstance(n, ast.Assign):
            for t in n.targets:
                if isinstance(t, ast.Name):
                    out.setdefault(t.id, []).append(n.value)
        elif isinstance(n, ast.AnnAssign) and isinstance(n.target, ast.Name) and n.value is not None:
            out.setdefault(n.target.id, []).append(n.value)
        elif isinstance(n, ast.AugAssign) and isinstance(n.target, ast.Name):
            out.setdefault(n.target.id, []).append(n.value)
    return out


def _params(fn_node) -> list:
    a = fn_node.args
    return [x.arg for x in a.posonlyargs + a.args + a.kwonlyargs if x.arg not in ("self", "cls")]


def _param_deps(e: ast.AST, params: set, asg: dict, seen=None) -> set:
    seen = seen if seen is not None else set()
    out = set()
    for n in ast.walk(e):
        if isinstance(n, ast.Name) and isinstance(n.ctx, ast.Load):
            if n.id in params and n.id not in asg:
                out.add(n.id)
            elif n.id in asg and n.id not in seen:
                seen.add(n.id)
                if n.id in params:
                    out.add(n.id)
                for v in asg[n.id]:
                    out |= _param_deps(v, params, asg, seen)
    return out


def _key_elements(k: ast.AST, asg: dict, depth=0) -> list:
    if isinstance(k, ast.Tuple):
        out = []
        for e in k.elts:
            out += _key_elements(e, asg, depth)
        return out
    if isinstance(k, ast.Name) and k.id in asg and len(asg[k.id]) == 1 and depth < 4:
        v = asg[k.id][0]
        if isinstance(v, (ast.Tuple, ast.Name)):
            return _key_elements(v, asg, depth + 1)
    return [k]


def memo_findings(fn_node: ast.AST) -> list:
    """[(container text, key ast, lost parameter, store stmt)]"""
    params = set(_params(fn_node))
    asg = _assigned(fn_node)
    stores = []   # (container, key, value, stmt)
    reads = set()
    for n in ast.walk(fn_node):
        if isinstance(n, ast.Assign) and len(n.targets) == 1 and isinstance(n.targets[0], ast.Subscript):
            t = n.targets[0]
            stores.append((norm(t.value), t.slice, n.value, n))
        elif isinstance(n, ast.Call) and isinstance(n.func, ast.Attribute) and n.func.attr == "setdefault" and len(n.args) == 2:
            stores.append((norm(n.func.value), n.args[0], n.args[1], n))
            reads.add(norm(n.func.value))
        elif isinstance(n, ast.Call) and isinstance(n.func, ast.Attribute) and n.func.attr == "get" and n.args:
            reads.add(norm(n.func.value))
        elif isinstance(n, ast.Subscript) and isinstance(n.ctx, ast.Load):
            reads.add(norm(n.value))
        elif isinstance(n, ast.Compare) and any(isinstance(o, (ast.In, ast.NotIn)) for o in n.ops):
            for c in n.comparators:
                reads.add(norm(c))
    out = []

    def value_nodes(e):
        """sub-expressions whose VALUE can flow into the value of e: comparisons and the tests of conditional expressions only
        yield / select, they do not pass the stored value on"""
        todo = [e]
        while todo:
            x = todo.pop()
            yield x
            if isinstance(x, ast.Compare):
                continue
            for f_, v in ast.iter_fields(x):
                if isinstance(x, ast.IfExp) and f_ == "test":
                    continue
                if isinstance(v, ast.AST):
                    todo.append(v)
                elif isinstance(v, list):
                    todo.extend(y for y in v if isinstance(y, ast.AST))

    def reads_cont(e, cont):
        for x in value_nodes(e):
            if isinstance(x, ast.Subscript) and isinstance(x.ctx, ast.Load) and norm(x.value) == cont:
                return True
            if isinstance(x, ast.Call) and isinstance(x.func, ast.Attribute) and x.func.attr in ("get", "setdefault", "pop") and norm(x.func.value) == cont:
                return True
        return False

    def answers_from(cont):
        """the function returns (part of) what it read from the container: that is what makes the container a memo and not an
        accumulator the function merely maintains"""
        fed = set()
        changed = True
        while changed:
            changed = False
            for nm, vals in asg.items():
                if nm in fed:
                    continue
                for v in vals:
                    if reads_cont(v, cont) or any(isinstance(x, ast.Name) and x.id in fed for x in value_nodes(v)):
                        fed.add(nm)
                        changed = True
                        break
        for r in ast.walk(fn_node):
            if isinstance(r, ast.Return) and r.value is not None:
                if reads_cont(r.value, cont) or any(isinstance(x, ast.Name) and x.id in fed for x in value_nodes(r.value)):
                    return True
        return False
    def foreign_holder(root):
        """`root` is a local alias of a container kept on another object reached from self
        (`rendered = getattr(self.project, "_x", None)` / `= self.project._x`): the holder's path, else None"""
        for v in asg.get(root, []):
            r = _attr_read(v)
            if r and r[0].startswith("self.") and r[1].startswith("_"):
                return r[0]
        return None

    def mentions_self(e, skip_prefix, seen=None, depth=0):
        """the expression is computed with fields or methods of self (other than the path to the holder)"""
        seen = seen if seen is not None else set()
        for x in ast.walk(e):
            if isinstance(x, ast.Attribute) and isinstance(x.value, ast.Name) and x.value.id == "self" and not f"self.{x.attr}".startswith(skip_prefix):
                return True
            if isinstance(x, ast.Name) and isinstance(x.ctx, ast.Load) and x.id in asg and x.id not in seen and depth < 6:
                seen.add(x.id)
                if any(mentions_self(v, skip_prefix, seen, depth + 1) for v in asg[x.id]):
                    return True
                if any(mentions_self(g, skip_prefix, seen, depth + 1) for g in _grown_from(x.id, fn_node)):
                    return True
        return False
    for cont, key, val, stmt in stores:
        if cont not in reads:
            continue
        if not answers_from(cont):
            continue
        root0 = cont.split(".")[0].split("[")[0]
        holder = foreign_holder(root0) if root0 in asg else None
        if holder is not None:
            # kept on an object that other instances of this class share: the value may not depend on this instance unless the key does
            if mentions_self(val, holder) and not any(mentions_self(e_, holder) or (isinstance(e_, ast.Name) and e_.id == "self") for e_ in _key_elements(key, asg)):
                out.append((f"{holder}.<{cont}>", key, "self (the state of the object that computed the value)", stmt))
            continue
        # only containers that outlive the call: module globals / attributes, not locals built here
        root = cont.split(".")[0].split("[")[0]
        if root in asg and root not in ("self", "cls"):
            continue
        if root in params:
            continue
        elems = _key_elements(key, asg)
        bare = set()
        for e in elems:
            if isinstance(e, ast.Name):
                bare |= ({e.id} if e.id in params else _param_deps(e, params, asg)
                         if all(isinstance(v, ast.Name) for v in asg.get(e.id, [])) else set())
        # parameters that select the container itself (`self.tab[scenario][key] = ...`) are part of the key
        try:
            for sub in ast.walk(ast.parse(cont, mode="eval")):
                if isinstance(sub, ast.Name) and sub.id in params:
                    bare.add(sub.id)
        except SyntaxError:
            pass
        need = _param_deps(val, params, asg)
        for p in sorted(need - bare):
            out.append((cont, key, p, stmt))
    return out


_CONTROL = '''
_C = {}
def lossy(tz, dt):
    key = (tz, dt.toordinal())
    off = _C.get(key)
    if off is None:
        off = compute(tz, dt)
        _C[key] = off
    return dt + off
def exact(tz, dt):
    key = (tz, dt)
    if key not in _C:
        _C[key] = compute(tz, dt)
    return _C[key]
'''


def control_ok() -> bool:
    m = ast.parse(_CONTROL)
    fns = {n.name: n for n in m.body if isinstance(n, ast.FunctionDef)}
    a = memo_findings(fns["lossy"])
    b = memo_findings(fns["exact"])
    return [x[2] for x in a] == ["dt"] and b == []


# ------------------------------------------------------------------------------------------------------------------
# single-slot memos: `c = getattr(H, "_x", None); if c is not None: return c; ...; H._x = value`

def _attr_read(e: ast.AST):
    """(holder text, attribute name) when `e` reads one attribute: H.name or getattr(H, "name"[, default])."""
    if isinstance(e, ast.Attribute) and isinstance(e.ctx, ast.Load):
        return norm(e.value), e.attr
    if isinstance(e, ast.Call) and isinstance(e.func, ast.Name) and e.func.id == "getattr" and len(e.args) >= 2 \
            and isinstance(e.args[1], ast.Constant) and isinstance(e.args[1].value, str):
        return norm(e.args[0]), e.args[1].value
    return None


def _self_field_deps(e: ast.AST, asg: dict, seen=None) -> set:
    """`self.<field>` reads the expression depends on (through local names)."""
    seen = seen if seen is not None else set()
    out = set()
    for n in ast.walk(e):
        if isinstance(n, ast.Attribute) and isinstance(n.value, ast.Name) and n.value.id == "self" and isinstance(n.ctx, ast.Load):
            out.add(n.attr)
        elif isinstance(n, ast.Name) and isinstance(n.ctx, ast.Load) and n.id in asg and n.id not in seen:
            seen.add(n.id)
            for v in asg[n.id]:
                out |= _self_field_deps(v, asg, seen)
    return out


def _grown_from(name: str, fn_node: ast.AST) -> list:
    """expressions appended / added / stored into the local container `name` (its content)."""
    out = []
    for n in ast.walk(fn_node):
        if isinstance(n, ast.Call) and isinstance(n.func, ast.Attribute) and isinstance(n.func.value, ast.Name) and n.func.value.id == name \
                and (n.func.attr in ("append", "add", "extend", "update", "insert", "setdefault") or n.func.attr.startswith(("add", "set", "append", "put", "push"))):
            out += list(n.args)
        elif isinstance(n, ast.Assign) and any(isinstance(t, ast.Subscript) and isinstance(t.value, ast.Name) and t.value.id == name for t in n.targets):
            out.append(n.value)
    return out


def slot_memo_findings(fn_node: ast.AST, deps_hook=None) -> list:
    """[(slot text, lost input, store stmt)]: the function answers from one attribute slot it also fills, and the stored value
    was computed from an input (a parameter; or, when the slot lives on another object than self, a field of self) that the
    validity test of the slot does not compare."""
    params = set(_params(fn_node))
    asg = _assigned(fn_node)
    # locals bound to a slot read
    bound = {}
    for name, vals in asg.items():
        for v in vals:
            r = _attr_read(v)
            if r and r[1].startswith("_"):
                bound.setdefault(name, set()).add(r)
    stores = []
    for n in ast.walk(fn_node):
        if isinstance(n, (ast.Assign, ast.AnnAssign)):
            tgs = n.targets if isinstance(n, ast.Assign) else [n.target]
            for t in tgs:
                if isinstance(t, ast.Attribute) and n.value is not None:
                    stores.append(((norm(t.value), t.attr), n.value, n))
        elif isinstance(n, ast.Call) and isinstance(n.func, ast.Name) and n.func.id == "setattr" and len(n.args) == 3 \
                and isinstance(n.args[1], ast.Constant) and isinstance(n.args[1].value, str):
            stores.append(((norm(n.args[0]), n.args[1].value), n.args[2], n))
    out = []
    for slot, val, stmt in stores:
        holders = [nm for nm, rs in bound.items() if slot in rs]
        direct_ret = False
        # the function answers from the slot: a return of the bound local (or a part of it), or of the attribute itself
        answers = []
        for r in ast.walk(fn_node):
            if isinstance(r, ast.Return) and r.value is not None:
                names = {x.id for x in ast.walk(r.value) if isinstance(x, ast.Name)}
                if names & set(holders):
                    answers.append(r)
                elif any(_attr_read(x) == slot for x in ast.walk(r.value)):
                    answers.append(r)
                    direct_ret = True
        # ... or (a memo helper folded into its caller) the bound local handed on to another local: `result = cached[1]`
        for r in ast.walk(fn_node):
            if isinstance(r, ast.Assign) and len(r.targets) == 1 and isinstance(r.targets[0], (ast.Name, ast.Tuple)):
                tnames = {x.id for x in ast.walk(r.targets[0]) if isinstance(x, ast.Name)}
                if tnames & set(holders):
                    continue
                v_ = r.value
                core = v_
                while isinstance(core, ast.Subscript):
                    core = core.value
                if isinstance(core, ast.Name) and core.id in holders:
                    answers.append(r)
        if not answers:
            continue
        # a memo tests whether the slot is filled (a setter that returns the previous value does not)
        tested = False
        for c in ast.walk(fn_node):
            if isinstance(c, (ast.If, ast.IfExp, ast.While)):
                for x in ast.walk(c.test):
                    if (isinstance(x, ast.Name) and x.id in holders) or _attr_read(x) == slot:
                        tested = True
        if not tested:
            continue
        # inputs the stored value was computed from
        vals = [val]
        for x in ast.walk(val):
            if isinstance(x, ast.Name) and x.id in asg:
                vals += _grown_from(x.id, fn_node)
        need = set()
        fields = set()
        for v in vals:
            need |= _param_deps(v, params, asg)
            fields |= _self_field_deps(v, asg)
            for x in ast.walk(v):
                if isinstance(x, ast.Name) and x.id in asg:
                    for g in _grown_from(x.id, fn_node):
                        need |= _param_deps(g, params, asg)
                        fields |= _self_field_deps(g, asg)
        if deps_hook is not None:
            # the engine's dependence closure (data and control) of the stored value at the store
            need |= {p_ for p_ in deps_hook(val) if p_ in params}
        if slot[0] != "self" and slot[0].startswith("self."):
            own = slot[0].split(".")[1]
            need |= {f"self.{f}" for f in fields if f != own and not f.startswith("_")}
        # inputs the validity test compares with the slot content
        keyed = set()
        for c in ast.walk(fn_node):
            if isinstance(c, ast.Compare):
                sides = [c.left] + list(c.comparators)
                touches = any(isinstance(x, ast.Name) and x.id in holders for s_ in sides for x in ast.walk(s_)) or \
                    any(_attr_read(x) == slot for s_ in sides for x in ast.walk(s_))
                if touches:
                    for s_ in sides:
                        keyed |= _param_deps(s_, params, asg)
                        keyed |= {f"self.{f}" for f in _self_field_deps(s_, asg)}
        for p in sorted(need - keyed):
            out.append((f"{slot[0]}.{slot[1]}", p, stmt))
    return out


_SLOT_CONTROL = '''
class K:
    def lossy(self, sc):
        c = getattr(self, "_memo", None)
        if c is not None:
            return c
        v = [t for t in self.tasks if t.get("x", sc)]
        self._memo = v
        return v
    def exact(self, sc):
        c = getattr(self, "_memo", None)
        if c is not None and c[0] == sc:
            return c[1]
        v = [t for t in self.tasks if t.get("x", sc)]
        self._memo = (sc, v)
        return v
    def onshared(self):
        c = getattr(self.property, "_chain", None)
        if c is None:
            c = []
            c.append(self.property.get("limits", self.scenarioIdx))
            self.property._chain = c
        return c
'''


def slot_control_ok() -> bool:
    m = ast.parse(_SLOT_CONTROL)
    fns = {n.name: n for n in m.body[0].body if isinstance(n, ast.FunctionDef)}
    return [x[1] for x in slot_memo_findings(fns["lossy"])] == ["sc"] and slot_memo_findings(fns["exact"]) == [] \
        and [x[1] for x in slot_memo_findings(fns["onshared"])] == ["self.scenarioIdx"]


# ------------------------------------------------------------------------------------------------------------------
# invalidation: a memo on the object whose values depend on fields of the object must be emptied by every writer of those fields

def _field_reads(e: ast.AST, asg: dict, seen=None) -> set:
    """fields of self the expression is computed from: ("attr", name) for self.name, ("item", table, key) for self.table["key"] /
    self.table.get("key")"""
    seen = seen if seen is not None else set()
    out = set()
    for n in ast.walk(e):
        if isinstance(n, ast.Subscript) and isinstance(n.ctx, ast.Load) and isinstance(n.value, ast.Attribute) and isinstance(n.value.value, ast.Name) \
                and n.value.value.id == "self" and isinstance(n.slice, ast.Constant):
            out.add(("item", n.value.attr, n.slice.value))
        elif isinstance(n, ast.Call) and isinstance(n.func, ast.Attribute) and n.func.attr == "get" and isinstance(n.func.value, ast.Attribute) \
                and isinstance(n.func.value.value, ast.Name) and n.func.value.value.id == "self" and n.args and isinstance(n.args[0], ast.Constant):
            out.add(("item", n.func.value.attr, n.args[0].value))
        elif isinstance(n, ast.Name) and isinstance(n.ctx, ast.Load) and n.id in asg and n.id not in seen:
            seen.add(n.id)
            for v in asg[n.id]:
                out |= _field_reads(v, asg, seen)
    return out


def _guards(node: ast.AST, root: ast.AST) -> list:
    """[(If node, branch)] enclosing `node` inside `root`"""
    out = []
    def rec(n, acc):
        if n is node:
            out.extend(acc)
            return True
        if isinstance(n, ast.If):
            for st in n.body:
                if rec(st, acc + [(n, "T")]):
                    return True
            for st in n.orelse:
                if rec(st, acc + [(n, "F")]):
                    return True
            return False
        for c in ast.iter_child_nodes(n):
            if rec(c, acc):
                return True
        return False
    rec(root, [])
    return out


def invalidation_findings(methods: dict) -> list:
    """methods: name -> FunctionDef of one class.  [(container, field description, writer method, write stmt)] for memo containers
    on self (keyed soundly or not) whose stored values are computed from fields of self that some other method writes without
    emptying the container afterwards."""
    out = []
    memos = {}     # container attr -> set of field reads
    for name, f in methods.items():
        asg = _assigned(f)
        for n in ast.walk(f):
            if isinstance(n, ast.Assign) and len(n.targets) == 1 and isinstance(n.targets[0], ast.Subscript):
                t = n.targets[0]
                if isinstance(t.value, ast.Attribute) and isinstance(t.value.value, ast.Name) and t.value.value.id == "self":
                    cont = t.value.attr
                    # answered from: a read of the same container flows into a return of this method
                    answered = any(isinstance(r, ast.Return) and r.value is not None and (
                        cont in {x.attr for x in ast.walk(r.value) if isinstance(x, ast.Attribute)} or
                        any(isinstance(x, ast.Name) and any(cont in {y.attr for y in ast.walk(v) if isinstance(y, ast.Attribute)} for v in asg.get(x.id, []))
                            for x in ast.walk(r.value))) for r in ast.walk(f))
                    if not answered:
                        continue
                    reads = {r for r in _field_reads(n.value, asg) if not (r[0] == "item" and r[1] == cont)}
                    if reads:
                        memos.setdefault(cont, set()).update(reads)
    for cont, reads in sorted(memos.items()):
        for name, g in methods.items():
            if name == "__init__":
                continue
            for w in ast.walk(g):
                if not isinstance(w, (ast.Assign, ast.AugAssign)):
                    continue
                for t in (w.targets if isinstance(w, ast.Assign) else [w.target]):
                    hit = None
                    if isinstance(t, ast.Subscript) and isinstance(t.value, ast.Attribute) and isinstance(t.value.value, ast.Name) and t.value.value.id == "self":
                        tab = t.value.attr
                        keys = {r[2] for r in reads if r[0] == "item" and r[1] == tab}
                        if not keys:
                            continue
                        if isinstance(t.slice, ast.Constant):
                            if t.slice.value in keys:
                                hit = (f"self.{tab}[{t.slice.value!r}]", {t.slice.value}, None)
                        else:
                            hit = (f"self.{tab}[{norm(t.slice)}]", keys, norm(t.slice))
                    if hit is None:
                        continue
                    desc, need_keys, keyvar = hit
                    wg = _guards(w, g)
                    ok = False
                    for c in ast.walk(g):
                        is_clear = (isinstance(c, ast.Call) and isinstance(c.func, ast.Attribute) and c.func.attr == "clear" and norm(c.func.value) == f"self.{cont}") or \
                                   (isinstance(c, ast.Assign) and any(norm(t2) == f"self.{cont}" for t2 in c.targets))
                        if not is_clear or getattr(c, "lineno", 0) <= w.lineno:
                            continue
                        cg = [x for x in _guards(c, g) if x not in wg]
                        if not cg:
                            ok = True
                            break
                        # a clear guarded by a test on the written key that admits every key the memo depends on
                        if keyvar is not None and len(cg) == 1 and cg[0][1] == "T":
                            tst = cg[0][0].test
                            admitted = set()
                            if isinstance(tst, ast.Compare) and len(tst.ops) == 1 and norm(tst.left) == keyvar:
                                if isinstance(tst.ops[0], ast.In) and isinstance(tst.comparators[0], (ast.Tuple, ast.List, ast.Set)):
                                    admitted = {e.value for e in tst.comparators[0].elts if isinstance(e, ast.Constant)}
                                elif isinstance(tst.ops[0], ast.Eq) and isinstance(tst.comparators[0], ast.Constant):
                                    admitted = {tst.comparators[0].value}
                            if need_keys <= admitted:
                                ok = True
                                break
                    if not ok:
                        out.append((cont, desc, name, w))
    return out


_INV_CONTROL = '''
class K:
    def conv(self, i):
        d = self._memo.get(i)
        if d is None:
            d = self.attributes["start"] + i * self.attributes["step"]
            self._memo[i] = d
        return d
    def set_ok(self, key, value):
        self.attributes[key] = value
        if key in ("start", "step"):
            self._memo.clear()
    def set_bad(self, key, value):
        self.attributes[key] = value
        if key == "start":
            self._memo.clear()
        if key == "res":
            self.attributes["step"] = value
'''


def invalidation_control_ok() -> bool:
    m = ast.parse(_INV_CONTROL)
    fns = {n.name: n for n in m.body[0].body if isinstance(n, ast.FunctionDef)}
    good = invalidation_findings({"conv": fns["conv"], "set_ok": fns["set_ok"]})
    bad = invalidation_findings({"conv": fns["conv"], "set_bad": fns["set_bad"]})
    return good == [] and sorted((b[1], b[2]) for b in bad) == [("self.attributes['step']", "set_bad"), ("self.attributes[key]", "set_bad")]
