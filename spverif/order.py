"""Order abstraction: decide what a boolean expression says about the *relative order* of two
designated terms, and simple sign/monotonicity and affine-offset reasoning.

order_table(expr, is_left, is_right) -> {'<': b, '=': b, '>': b}  (b in True/False/None)
    expr is evaluated under each of the three orderings of (left, right).  Comparisons between
    a left-term and a right-term are decided; everything else is unknown (None) and combined
    with Kleene three-valued logic.

affine(expr, is_root) -> (root_text, k) | None
    expr == root + k for an integer constant k, where root is the maximal sub-expression accepted
    by is_root (through +/- with integer literals, and through local single-assignment names via
    the optional resolver).

mono(expr, is_var, resolve) -> '+', '-', '0', '?'
    monotonicity of expr in the designated variable.
"""
from __future__ import annotations

import ast
from typing import Callable, Optional

from .model import norm

REL = {"<": {ast.Lt: True, ast.LtE: True, ast.Gt: False, ast.GtE: False, ast.Eq: False, ast.NotEq: True},
       "=": {ast.Lt: False, ast.LtE: True, ast.Gt: False, ast.GtE: True, ast.Eq: True, ast.NotEq: False},
       ">": {ast.Lt: False, ast.LtE: False, ast.Gt: True, ast.GtE: True, ast.Eq: False, ast.NotEq: True}}
FLIP = {"<": ">", "=": "=", ">": "<"}


def k_not(a):
    return None if a is None else (not a)


def k_and(vals):
    if any(v is False for v in vals):
        return False
    if all(v is True for v in vals):
        return True
    return None


def k_or(vals):
    if any(v is True for v in vals):
        return True
    if all(v is False for v in vals):
        return False
    return None


def eval_order(e: ast.AST, rel: str, is_left: Callable, is_right: Callable, leaf: Callable = None):
    """Three-valued value of e when left `rel` right."""
    if isinstance(e, ast.Constant):
        return bool(e.value)
    if isinstance(e, ast.UnaryOp) and isinstance(e.op, ast.Not):
        return k_not(eval_order(e.operand, rel, is_left, is_right, leaf))
    if isinstance(e, ast.BoolOp):
        vals = [eval_order(v, rel, is_left, is_right, leaf) for v in e.values]
        return k_and(vals) if isinstance(e.op, ast.And) else k_or(vals)
    if isinstance(e, ast.Compare):
        # chained comparison = conjunction of links
        operands = [e.left] + list(e.comparators)
        vals = []
        for i, op in enumerate(e.ops):
            a, b = operands[i], operands[i + 1]
            if is_left(a) and is_right(b):
                vals.append(REL[rel].get(type(op)))
            elif is_right(a) and is_left(b):
                vals.append(REL[FLIP[rel]].get(type(op)))
            else:
                vals.append(leaf(ast.Compare(left=a, ops=[op], comparators=[b])) if leaf else None)
        return k_and(vals)
    if isinstance(e, ast.IfExp):
        t = eval_order(e.test, rel, is_left, is_right, leaf)
        if t is True:
            return eval_order(e.body, rel, is_left, is_right, leaf)
        if t is False:
            return eval_order(e.orelse, rel, is_left, is_right, leaf)
        a = eval_order(e.body, rel, is_left, is_right, leaf)
        b = eval_order(e.orelse, rel, is_left, is_right, leaf)
        return a if a == b else None
    return leaf(e) if leaf else None


def order_table(e: ast.AST, is_left: Callable, is_right: Callable, leaf: Callable = None) -> dict:
    return {r: eval_order(e, r, is_left, is_right, leaf) for r in ("<", "=", ">")}


def mentions(*names) -> Callable:
    """Predicate: expression is a Name/Attribute chain whose text ends with one of the names, or a
    call/subscript on such (e.g. `self.value`, `count`)."""
    names = set(names)

    def pred(e: ast.AST) -> bool:
        if isinstance(e, ast.Name):
            return e.id in names
        if isinstance(e, ast.Attribute):
            return e.attr in names
        return False
    return pred


def text_is(*texts) -> Callable:
    texts = set(texts)
    return lambda e: norm(e) in texts


# ------------------------------------------------------------------ affine offsets
def affine(e: ast.AST, is_root: Callable, resolve: Callable = None, depth: int = 0):
    """(root text, integer offset) or None."""
    if depth > 12:
        return None
    if is_root(e):
        return (norm(e), 0)
    if isinstance(e, ast.BinOp) and isinstance(e.op, (ast.Add, ast.Sub)):
        sign = 1 if isinstance(e.op, ast.Add) else -1
        if isinstance(e.right, ast.Constant) and isinstance(e.right.value, int) and not isinstance(e.right.value, bool):
            a = affine(e.left, is_root, resolve, depth + 1)
            if a:
                return (a[0], a[1] + sign * e.right.value)
        if isinstance(e.op, ast.Add) and isinstance(e.left, ast.Constant) and isinstance(e.left.value, int) \
                and not isinstance(e.left.value, bool):
            a = affine(e.right, is_root, resolve, depth + 1)
            if a:
                return (a[0], a[1] + e.left.value)
        # x + (1 if c else 0) style: both alternatives
        return None
    if isinstance(e, ast.Name) and resolve is not None:
        vals = resolve(e)
        if vals and len(vals) == 1:
            return affine(vals[0], is_root, resolve, depth + 1)
        if vals:
            rs = [affine(v, is_root, resolve, depth + 1) for v in vals]
            if all(r is not None for r in rs) and len(set(rs)) == 1:
                return rs[0]
    if isinstance(e, ast.Call) and isinstance(e.func, ast.Name) and e.func.id == "int" and len(e.args) == 1:
        return affine(e.args[0], is_root, resolve, depth + 1)
    return None


# ------------------------------------------------------------------ monotonicity
def _neg(m):
    return {"+": "-", "-": "+", "0": "0", "?": "?"}[m]


def _join(a, b):
    if a == b:
        return a
    if a == "0":
        return b
    if b == "0":
        return a
    return "?"


def mono(e: ast.AST, is_var: Callable, resolve: Callable = None, depth: int = 0) -> str:
    """'+' non-decreasing in var, '-' non-increasing, '0' independent, '?' unknown."""
    if depth > 15:
        return "?"
    if is_var(e):
        return "+"
    if isinstance(e, ast.Constant):
        return "0"
    if isinstance(e, ast.Name):
        if resolve is not None:
            vals = resolve(e)
            if vals:
                m = "0"
                for v in vals:
                    m = _join(m, mono(v, is_var, resolve, depth + 1))
                return m
        return "0"
    if isinstance(e, ast.UnaryOp):
        if isinstance(e.op, ast.USub):
            return _neg(mono(e.operand, is_var, resolve, depth + 1))
        if isinstance(e.op, ast.UAdd):
            return mono(e.operand, is_var, resolve, depth + 1)
        return "?" if _uses(e.operand, is_var, resolve) else "0"
    if isinstance(e, ast.BinOp):
        l = mono(e.left, is_var, resolve, depth + 1)
        r = mono(e.right, is_var, resolve, depth + 1)
        if isinstance(e.op, ast.Add):
            return _join(l, r)
        if isinstance(e.op, ast.Sub):
            return _join(l, _neg(r))
        if isinstance(e.op, (ast.Mult, ast.Div, ast.FloorDiv)):
            # by a positive constant
            if r == "0" and _pos_const(e.right):
                return l
            if l == "0" and _pos_const(e.left) and isinstance(e.op, ast.Mult):
                return r
            if l == "0" and r == "0":
                return "0"
            return "?"
        return "0" if (l == "0" and r == "0") else "?"
    if isinstance(e, ast.BoolOp) and isinstance(e.op, ast.Or):
        # `x or c` : value is x when truthy else c -> monotone if x monotone and c constant
        m = "0"
        for v in e.values:
            m = _join(m, mono(v, is_var, resolve, depth + 1))
        return m
    if isinstance(e, ast.IfExp):
        if _uses(e.test, is_var, resolve):
            return "?"
        return _join(mono(e.body, is_var, resolve, depth + 1), mono(e.orelse, is_var, resolve, depth + 1))
    if isinstance(e, ast.Call):
        fn = norm(e.func)
        if fn in ("min", "max", "float", "int", "round", "timedelta", "datetime.timedelta", "abs") and fn != "abs":
            m = "0"
            for a in list(e.args) + [k.value for k in e.keywords]:
                m = _join(m, mono(a, is_var, resolve, depth + 1))
            return m
        return "?" if _uses(e, is_var, resolve) else "0"
    if isinstance(e, ast.Tuple):
        # lexicographic key: the first component that depends on var decides
        for el in e.elts:
            m = mono(el, is_var, resolve, depth + 1)
            if m != "0":
                return m
        return "0"
    return "?" if _uses(e, is_var, resolve) else "0"


POSITIVE_NAMES = ("resolution", "granularity", "scheduleGranularity", "slot_duration")     # stated assumption: > 0


def _pos_const(e) -> bool:
    if isinstance(e, ast.Attribute) and e.attr in POSITIVE_NAMES:
        return True
    if isinstance(e, ast.Name) and e.id in POSITIVE_NAMES:
        return True
    return isinstance(e, ast.Constant) and isinstance(e.value, (int, float)) and not isinstance(e.value, bool) and e.value > 0


def _uses(e: ast.AST, is_var: Callable, resolve: Callable = None, depth: int = 0) -> bool:
    for x in ast.walk(e):
        if is_var(x):
            return True
        if isinstance(x, ast.Name) and resolve is not None and depth < 6:
            for v in resolve(x) or []:
                if _uses(v, is_var, resolve, depth + 1):
                    return True
    return False


def local_resolver(fn_node: ast.AST):
    """resolve(Name) -> list of value expressions assigned to that local name in the function
    (all assignments; callers treat multiple values as a join)."""
    table: dict = {}
    for n in ast.walk(fn_node):
        if isinstance(n, ast.Assign):
            for t in n.targets:
                if isinstance(t, ast.Name):
                    table.setdefault(t.id, []).append(n.value)
        elif isinstance(n, ast.AnnAssign) and isinstance(n.target, ast.Name) and n.value is not None:
            table.setdefault(n.target.id, []).append(n.value)

    def resolve(name: ast.Name):
        return table.get(name.id, [])
    return resolve


def nearest_resolver(fn_node: ast.AST, before: ast.AST):
    """resolve(Name) -> [the value of the assignment to that name that is closest before `before`, by position]: the definition
    that reaches a use in straight-line code.  Names with no earlier assignment resolve to all their assignments (as local_resolver)."""
    line = (getattr(before, "lineno", 0), getattr(before, "col_offset", 0))
    table: dict = {}
    for n in ast.walk(fn_node):
        tg = None
        if isinstance(n, ast.Assign):
            tg = [t for t in n.targets if isinstance(t, ast.Name)]
        elif isinstance(n, ast.AnnAssign) and isinstance(n.target, ast.Name) and n.value is not None:
            tg = [n.target]
        for t in tg or []:
            table.setdefault(t.id, []).append(((n.lineno, n.col_offset), n.value))

    def resolve(name: ast.Name):
        defs = table.get(name.id, [])
        earlier = [d for d in defs if d[0] < line]
        if earlier:
            return [max(earlier, key=lambda d: d[0])[1]]
        return [d[1] for d in defs]
    return resolve


# ------------------------------------------------------------------ representative points
def eval_points(e: ast.AST, binding: list):
    """Three-valued value of a comparison expression when designated terms take concrete
    representative values.  binding: [(predicate, number)].  Only the expression's AST is
    interpreted (constants, comparisons, and/or/not); nothing from the repository is executed."""
    def val(x):
        for pred, v in binding:
            if pred(x):
                return v
        if isinstance(x, ast.Constant) and isinstance(x.value, (int, float)) and not isinstance(x.value, bool):
            return x.value
        return None

    if isinstance(e, ast.Constant) and isinstance(e.value, bool):
        return e.value
    if isinstance(e, ast.UnaryOp) and isinstance(e.op, ast.Not):
        return k_not(eval_points(e.operand, binding))
    if isinstance(e, ast.BoolOp):
        vals = [eval_points(v, binding) for v in e.values]
        return k_and(vals) if isinstance(e.op, ast.And) else k_or(vals)
    if isinstance(e, ast.Compare):
        operands = [e.left] + list(e.comparators)
        vals = []
        for i, op in enumerate(e.ops):
            a, b = val(operands[i]), val(operands[i + 1])
            if a is None or b is None:
                vals.append(None)
                continue
            rel = "<" if a < b else ("=" if a == b else ">")
            vals.append(REL[rel].get(type(op)))
        return k_and(vals)
    return None


def interval_profile(e: ast.AST, t: Callable, lo: Callable, hi: Callable, lo_v=10, hi_v=20, points=(5, 10, 15, 20, 25)):
    return [eval_points(e, [(t, p), (lo, lo_v), (hi, hi_v)]) for p in points]


def matches(profile: list, expected: list) -> bool:
    """expected entries: True = must not be False, False = must be False (unknown leaves such as
    hasattr(...) may only weaken a True to None)."""
    return all((p is False) if x is False else (p is not False) for p, x in zip(profile, expected))
