"""Program model of /repo/scriptplan built from `ast` only (nothing is imported or run).

Repo            all modules, classes, functions (incl. nested defs and lambdas)
Func            one function: node, owning class, enclosing function, parameters
ClassInfo       bases, methods, repo-local MRO, subclasses

Every lookup that a rule relies on goes through `Repo.func()/cls()/module()`, which raise
`AnchorMissing` when the named construct no longer exists: the driver turns that into
`ANALYSIS-ERROR` / exit 2 (fail closed), never into a silent pass.
"""
from __future__ import annotations

import ast
import hashlib
import os
from dataclasses import dataclass, field
from typing import Iterator, Optional

REPO_ROOT = os.environ.get("SPVERIF_REPO", "/repo")
PKG = "scriptplan"


class AnchorMissing(Exception):
    """A construct a rule is anchored in is not in the tree any more."""


class Inconclusive(Exception):
    """The analysis cannot decide this instance (shape outside the abstract domain)."""


@dataclass(eq=False)
class Module:
    name: str            # dotted, e.g. scriptplan.core.project
    rel: str             # path relative to repo root
    path: str
    tree: ast.Module
    source: str
    imports: dict = field(default_factory=dict)   # local name -> (module, attr|None)
    funcs: dict = field(default_factory=dict)     # top-level function name -> Func
    classes: dict = field(default_factory=dict)   # class name -> ClassInfo
    globals_assigned: dict = field(default_factory=dict)  # name -> [ast nodes]


@dataclass(eq=False)
class ClassInfo:
    name: str
    module: Module
    node: ast.ClassDef
    base_names: list
    methods: dict = field(default_factory=dict)   # name -> Func
    bases: list = field(default_factory=list)     # resolved ClassInfo
    subclasses: list = field(default_factory=list)
    class_attrs: dict = field(default_factory=dict)  # name -> value node

    def mro(self) -> list:
        out, seen = [], set()

        def walk(c):
            if c.name in seen:
                return
            seen.add(c.name)
            out.append(c)
            for b in c.bases:
                walk(b)

        walk(self)
        return out

    def lookup(self, meth: str) -> Optional["Func"]:
        for c in self.mro():
            if meth in c.methods:
                return c.methods[meth]
        return None

    def all_subclasses(self) -> list:
        out, todo = [], list(self.subclasses)
        while todo:
            c = todo.pop()
            if c not in out:
                out.append(c)
                todo.extend(c.subclasses)
        return out


@dataclass
class Func:
    name: str
    qual: str            # Class.method / func / Outer.inner
    module: Module
    node: ast.AST        # FunctionDef | AsyncFunctionDef | Lambda
    cls: Optional[ClassInfo]
    parent: Optional["Func"]
    decorators: list = field(default_factory=list)
    nested: dict = field(default_factory=dict)

    qual_suffix: str = ""

    @property
    def key(self) -> str:
        return f"{self.module.rel}::{self.qual}{self.qual_suffix}"

    @property
    def params(self) -> list:
        a = self.node.args
        names = [x.arg for x in a.posonlyargs + a.args]
        if a.vararg:
            names.append(a.vararg.arg)
        names += [x.arg for x in a.kwonlyargs]
        if a.kwarg:
            names.append(a.kwarg.arg)
        return names

    @property
    def is_property(self) -> bool:
        return any(d in ("property",) or d.endswith(".setter") for d in self.decorators)

    @property
    def is_static(self) -> bool:
        return "staticmethod" in self.decorators

    @property
    def is_classmethod(self) -> bool:
        return "classmethod" in self.decorators

    @property
    def lineno(self) -> int:
        return getattr(self.node, "lineno", 0)

    def loc(self, node: Optional[ast.AST] = None) -> str:
        ln = (getattr(node, "_src_lineno", None) or getattr(node, "lineno", None)) if node is not None else self.lineno
        return f"{self.module.rel}:{ln}"

    def body(self) -> list:
        if isinstance(self.node, ast.Lambda):
            return [ast.Return(value=self.node.body, lineno=self.node.lineno, col_offset=0)]
        return self.node.body

    def __hash__(self):
        return hash(self.key)

    def __eq__(self, other):
        return isinstance(other, Func) and other.key == self.key

    def __repr__(self):
        return f"<Func {self.key}>"


def _dotted(node: ast.AST) -> Optional[str]:
    if isinstance(node, ast.Name):
        return node.id
    if isinstance(node, ast.Attribute):
        b = _dotted(node.value)
        return f"{b}.{node.attr}" if b else None
    if isinstance(node, ast.Call):
        return _dotted(node.func)
    return None


dotted = _dotted


class Repo:
    def __init__(self, root: str = None, pkg: str = PKG, extra_sources: dict = None):
        """extra_sources: rel path -> source text overriding what is on disk (used by the
        in-memory sensitivity pass and by self-tests)."""
        self.root = root or REPO_ROOT
        self.pkg = pkg
        self.modules: dict[str, Module] = {}
        self.by_rel: dict[str, Module] = {}
        self.classes: dict[str, list] = {}
        self.funcs: dict[str, Func] = {}       # key -> Func
        self.by_qual: dict[str, list] = {}
        self.by_name: dict[str, list] = {}
        self.digest = hashlib.sha256()
        self._load(extra_sources or {})
        self._link()

    # ------------------------------------------------------------------ loading
    def _load(self, extra):
        base = os.path.join(self.root, self.pkg)
        if not os.path.isdir(base):
            raise AnchorMissing(f"package directory {base} not found")
        paths = []
        for dp, dn, fn in os.walk(base):
            dn[:] = sorted(d for d in dn if d != "__pycache__")
            for f in sorted(fn):
                if f.endswith(".py"):
                    paths.append(os.path.join(dp, f))
        parsed = []
        for p in paths:
            rel = os.path.relpath(p, self.root)
            if rel in extra:
                src = extra[rel]
            else:
                with open(p, encoding="utf-8") as fh:
                    src = fh.read()
            self.digest.update(rel.encode() + b"\0" + src.encode())
            try:
                tree = ast.parse(src, filename=p)
            except SyntaxError as e:
                raise AnchorMissing(f"{rel} does not parse: {e}")
            parsed.append((p, rel, src, tree))
        frozen = None
        if not os.environ.get("SPVERIF_NO_INLINE") and not os.environ.get("SPVERIF_NO_ALIAS"):
            from .inline import Frozen
            frozen = Frozen({r: t for (_p, r, _s, t) in parsed})
        for (p, rel, src, tree) in parsed:
            # N-inline: private helpers that are newer than the rules are analysed as part of their callers (spverif/inline.py)
            if not os.environ.get("SPVERIF_NO_INLINE"):
                from .inline import normalise, positive_guards, propagate_aliases
                n_inl = normalise(tree, rel)
                positive_guards(tree)
                if n_inl:
                    self.inlined = getattr(self, "inlined", 0) + n_inl
                # N-alias: a local name for a field that only __init__ writes is that field
                if frozen is not None:
                    self.aliases = getattr(self, "aliases", 0) + propagate_aliases(tree, frozen)
            name = rel[:-3].replace(os.sep, ".")
            if name.endswith(".__init__"):
                name = name[: -len(".__init__")]
            m = Module(name, rel, p, tree, src)
            self.modules[name] = m
            self.by_rel[rel] = m
            self._index_module(m)

    def _index_module(self, m: Module):
        for node in ast.walk(m.tree):
            for ch in ast.iter_child_nodes(node):
                ch._parent = node
        self._collect_imports(m, m.tree)
        for st in m.tree.body:
            self._index_stmt(m, st, None, None, "")
        # module-level assignments (globals)
        for node in ast.walk(m.tree):
            if isinstance(node, (ast.Assign, ast.AnnAssign, ast.AugAssign)):
                # only true module level or inside module-level try/if
                p = node
                top = True
                while getattr(p, "_parent", None) is not None:
                    p = p._parent
                    if isinstance(p, (ast.FunctionDef, ast.AsyncFunctionDef, ast.ClassDef, ast.Lambda)):
                        top = False
                        break
                if top:
                    tgts = node.targets if isinstance(node, ast.Assign) else [node.target]
                    for t in tgts:
                        if isinstance(t, ast.Name):
                            m.globals_assigned.setdefault(t.id, []).append(node)

    def _collect_imports(self, m: Module, tree):
        for node in ast.walk(tree):
            if isinstance(node, ast.Import):
                for a in node.names:
                    m.imports[(a.asname or a.name).split(".")[0]] = (a.name if a.asname else a.name.split(".")[0], None)
            elif isinstance(node, ast.ImportFrom):
                mod = node.module or ""
                if node.level:
                    parts = m.name.split(".")
                    # for a package __init__, m.name is the package itself
                    is_pkg = m.rel.endswith("__init__.py")
                    up = node.level - (1 if is_pkg else 0)
                    base = parts[: len(parts) - up] if up else parts
                    if not is_pkg:
                        base = parts[: len(parts) - node.level]
                    mod = ".".join(base + ([mod] if mod else []))
                for a in node.names:
                    m.imports[a.asname or a.name] = (mod, a.name)

    def _index_stmt(self, m, st, cls, parent, prefix):
        if isinstance(st, (ast.FunctionDef, ast.AsyncFunctionDef)):
            qual = f"{prefix}{st.name}"
            f = Func(st.name, qual, m, st, cls, parent,
                     decorators=[_dotted(d) or "" for d in st.decorator_list])
            self._register(f)
            if parent is not None:
                parent.nested[st.name] = f
            elif cls is not None:
                cls.methods[st.name] = f
            else:
                m.funcs[st.name] = f
            self._index_body(m, st.body, cls if parent is None else cls, f, qual + ".")
            self._index_lambdas(m, st, cls, f, qual + ".")
        elif isinstance(st, ast.ClassDef):
            ci = ClassInfo(st.name, m, st, [(_dotted(b) or "") for b in st.bases])
            self.classes.setdefault(st.name, []).append(ci)
            if cls is None and parent is None:
                m.classes[st.name] = ci
            for s in st.body:
                if isinstance(s, (ast.Assign, ast.AnnAssign)):
                    tgts = s.targets if isinstance(s, ast.Assign) else [s.target]
                    for t in tgts:
                        if isinstance(t, ast.Name) and getattr(s, "value", None) is not None:
                            ci.class_attrs[t.id] = s.value
                self._index_stmt(m, s, ci, None, f"{prefix}{st.name}.")
        elif isinstance(st, (ast.If, ast.Try, ast.With, ast.For, ast.While)):
            # defs nested in module-level control flow
            for fld in ("body", "orelse", "finalbody"):
                for s in getattr(st, fld, []) or []:
                    self._index_stmt(m, s, cls, parent, prefix)
            for h in getattr(st, "handlers", []) or []:
                for s in h.body:
                    self._index_stmt(m, s, cls, parent, prefix)

    def _index_body(self, m, body, cls, parent, prefix):
        for st in body:
            for node in self._walk_no_nested(st):
                if isinstance(node, (ast.FunctionDef, ast.AsyncFunctionDef)):
                    self._index_stmt(m, node, cls, parent, prefix)
                elif isinstance(node, ast.ClassDef):
                    self._index_stmt(m, node, None, parent, prefix)

    def _walk_no_nested(self, st):
        """Yield st and descendants, not descending into nested function/class bodies
        (the nested def node itself is yielded)."""
        todo = [st]
        while todo:
            n = todo.pop()
            yield n
            if n is not st and isinstance(n, (ast.FunctionDef, ast.AsyncFunctionDef, ast.ClassDef, ast.Lambda)):
                continue
            if n is st and isinstance(n, (ast.FunctionDef, ast.AsyncFunctionDef, ast.ClassDef)):
                # caller asked for the def itself
                continue
            todo.extend(ast.iter_child_nodes(n))

    def _index_lambdas(self, m, fnode, cls, parent, prefix):
        n = 0
        for st in fnode.body:
            for node in self._walk_no_nested(st):
                if isinstance(node, ast.Lambda):
                    n += 1
                    name = f"<lambda{n}@{node.lineno}>"
                    f = Func(name, prefix + name, m, node, cls, parent)
                    self._register(f)
                    parent.nested[name] = f
                    node._func = f

    def _register(self, f: Func):
        if f.key in self.funcs:        # property getter/setter pairs, redefinitions
            f.qual_suffix = f"@{f.lineno}"
        self.funcs[f.key] = f
        self.by_qual.setdefault(f.qual, []).append(f)
        self.by_name.setdefault(f.name, []).append(f)
        f.node._func = f

    def _link(self):
        for lst in self.classes.values():
            for ci in lst:
                for b in ci.base_names:
                    short = b.split(".")[-1]
                    for cand in self.classes.get(short, []):
                        ci.bases.append(cand)
                        cand.subclasses.append(ci)

    # ------------------------------------------------------------------ lookups
    def module(self, rel: str) -> Module:
        if rel not in self.by_rel:
            raise AnchorMissing(f"module {rel} not found")
        return self.by_rel[rel]

    def cls(self, name: str) -> ClassInfo:
        c = self.classes.get(name)
        if not c:
            raise AnchorMissing(f"class {name} not found")
        return c[0]

    def func(self, qual: str, rel: str = None) -> Func:
        """qual like 'TaskScenario.schedule'; rel restricts to one file."""
        cands = self.by_qual.get(qual, [])
        if rel:
            cands = [f for f in cands if f.module.rel == rel]
        if not cands:
            raise AnchorMissing(f"function {qual}{' in ' + rel if rel else ''} not found")
        return cands[0]

    def has_func(self, qual: str) -> bool:
        return bool(self.by_qual.get(qual))

    def methods_named(self, name: str) -> list:
        return [f for f in self.by_name.get(name, []) if f.cls is not None and f.parent is None]

    def all_funcs(self) -> Iterator[Func]:
        return iter(self.funcs.values())

    def func_of(self, node: ast.AST) -> Optional[Func]:
        p = node
        while p is not None:
            f = getattr(p, "_func", None)
            if f is not None and p is not node:
                return f
            if f is not None and isinstance(node, (ast.FunctionDef, ast.Lambda)) and p is node:
                pass
            p = getattr(p, "_parent", None)
        return None

    def hexdigest(self) -> str:
        return self.digest.hexdigest()


def own_nodes(fn: Func) -> Iterator[ast.AST]:
    """All AST nodes of the function body, not descending into nested defs/lambdas/classes
    (those are separate Funcs); the nested def node itself is yielded once."""
    todo = list(reversed(fn.body())) if not isinstance(fn.node, ast.Lambda) else [fn.node.body]
    while todo:
        n = todo.pop()
        yield n
        if isinstance(n, (ast.FunctionDef, ast.AsyncFunctionDef, ast.ClassDef, ast.Lambda)):
            continue
        todo.extend(reversed(list(ast.iter_child_nodes(n))))


def norm(node: ast.AST) -> str:
    """Formatting- and position-independent text of a construct (used in finding keys)."""
    if node is None:          # e.g. the value of a bare annotation `x: int`
        return ""
    try:
        return ast.unparse(node)
    except Exception:
        return ast.dump(node)


def const_str(node) -> Optional[str]:
    if isinstance(node, ast.Constant) and isinstance(node.value, str):
        return node.value
    return None
