"""Loop-variant classification for `while` loops (termination clauses of C11).

classify(fn, while_node) -> (kind, detail)
    'cursor'    a conjunct `v < B` / `v > B` (B loop-invariant) and every path back to the loop head
                moves v strictly towards B
    'grow'      `len(X) <= n` with X.append on every path
    'treewalk'  truthiness / `is not None` of v with v = v.parent on every path
    'worklist'  truthiness of a collection that loses an element on every path back to the head
    'shrink'    string prefix test with the string shortened on every path
    'walk'      `while self.scheduleSlot():`-style: unit cursor step plus a horizon test that leaves
    None        no variant found (detail says what was tried)
"""
from __future__ import annotations

import ast
from typing import Optional

from .cfg import cfg_of
from .model import Func, dotted, norm


def _conjuncts(t: ast.AST) -> list:
    if isinstance(t, ast.BoolOp) and isinstance(t.op, ast.And):
        out = []
        for v in t.values:
            out += _conjuncts(v)
        return out
    return [t]


def _inside(loop) -> set:
    return {id(x) for st in loop.body for x in ast.walk(st)}


def _every_back_path_passes(fn: Func, loop, pred) -> bool:
    """Every CFG path from the first body statement back to the loop head, staying inside the body,
    passes a node satisfying pred."""
    g = cfg_of(fn)
    hdr = g.node_of(loop)
    inside = _inside(loop)
    starts = [b for (b, l) in g.succ[hdr.id] if l == "T"]
    seen, todo = set(), []
    for s in starts:
        n = g.nodes[s]
        if pred(n):
            continue
        seen.add(s)
        todo.append(s)
    conj = {norm(c) for c in _conjuncts(loop.test)}
    while todo:
        a = todo.pop()
        an = g.nodes[a]
        for (b, l) in g.succ[a]:
            if l in ("exc", "excb"):
                continue
            if l == "F" and an.kind == "if" and norm(an.ast) in conj:
                continue        # a conjunct of the loop condition just failed: the head will leave the loop
            if b == hdr.id:
                return False
            bn = g.nodes[b]
            if bn.ast is None and bn.kind == "join":
                # loop-internal joins (inner loop exits) are traversed; the outer break target is not inside
                if not any(id(g.nodes[p].ast) in inside for (p, _l) in g.pred[b] if g.nodes[p].ast is not None):
                    continue
            elif bn.ast is None or id(bn.ast) not in inside:
                continue
            if b in seen or pred(bn):
                continue
            seen.add(b)
            todo.append(b)
    return True


def _assigned_in(loop) -> set:
    out = set()
    for st in loop.body:
        for x in ast.walk(st):
            if isinstance(x, (ast.Assign, ast.AugAssign, ast.AnnAssign)):
                for t in (x.targets if isinstance(x, ast.Assign) else [x.target]):
                    for y in ast.walk(t):
                        if isinstance(y, (ast.Name, ast.Attribute)) and isinstance(getattr(y, "ctx", None), ast.Store):
                            out.add(norm(y))
            elif isinstance(x, (ast.For,)):
                for y in ast.walk(x.target):
                    if isinstance(y, ast.Name):
                        out.add(y.id)
    return out


def _pos_const(e) -> bool:
    return isinstance(e, ast.Constant) and isinstance(e.value, (int, float)) and not isinstance(e.value, bool) and e.value > 0


def _moves(node, v: str, direction: int, loop, fn_node) -> bool:
    """Does this CFG node move variable v strictly in `direction` (+1 up, -1 down)?"""
    a = node.ast
    if node.kind != "stmt" or a is None:
        return False
    if isinstance(a, ast.AugAssign) and norm(a.target) == v:
        if isinstance(a.op, ast.Add) and _pos_const(a.value):
            return direction > 0
        if isinstance(a.op, ast.Sub) and _pos_const(a.value):
            return direction < 0
    if isinstance(a, ast.Assign) and len(a.targets) == 1 and norm(a.targets[0]) == v and direction > 0:
        # v = w where w was started from v + <positive> and is only incremented
        w = a.value
        if isinstance(w, ast.Name) and _starts_above(w.id, v, loop, 0) and _sentinel_excluded(w.id, a, loop):
            return True
        if isinstance(w, ast.BinOp) and isinstance(w.op, ast.Add) and norm(w.left) == v and (_pos_const(w.right) or isinstance(w.right, ast.Call)):
            return True
        # v = p + c  where p = <text>.find(.., v [+ c']) was found (the "not found" answer -1 left the loop / the iteration before)
        if isinstance(w, ast.BinOp) and isinstance(w.op, ast.Add) and isinstance(w.left, ast.Name) and _pos_const(w.right) \
                and _found_from(w.left.id, v, loop) and _not_found_left(w.left.id, a, loop):
            return True
        # v = e  where e = <bound> if p == -1 else p + c: the loop's own bound (above v by the loop test) or a position found above v
        if isinstance(w, ast.Name):
            defs = [x.value for st in loop.body for x in ast.walk(st) if isinstance(x, ast.Assign) and len(x.targets) == 1 and norm(x.targets[0]) == w.id]
            if len(defs) == 1 and isinstance(defs[0], ast.IfExp):
                ie = defs[0]
                t = ie.test
                if isinstance(t, ast.Compare) and len(t.ops) == 1 and isinstance(t.ops[0], ast.Eq) and isinstance(t.left, ast.Name) and _neg_const(t.comparators[0]) \
                        and _found_from(t.left.id, v, loop, strictly=True) and norm(ie.body) in _bounds_of(v, loop) \
                        and isinstance(ie.orelse, ast.BinOp) and isinstance(ie.orelse.op, ast.Add) and norm(ie.orelse.left) == t.left.id \
                        and (_pos_const(ie.orelse.right)):
                    return True
    return False


def _found_from(p: str, v: str, loop, strictly: bool = False) -> bool:
    """p's only definition in the loop is `<text>.find(<x>, v)` or `.find(<x>, v + c)`: a position at / above v, or -1"""
    defs = [x.value for st in loop.body for x in ast.walk(st) if isinstance(x, ast.Assign) and len(x.targets) == 1 and norm(x.targets[0]) == p]
    if len(defs) != 1:
        return False
    d = defs[0]
    if not (isinstance(d, ast.Call) and isinstance(d.func, ast.Attribute) and d.func.attr in ("find", "index") and len(d.args) == 2):
        return False
    pos = d.args[1]
    if norm(pos) == v:
        return not strictly
    return isinstance(pos, ast.BinOp) and isinstance(pos.op, ast.Add) and norm(pos.left) == v and _pos_const(pos.right)


def _not_found_left(p: str, at: ast.AST, loop) -> bool:
    """before `at`, in the same block, `if p == -1: break / return / continue / raise` has been passed"""
    blk = getattr(at, "_parent", None)
    for fld in ("body", "orelse"):
        seq = getattr(blk, fld, None)
        if isinstance(seq, list) and at in seq:
            for st in seq[:seq.index(at)]:
                if isinstance(st, ast.If) and isinstance(st.test, ast.Compare) and len(st.test.ops) == 1 and isinstance(st.test.ops[0], ast.Eq) \
                        and norm(st.test.left) == p and _neg_const(st.test.comparators[0]) and st.body \
                        and isinstance(st.body[-1], (ast.Break, ast.Return, ast.Continue, ast.Raise)):
                    return True
    return False


def _bounds_of(v: str, loop) -> set:
    """texts b with `v < b` a conjunct of the loop test"""
    out = set()
    for c in _conjuncts(loop.test):
        if isinstance(c, ast.Compare) and len(c.ops) == 1 and isinstance(c.ops[0], ast.Lt) and norm(c.left) == v:
            out.add(norm(c.comparators[0]))
    return out


def _neg_const(e) -> bool:
    return (isinstance(e, ast.UnaryOp) and isinstance(e.op, ast.USub) and isinstance(e.operand, ast.Constant) and isinstance(e.operand.value, int)) or \
        (isinstance(e, ast.Constant) and isinstance(e.value, int) and not isinstance(e.value, bool) and e.value < 0)


def _sentinel_excluded(w: str, at: ast.AST, loop) -> bool:
    """If w can be set to a negative "not found" mark in the loop, the statement `at` runs only where w was tested against it
    (`if w != -1:` / `w >= 0` / `w > -1`)."""
    marked = any(isinstance(x, ast.Assign) and len(x.targets) == 1 and norm(x.targets[0]) == w and isinstance(x.value, ast.IfExp)
                 and _neg_const(x.value.orelse) for st in loop.body for x in ast.walk(st))
    if not marked:
        return True
    p, child = getattr(at, "_parent", None), at
    while p is not None and p is not loop:
        if isinstance(p, ast.If) and child in p.body and isinstance(p.test, ast.Compare) and len(p.test.ops) == 1 and norm(p.test.left) == w:
            op, rhs = p.test.ops[0], p.test.comparators[0]
            if (isinstance(op, ast.NotEq) and _neg_const(rhs)) or (isinstance(op, ast.GtE) and norm(rhs) == "0") or (isinstance(op, ast.Gt) and _neg_const(rhs)):
                return True
        child, p = p, getattr(p, "_parent", None)
    return False


def _starts_above(w: str, v: str, loop, depth: int) -> bool:
    if depth > 3:
        return False
    ok_init, seen_any = False, False
    for st in loop.body:
        for x in ast.walk(st):
            if isinstance(x, ast.Assign) and len(x.targets) == 1 and norm(x.targets[0]) == w:
                seen_any = True
                val = x.value
                if isinstance(val, ast.BinOp) and isinstance(val.op, ast.Add) and norm(val.left) == v:
                    # v + const>0   or   v + match.end() (length of a non-empty match)
                    if _pos_const(val.right) or (isinstance(val.right, ast.Call) and norm(val.right.func).endswith(".end")):
                        ok_init = True
                        continue
                    return False
                if isinstance(val, ast.Call) and isinstance(val.func, ast.Attribute) and val.func.attr == "end" and not val.args \
                        and isinstance(val.func.value, ast.Name):
                    # M.end() of M = <pattern>.match(<text>, v): the match begins at v, so its end lies above v (non-empty match, as above)
                    m_defs = [y.value for st2 in loop.body for y in ast.walk(st2) if isinstance(y, ast.Assign) and len(y.targets) == 1
                              and norm(y.targets[0]) == val.func.value.id]
                    if m_defs and all(isinstance(d, ast.Call) and isinstance(d.func, ast.Attribute) and d.func.attr == "match"
                                      and len(d.args) == 2 and norm(d.args[1]) == v for d in m_defs):
                        ok_init = True
                        continue
                    return False
                if isinstance(val, ast.IfExp) and isinstance(val.body, ast.Name) and val.body.id == w and _neg_const(val.orelse):
                    # `w = w if found else -1`: w keeps its value or becomes the "not found" mark; the mark is excluded where w is used
                    # (checked by _sentinel_excluded at the move)
                    continue
                if isinstance(val, ast.Name) and _starts_above(val.id, v, loop, depth + 1):
                    ok_init = True
                    continue
                return False
            if isinstance(x, ast.AugAssign) and norm(x.target) == w:
                if not (isinstance(x.op, ast.Add) and _pos_const(x.value)):
                    return False
    return seen_any and ok_init


def classify(fn: Func, loop: ast.While):
    tried = []
    assigned = _assigned_in(loop)
    conds = _conjuncts(loop.test)
    if isinstance(loop.test, ast.Constant) and loop.test.value is True:
        # `while True: ok = self.step(); ...; if not ok: break; ...`: the loop continues under the same condition as `while self.step():`
        answers = {t.id: st.value for st in loop.body if isinstance(st, (ast.Assign, ast.AnnAssign)) and st.value is not None
                   for t in (st.targets if isinstance(st, ast.Assign) else [st.target]) if isinstance(t, ast.Name)}
        conds = [answers[st.test.operand.id] for st in loop.body if isinstance(st, ast.If) and isinstance(st.test, ast.UnaryOp)
                 and isinstance(st.test.op, ast.Not) and isinstance(st.test.operand, ast.Name) and st.test.operand.id in answers
                 and any(isinstance(b, ast.Break) for b in st.body)]
    for c in conds:
        # ---- cursor
        if isinstance(c, ast.Compare) and len(c.ops) == 1 and isinstance(c.ops[0], (ast.Lt, ast.LtE, ast.Gt, ast.GtE, ast.NotEq)):
            l, r, op = c.left, c.comparators[0], c.ops[0]
            for (var, bound, dirn) in ((l, r, +1 if isinstance(op, (ast.Lt, ast.LtE)) else -1),
                                       (r, l, -1 if isinstance(op, (ast.Lt, ast.LtE)) else +1)):
                if isinstance(op, ast.NotEq):
                    continue
                # len(X) <= n  grows
                if isinstance(var, ast.Call) and norm(var.func) == "len" and dirn > 0 and var.args:
                    x = norm(var.args[0])
                    if _every_back_path_passes(fn, loop, lambda n: n.kind == "stmt" and n.ast is not None and any(
                            isinstance(k, ast.Call) and isinstance(k.func, ast.Attribute) and k.func.attr in ("append", "extend")
                            and norm(k.func.value) == x for k in ast.walk(n.ast))):
                        return ("grow", f"len({x}) grows on every iteration")
                    tried.append(f"len({x}) does not grow on every path")
                    continue
                if not isinstance(var, (ast.Name, ast.Attribute)):
                    continue
                v = norm(var)
                bnames = {norm(y) for y in ast.walk(bound) if isinstance(y, (ast.Name, ast.Attribute))}
                if bnames & assigned:
                    tried.append(f"bound {norm(bound)} of {v} is modified in the loop")
                    continue
                if v not in assigned:
                    continue
                if _every_back_path_passes(fn, loop, lambda n: _moves(n, v, dirn, loop, fn.node)):
                    return ("cursor", f"{v} moves {'up' if dirn > 0 else 'down'} to {norm(bound)} on every iteration")
                tried.append(f"{v} does not move towards {norm(bound)} on every path through the body")
        # ---- tree walk / worklist
        base = c
        if isinstance(c, ast.Compare) and len(c.ops) == 1 and isinstance(c.ops[0], ast.IsNot) \
                and isinstance(c.comparators[0], ast.Constant) and c.comparators[0].value is None:
            base = c.left
        if isinstance(base, (ast.Name, ast.Attribute)):
            v = norm(base)
            root = v[:-len(".parent")] if v.endswith(".parent") else v

            def walks(n, root=root):
                a = n.ast
                if n.kind == "stmt" and isinstance(a, ast.Assign) and len(a.targets) == 1 and norm(a.targets[0]) == root:
                    val = a.value
                    if norm(val) == f"{root}.parent":
                        return True
                    if isinstance(val, ast.IfExp) and norm(val.body) == f"{root}.parent":
                        return True
                    # p = parent   where parent = p.parent earlier in the body
                    if isinstance(val, ast.Name):
                        for st in loop.body:
                            for x in ast.walk(st):
                                if isinstance(x, ast.Assign) and norm(x.targets[0]) == val.id and norm(x.value) == f"{root}.parent":
                                    return True
                return False
            if _every_back_path_passes(fn, loop, walks):
                return ("treewalk", f"{root} climbs the parent chain on every iteration")

            def shrinks(n, v=v):
                a = n.ast
                return n.kind == "stmt" and a is not None and any(
                    isinstance(k, ast.Call) and isinstance(k.func, ast.Attribute) and k.func.attr in ("remove", "pop", "popleft", "clear")
                    and norm(k.func.value) == v for k in ast.walk(a))
            if isinstance(base, ast.Name) and _every_back_path_passes(fn, loop, shrinks):
                grows = [k for st in loop.body for k in ast.walk(st)
                         if (isinstance(k, ast.Call) and isinstance(k.func, ast.Attribute) and k.func.attr in ("append", "extend", "insert", "appendleft")
                             and norm(k.func.value) == v) or (isinstance(k, ast.AugAssign) and norm(k.target) == v)]
                if not grows:
                    return ("worklist", f"{v} loses an element on every path that loops")
                vd = _visited_discipline(fn, loop, v)
                if vd[0]:
                    return ("worklist", f"{v} loses an element on every iteration and gains only successors of elements not seen before ({vd[1]})")
                tried.append(f"{v} loses an element per iteration but is also extended, and no visited test bounds the re-insertions: {vd[1]}")
                loop._unbounded_worklist = (v, vd[1])
                continue
            tried.append(f"{v}: neither a parent-chain walk nor a shrinking work list on every path")
        # ---- string prefix
        if isinstance(c, ast.Call) and isinstance(c.func, ast.Attribute) and c.func.attr == "startswith" and isinstance(c.func.value, ast.Name):
            v = c.func.value.id
            if _every_back_path_passes(fn, loop, lambda n: n.kind == "stmt" and isinstance(n.ast, ast.Assign) and norm(n.ast.targets[0]) == v
                                       and isinstance(n.ast.value, ast.Subscript) and norm(n.ast.value.value) == v
                                       and isinstance(n.ast.value.slice, ast.Slice) and _pos_const(n.ast.value.slice.lower)):
                return ("shrink", f"{v} loses a leading character on every iteration")
        # ---- method-driven walk
        if isinstance(c, ast.Call) and isinstance(c.func, ast.Attribute) and isinstance(c.func.value, ast.Name) and c.func.value.id == "self" \
                and not c.args:
            steps = [x for st in loop.body for x in ast.walk(st) if isinstance(x, ast.AugAssign) and isinstance(x.op, (ast.Add, ast.Sub))]
            for s in steps:
                v = norm(s.target)
                nz = _pos_const(s.value) or (isinstance(s.value, ast.Name))
                horizon = [i for st in loop.body for i in ast.walk(st) if isinstance(i, ast.If) and v in norm(i.test)
                           and any(isinstance(k, (ast.Return, ast.Break)) for k in i.body)
                           and any(isinstance(o, ast.Lt) for cmp_ in ast.walk(i.test) if isinstance(cmp_, ast.Compare) for o in cmp_.ops)
                           and any(isinstance(o, ast.Gt) for cmp_ in ast.walk(i.test) if isinstance(cmp_, ast.Compare) for o in cmp_.ops)]
                if nz and horizon and _every_back_path_passes(fn, loop, lambda n, s=s: n.ast is s):
                    return ("walk", f"{v} steps once per iteration and the loop leaves outside its [lower, upper] window")
            tried.append(f"{norm(c)}: no stepping cursor with a two-sided window test in the body")
    return (None, "; ".join(tried) or "condition shape not recognised")


def _visited_discipline(fn: Func, loop, v: str):
    """A work list that is popped and extended terminates on cyclic input only if every element is expanded at most once:
    a set S with `S.add(K)` on the way, where K is computed from the popped element, and a test of the SAME key against S that
    skips the iteration (`if K in S: continue`) before anything is pushed -- or a `not in S` guard with the same key shape on
    every push.  Returns (ok, explanation)."""
    import copy
    popped = None
    for st in loop.body:
        for x in ast.walk(st):
            if isinstance(x, ast.Assign) and isinstance(x.value, ast.Call) and isinstance(x.value.func, ast.Attribute) \
                    and x.value.func.attr in ("pop", "popleft") and norm(x.value.func.value) == v and isinstance(x.targets[0], ast.Name):
                popped = x.targets[0].id
    if popped is None:
        return (False, "the popped element is not bound to a name")
    assigns = {}
    for st in loop.body:
        for x in ast.walk(st):
            if isinstance(x, ast.Assign) and isinstance(x.targets[0], ast.Name):
                assigns.setdefault(x.targets[0].id, []).append(x.value)

    def shape(e, var):
        """text of e with `var` replaced by X, names resolved one level"""
        if isinstance(e, ast.Name) and e.id != var and len(assigns.get(e.id, [])) == 1:
            e = assigns[e.id][0]
        return norm(e).replace(var, "X") if var else norm(e)
    # descending a tree needs no visited set: every growth pushes children of the popped element (the property / scenario
    # tree is finite and acyclic -- stated assumption of C11)
    grow_args = [a_ for st in loop.body for k in ast.walk(st) if isinstance(k, ast.Call) and isinstance(k.func, ast.Attribute)
                 and k.func.attr in ("append", "extend", "insert", "appendleft") and norm(k.func.value) == v for a_ in k.args]
    if grow_args and all(norm(a_) in (f"{popped}.children", f"{popped}.kids()", f"reversed({popped}.children)", f"list({popped}.children)")
                         for a_ in grow_args):
        return (True, f"pushes only the children of the popped element ({popped}.children): a tree descent")
    adds = [x for st in loop.body for x in ast.walk(st) if isinstance(x, ast.Call) and isinstance(x.func, ast.Attribute)
            and x.func.attr == "add" and len(x.args) == 1]
    for a in adds:
        S = norm(a.func.value)
        kshape = shape(a.args[0], popped)
        if "X" not in kshape:
            continue
        # (1) skip test on the popped element with the same key
        for i in [y for st in loop.body for y in ast.walk(st) if isinstance(y, ast.If)]:
            t = i.test
            if isinstance(t, ast.Compare) and len(t.ops) == 1 and isinstance(t.ops[0], ast.In) and norm(t.comparators[0]) == S \
                    and shape(t.left, popped) == kshape and any(isinstance(z, ast.Continue) for z in i.body) and i.lineno < a.lineno:
                return (True, f"visited set {S}, key {kshape}")
        # (2) guard on every push with the same key shape
        pushes = [k for st in loop.body for k in ast.walk(st) if isinstance(k, ast.Call) and isinstance(k.func, ast.Attribute)
                  and k.func.attr in ("append", "extend", "insert", "appendleft")]
        guards = [y for st in loop.body for y in ast.walk(st) if isinstance(y, ast.If) and isinstance(y.test, (ast.Compare, ast.BoolOp))]
        for gnode in guards:
            for cmp_ in ast.walk(gnode.test):
                if isinstance(cmp_, ast.Compare) and len(cmp_.ops) == 1 and isinstance(cmp_.ops[0], ast.NotIn) and norm(cmp_.comparators[0]) == S:
                    var = cmp_.left.id if isinstance(cmp_.left, ast.Name) else None
                    got = shape(cmp_.left, var) if var else norm(cmp_.left)
                    inner = norm(cmp_.left)
                    # the tested expression must be the key of the candidate, e.g. `pred.fullId not in S` for key `X.fullId`
                    names = [n_.id for n_ in ast.walk(cmp_.left) if isinstance(n_, ast.Name)]
                    cand = names[0] if names else None
                    if cand and norm(cmp_.left).replace(cand, "X") == kshape:
                        return (True, f"pushes guarded by `{inner} not in {S}`, key {kshape}")
                    return (False, f"the visited set {S} holds {kshape} but the push guard tests `{inner}`, which is never a member: "
                                   "every element is pushed again and a cycle is walked for ever")
        return (False, f"elements are added to {S} but never tested against it before {v} is extended")
    return (False, f"no visited set: {v} is extended by successors of every popped element, so a cycle in the walked relation never drains it")


def definite_problem(fn: Func, loop: ast.While):
    """Definite termination defects (used when no variant was found):
    'runaway'   the only progress towards the exit is conditional while another variable is stepped unconditionally
                on every iteration (it leaves every table it indexes before the loop ends)
    'stuck'     some path from the loop head back to the head assigns none of the variables the loop condition
                and the branch tests on that path read (and those tests contain no calls): once taken it is taken for ever
    None        neither (unknown)"""
    g = cfg_of(fn)
    hdr = g.node_of(loop)
    inside = _inside(loop)
    conj = _conjuncts(loop.test)
    uw = getattr(loop, "_unbounded_worklist", None)
    if uw is not None:
        return ("unbounded work list", uw[1])
    # runaway
    for c in conj:
        if isinstance(c, ast.Compare) and len(c.ops) == 1 and isinstance(c.ops[0], (ast.Lt, ast.LtE, ast.Gt, ast.GtE)) \
                and isinstance(c.left, (ast.Name, ast.Attribute)):
            v = norm(c.left)
            steps_v = [x for st in loop.body for x in ast.walk(st) if isinstance(x, ast.AugAssign) and norm(x.target) == v]
            other = [x for st in loop.body for x in ast.walk(st) if isinstance(x, ast.AugAssign) and norm(x.target) != v
                     and _pos_const(x.value)]
            if steps_v and other and len(conj) == 1:
                uncond = [o for o in other if _every_back_path_passes(fn, loop, lambda n, o=o: n.ast is o)]
                cond_only = not _every_back_path_passes(fn, loop, lambda n: n.ast in steps_v)
                if uncond and cond_only:
                    return ("runaway", f"{v} advances only on some iterations while {norm(uncond[0].target)} is stepped on every iteration and "
                                       f"does not appear in the loop condition")
    # stuck: DFS over paths head -> head collecting assigned names and test names
    read0 = {norm(x) for x in ast.walk(loop.test) if isinstance(x, (ast.Name, ast.Attribute))}
    has_call0 = any(isinstance(x, ast.Call) for x in ast.walk(loop.test))
    starts = [b for (b, l) in g.succ[hdr.id] if l == "T"]
    stack = [(s, frozenset(), frozenset(read0), has_call0, 0) for s in starts]
    seen = set()
    while stack:
        nid, assigned, reads, call, depth = stack.pop()
        if depth > 60 or (nid, assigned, reads) in seen:
            continue
        seen.add((nid, assigned, reads))
        n = g.nodes[nid]
        a2, r2, c2 = set(assigned), set(reads), call
        if n.ast is not None:
            root = n.ast if n.kind not in ("for",) else n.ast.iter
            if n.kind in ("if", "while"):
                r2 |= {norm(x) for x in ast.walk(n.ast) if isinstance(x, (ast.Name, ast.Attribute))}
                c2 = c2 or any(isinstance(x, ast.Call) for x in ast.walk(n.ast))
            if n.kind == "stmt" and isinstance(n.ast, (ast.Assign, ast.AugAssign, ast.AnnAssign)):
                for t in (n.ast.targets if isinstance(n.ast, ast.Assign) else [n.ast.target]):
                    for y in ast.walk(t):
                        if isinstance(y, (ast.Name, ast.Attribute)):
                            a2.add(norm(y))
            if n.kind == "for":
                a2 |= {norm(y) for y in ast.walk(n.ast.target) if isinstance(y, ast.Name)}
                c2 = True
            if n.kind == "stmt" and isinstance(n.ast, ast.Expr) and isinstance(n.ast.value, ast.Call):
                # a call statement may change anything reachable through its receiver
                f_ = n.ast.value.func
                if isinstance(f_, ast.Attribute):
                    a2.add(norm(f_.value))
        for (b, l) in g.succ[nid]:
            if l in ("exc", "excb"):
                continue
            if b == hdr.id:
                if not c2 and not (a2 & r2):
                    return ("stuck", "a path through the body changes nothing the loop condition or its own branch tests read")
                continue
            bn = g.nodes[b]
            if bn.ast is None and bn.kind != "join":
                continue
            if bn.ast is not None and id(bn.ast) not in inside:
                continue
            stack.append((b, frozenset(a2), frozenset(r2), c2, depth + 1))
    return None
