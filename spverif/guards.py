"""Branch facts: what is known to hold at a program point on *every* path (must-analysis).

A fact is a clause (disjunction) of literals; a literal is (normalised text of an atomic boolean
expression, polarity).  `if not force and not self.available(i): return` yields on the fall-through
edge the clause {force, self.available(i)}.  Facts mentioning a variable are killed when the
variable is assigned.  Calls inside literals are treated as stable between the test and the use
(stated assumption; the rules that rely on it name the literal they need).
"""
from __future__ import annotations

import ast
from typing import Optional

from .cfg import CFG, Node
from .model import norm


def _atoms_cnf(e: ast.AST, pos: bool) -> list:
    """CNF (list of frozenset clauses) of expression e (pos) or its negation (not pos)."""
    if isinstance(e, ast.UnaryOp) and isinstance(e.op, ast.Not):
        return _atoms_cnf(e.operand, not pos)
    if isinstance(e, ast.BoolOp):
        conj = isinstance(e.op, ast.And)
        if conj == pos:
            # conjunction of parts
            out = []
            for v in e.values:
                out += _atoms_cnf(v, pos)
            return out
        # disjunction of parts: distribute (parts are small)
        parts = [_atoms_cnf(v, pos) for v in e.values]
        acc = [frozenset()]
        for p in parts:
            nxt = []
            for a in acc:
                for cl in p:
                    nxt.append(a | cl)
                    if len(nxt) > 64:
                        return []          # give up: no facts (sound)
            acc = nxt
        return acc
    return [frozenset([(norm(e), pos)])]


def edge_facts(n: Node, label: str) -> list:
    if n.kind in ("if", "while") and label in ("T", "F"):
        return _atoms_cnf(n.ast, label == "T")
    return []


def _names(text_or_node) -> set:
    if isinstance(text_or_node, str):
        try:
            node = ast.parse(text_or_node, mode="eval")
        except SyntaxError:
            return set()
    else:
        node = text_or_node
    return {x.id for x in ast.walk(node) if isinstance(x, ast.Name)}


_NAME_CACHE: dict = {}


def clause_names(cl: frozenset) -> set:
    if cl not in _NAME_CACHE:
        s = set()
        for (t, _p) in cl:
            s |= _names(t)
        _NAME_CACHE[cl] = s
    return _NAME_CACHE[cl]


def assigned_names(n: Node) -> set:
    a = n.ast
    out = set()
    if a is None:
        return out
    if n.kind == "stmt":
        if isinstance(a, ast.Assign):
            for t in a.targets:
                out |= {x.id for x in ast.walk(t) if isinstance(x, ast.Name) and isinstance(x.ctx, ast.Store)}
        elif isinstance(a, (ast.AugAssign, ast.AnnAssign)):
            if isinstance(a.target, ast.Name):
                out.add(a.target.id)
        for x in ast.walk(a) if not isinstance(a, (ast.FunctionDef, ast.ClassDef)) else []:
            if isinstance(x, ast.NamedExpr):
                out.add(x.target.id)
    elif n.kind == "for":
        out |= {x.id for x in ast.walk(a.target) if isinstance(x, ast.Name)}
    elif n.kind == "with":
        for it in a.items:
            if it.optional_vars is not None:
                out |= {x.id for x in ast.walk(it.optional_vars) if isinstance(x, ast.Name)}
    return out


def _mentions(text: str, path: str) -> bool:
    i = text.find(path)
    while i >= 0:
        j = i + len(path)
        if path.endswith(("[", "(")) or j >= len(text) or not (text[j].isalnum() or text[j] == "_"):
            return True
        i = text.find(path, i + 1)
    return False


def written_paths(n: Node) -> set:
    """Normalised texts of attribute / element locations the node writes (`self.x = ..`, `self.x += ..`, `a.b[i] = ..`):
    a fact that mentions such a location does not survive the write."""
    from .model import norm
    a = n.ast
    out = set()
    if a is None or n.kind != "stmt":
        return out
    tgs = []
    if isinstance(a, ast.Assign):
        tgs = list(a.targets)
    elif isinstance(a, (ast.AugAssign, ast.AnnAssign)):
        tgs = [a.target]
    elif isinstance(a, ast.Delete):
        tgs = list(a.targets)
    for t in tgs:
        for x in ([t] if not isinstance(t, (ast.Tuple, ast.List)) else list(t.elts)):
            if isinstance(x, ast.Attribute):
                out.add(norm(x))
            elif isinstance(x, ast.Subscript) and isinstance(x.value, (ast.Attribute, ast.Name)):
                out.add(norm(x.value) + "[")
                if isinstance(x.value, ast.Attribute):
                    out.add(norm(x.value) + ".get(")
    return out


def _join(a: frozenset, b: frozenset) -> frozenset:
    """Facts holding on both incoming paths: common clauses, plus pairwise disjunctions of the clauses that
    hold on one side only (bounded), e.g. {force} | {not force, available} -> {force or available}."""
    common = a & b
    oa, ob = a - common, b - common
    extra = set()
    if oa and ob and len(oa) * len(ob) <= 36:
        for x in oa:
            for y in ob:
                u = x | y
                if len(u) > 3:
                    continue
                # drop tautologies (literal and its negation)
                if any((t, not p) in u for (t, p) in u):
                    continue
                extra.add(u)
    # keep disjunctions already known on the joined side (monotone: only shrink)
    return frozenset(common | extra)


def _local_aliases(fn_node) -> dict:
    """name -> path expression, for locals that are assigned exactly once, from a pure path (names, attributes, subscripts by
    names / constants; no calls), none of whose names is assigned more than once and which is never stored to in the function:
    `entry = self.scoreboard[sb_idx]`.  A fact about the alias is then also a fact about the path."""
    assigned: dict = {}
    stores = set()
    for n in ast.walk(fn_node):
        tg = []
        if isinstance(n, ast.Assign):
            tg = n.targets
        elif isinstance(n, (ast.AnnAssign, ast.AugAssign)):
            tg = [n.target]
        elif isinstance(n, (ast.For, ast.comprehension)):
            tg = [n.target]
        elif isinstance(n, ast.With):
            tg = [i.optional_vars for i in n.items if i.optional_vars is not None]
        for t in tg:
            for x in ast.walk(t):
                if isinstance(x, ast.Name):
                    assigned.setdefault(x.id, []).append(n)
            if isinstance(t, (ast.Attribute, ast.Subscript)):
                stores.add(norm(t))
    if isinstance(fn_node, (ast.FunctionDef, ast.AsyncFunctionDef)):
        a = fn_node.args
        for p in a.posonlyargs + a.args + a.kwonlyargs:
            assigned.setdefault(p.arg, []).append(fn_node)

    def pure(e):
        if isinstance(e, ast.Name):
            return len(assigned.get(e.id, [])) <= 1
        if isinstance(e, ast.Constant):
            return True
        if isinstance(e, ast.Attribute):
            return pure(e.value)
        if isinstance(e, ast.Subscript):
            return pure(e.value) and pure(e.slice)
        return False
    out = {}
    for name, defs in assigned.items():
        if len(defs) != 1 or not isinstance(defs[0], (ast.Assign, ast.AnnAssign)) or getattr(defs[0], "value", None) is None:
            continue
        d = defs[0]
        if isinstance(d, ast.Assign) and not (len(d.targets) == 1 and isinstance(d.targets[0], ast.Name)):
            continue
        v = d.value
        if isinstance(v, (ast.Attribute, ast.Subscript)) and pure(v) and norm(v) not in stores \
                and not any(norm(v).startswith(s_ + ".") or norm(v).startswith(s_ + "[") for s_ in stores):
            out[name] = v
    return out


class _AliasSubst(ast.NodeTransformer):
    def __init__(self, env):
        self.env = env
        self.hit = False

    def visit_Name(self, n):
        if isinstance(n.ctx, ast.Load) and n.id in self.env:
            self.hit = True
            import copy
            return copy.deepcopy(self.env[n.id])
        return n


class MustFacts:
    def __init__(self, g: CFG, normal_only: bool = True):
        self.g = g
        self.normal_only = normal_only
        self.inn: dict = {}
        try:
            self.aliases = _local_aliases(g.fn.node)
        except Exception:
            self.aliases = {}
        self.flag_facts: dict = {}
        self._solve()
        # second pass with what boolean flags stand for: `ok = <bool expr>` ... `if not ok: return False`
        try:
            ff = self._flag_facts()
        except Exception:
            ff = {}
        if ff:
            self.flag_facts = ff
            self._solve()
        if self.aliases:
            self.inn = {k: self._with_aliases(v) for k, v in self.inn.items()}

    def _flag_facts(self) -> dict:
        """(flag name, truth) -> clauses that hold whenever the flag has that truth value.
        A flag is a local assigned only booleans (True / False / a boolean expression) -- never a parameter.  For each assignment
        `v = E` the facts at that point plus E (resp. not E) are what v being true (false) tells; over several assignments the
        common part is kept.  Only clauses over names that are assigned at most once in the function and paths that are never
        stored to survive (they cannot have changed between the assignment and the test of the flag)."""
        fn = self.g.fn.node
        assigned: dict = {}
        stores = set()
        for n in ast.walk(fn):
            tg = []
            if isinstance(n, ast.Assign):
                tg = n.targets
            elif isinstance(n, (ast.AnnAssign, ast.AugAssign)):
                tg = [n.target]
            elif isinstance(n, (ast.For, ast.comprehension)):
                tg = [n.target]
            for t in tg:
                for x in ast.walk(t):
                    if isinstance(x, ast.Name) and isinstance(x.ctx, ast.Store):
                        assigned[x.id] = assigned.get(x.id, 0) + 1
                if isinstance(t, (ast.Attribute, ast.Subscript)):
                    stores.add(norm(t))
        params = set()
        if isinstance(fn, (ast.FunctionDef, ast.AsyncFunctionDef)):
            a = fn.args
            params = {p.arg for p in a.posonlyargs + a.args + a.kwonlyargs}

        def boolish(e):
            return (isinstance(e, ast.Constant) and isinstance(e.value, bool)) or isinstance(e, (ast.Compare, ast.BoolOp)) or \
                (isinstance(e, ast.UnaryOp) and isinstance(e.op, ast.Not)) or \
                (isinstance(e, ast.Call) and isinstance(e.func, ast.Name) and e.func.id in ("bool", "isinstance", "hasattr", "all", "any"))
        sites: dict = {}
        for n in self.g.nodes:
            a = n.ast
            if n.kind == "stmt" and isinstance(a, (ast.Assign, ast.AnnAssign)) and getattr(a, "value", None) is not None:
                tg = a.targets if isinstance(a, ast.Assign) else [a.target]
                if len(tg) == 1 and isinstance(tg[0], ast.Name):
                    sites.setdefault(tg[0].id, []).append((n, a.value))
        out = {}

        def stable(cl):
            for (t, _p) in cl:
                for nm in _names(t):
                    if assigned.get(nm, 0) > (0 if nm in params else 1):
                        return False
                if any(s_ in t for s_ in stores):
                    return False
            return True
        def is_none(e):
            return isinstance(e, ast.Constant) and e.value is None
        for v, lst in sites.items():
            if v in params or not all(boolish(e) or is_none(e) for (_n, e) in lst) or assigned.get(v, 0) != len(lst):
                continue
            for truth in (True, False):
                acc = None
                for (n, e) in lst:
                    if isinstance(e, ast.Constant):
                        if bool(e.value) is not truth:
                            continue
                        here = set(self.inn.get(n.id, frozenset()))
                    else:
                        inner = e.args[0] if (isinstance(e, ast.Call) and isinstance(e.func, ast.Name) and e.func.id == "bool" and len(e.args) == 1) else e
                        here = set(self.inn.get(n.id, frozenset())) | set(_atoms_cnf(inner, truth))
                    here = frozenset(cl for cl in here if cl and stable(cl) and v not in clause_names(cl))
                    acc = here if acc is None else _join(acc, here)
                if acc:
                    out[(v, truth)] = frozenset(acc)
        return out

    def _with_aliases(self, clauses: frozenset) -> frozenset:
        """every clause that mentions an alias, repeated with the alias replaced by the path it stands for"""
        extra = set()
        for cl in clauses:
            if not (clause_names(cl) & set(self.aliases)):
                continue
            lits = []
            hit = False
            for (t, p) in cl:
                try:
                    e = ast.parse(t, mode="eval").body
                except SyntaxError:
                    lits = None
                    break
                sub = _AliasSubst(self.aliases)
                e2 = sub.visit(e)
                hit = hit or sub.hit
                lits.append((norm(e2), p))
            if lits and hit:
                extra.add(frozenset(lits))
        return frozenset(clauses | extra) if extra else clauses

    def _solve(self):
        g = self.g
        TOP = None
        inn = {n.id: TOP for n in g.nodes}
        inn[g.entry.id] = frozenset()
        order = g._rpo(g.entry.id, g.succ, set(range(len(g.nodes))))
        changed = True
        rounds = 0
        while changed and rounds < 50:
            rounds += 1
            changed = False
            for nid in order:
                if inn[nid] is TOP:
                    continue
                n = g.nodes[nid]
                kill = assigned_names(n)
                base = inn[nid]
                if kill:
                    base = frozenset(cl for cl in base if not (clause_names(cl) & kill))
                paths = written_paths(n)
                if paths:
                    base = frozenset(cl for cl in base if not any(_mentions(t, pth) for (t, _p) in cl for pth in paths))
                for (b, l) in g.succ[nid]:
                    if self.normal_only and l in ("exc", "excb"):
                        continue
                    ef = edge_facts(n, l)
                    out = base | frozenset(ef)
                    if self.flag_facts:
                        for cl in ef:
                            if len(cl) == 1:
                                (t_, p_), = tuple(cl)
                                extra_ = self.flag_facts.get((t_, p_))
                                if extra_:
                                    out = out | extra_
                    if inn[b] is TOP:
                        inn[b] = out
                        changed = True
                    else:
                        new = _join(inn[b], out)
                        if new != inn[b]:
                            inn[b] = new
                            changed = True
        self.inn = {k: (v if v is not None else frozenset()) for k, v in inn.items()}

    def at(self, n: Node) -> frozenset:
        return self.inn.get(n.id, frozenset())

    def along(self, n: Node, label: str) -> frozenset:
        """Facts that hold along the out-edge (n, label): facts at n that survive n's writes, plus the edge's own facts."""
        base = self.at(n)
        kill = assigned_names(n)
        if kill:
            base = frozenset(cl for cl in base if not (clause_names(cl) & kill))
        paths = written_paths(n)
        if paths:
            base = frozenset(cl for cl in base if not any(_mentions(t, pth) for (t, _p) in cl for pth in paths))
        out = base | frozenset(edge_facts(n, label))
        return self._with_aliases(out) if getattr(self, "aliases", None) else out

    def holds(self, n: Node, pred) -> Optional[frozenset]:
        """First clause at node n all of whose literals satisfy pred(text, polarity)."""
        for cl in sorted(self.at(n), key=lambda c: sorted(c)):
            if cl and all(pred(t, p) for (t, p) in cl):
                return cl
        return None
