"""Branch facts: what is known to hold at a program point on *every* path (must-analysis).

A fact is a clause (disjunction) of literals; a literal is (normalised text of an atomic boolean
expression, polarity).  `if not force and not self.available(i): return` yields on the fall-through
edge the clause {force, self.available(i)}.  Facts mentioning a variable are killed when the
variable is assigned.  Calls inside literals are treated as stable between the test and the use
(stated assumption; the rules that rely on it name the literal they need).
"""
from __future__ import annotations

import ast
from typing import Optional

from .cfg import CFG, Node
from .model import norm


def _atoms_cnf(e: ast.AST, pos: bool) -> list:
    """CNF (list of frozenset clauses) of expression e (pos) or its negation (not pos)."""
    if isinstance(e, ast.UnaryOp) and isinstance(e.op, ast.Not):
        return _atoms_cnf(e.operand, not pos)
    if isinstance(e, ast.BoolOp):
        conj = isinstance(e.op, ast.And)
        if conj == pos:
            # conjunction of parts
            out = []
            for v in e.values:
                out += _atoms_cnf(v, pos)
            return out
        # disjunction of parts: distribute (parts are small)
        parts = [_atoms_cnf(v, pos) for v in e.values]
        acc = [frozenset()]
        for p in parts:
            nxt = []
            for a in acc:
                for cl in p:
                    nxt.append(a | cl)
                    if len(nxt) > 64:
                        return []          # give up: no facts (sound)
            acc = nxt
        return acc
    return [frozenset([(norm(e), pos)])]


def edge_facts(n: Node, label: str) -> list:
    if n.kind in ("if", "while") and label in ("T", "F"):
        return _atoms_cnf(n.ast, label == "T")
    return []


def _names(text_or_node) -> set:
    if isinstance(text_or_node, str):
        try:
            node = ast.parse(text_or_node, mode="eval")
        except SyntaxError:
            return set()
    else:
        node = text_or_node
    return {x.id for x in ast.walk(node) if isinstance(x, ast.Name)}


_NAME_CACHE: dict = {}


def clause_names(cl: frozenset) -> set:
    if cl not in _NAME_CACHE:
        s = set()
        for (t, _p) in cl:
            s |= _names(t)
        _NAME_CACHE[cl] = s
    return _NAME_CACHE[cl]


def assigned_names(n: Node) -> set:
    a = n.ast
    out = set()
    if a is None:
        return out
    if n.kind == "stmt":
        if isinstance(a, ast.Assign):
            for t in a.targets:
                out |= {x.id for x in ast.walk(t) if isinstance(x, ast.Name) and isinstance(x.ctx, ast.Store)}
        elif isinstance(a, (ast.AugAssign, ast.AnnAssign)):
            if isinstance(a.target, ast.Name):
                out.add(a.target.id)
        for x in ast.walk(a) if not isinstance(a, (ast.FunctionDef, ast.ClassDef)) else []:
            if isinstance(x, ast.NamedExpr):
                out.add(x.target.id)
    elif n.kind == "for":
        out |= {x.id for x in ast.walk(a.target) if isinstance(x, ast.Name)}
    elif n.kind == "with":
        for it in a.items:
            if it.optional_vars is not None:
                out |= {x.id for x in ast.walk(it.optional_vars) if isinstance(x, ast.Name)}
    return out


def _mentions(text: str, path: str) -> bool:
    i = text.find(path)
    while i >= 0:
        j = i + len(path)
        if path.endswith(("[", "(")) or j >= len(text) or not (text[j].isalnum() or text[j] == "_"):
            return True
        i = text.find(path, i + 1)
    return False


def written_paths(n: Node) -> set:
    """Normalised texts of attribute / element locations the node writes (`self.x = ..`, `self.x += ..`, `a.b[i] = ..`):
    a fact that mentions such a location does not survive the write."""
    from .model import norm
    a = n.ast
    out = set()
    if a is None or n.kind != "stmt":
        return out
    tgs = []
    if isinstance(a, ast.Assign):
        tgs = list(a.targets)
    elif isinstance(a, (ast.AugAssign, ast.AnnAssign)):
        tgs = [a.target]
    elif isinstance(a, ast.Delete):
        tgs = list(a.targets)
    for t in tgs:
        for x in ([t] if not isinstance(t, (ast.Tuple, ast.List)) else list(t.elts)):
            if isinstance(x, ast.Attribute):
                out.add(norm(x))
            elif isinstance(x, ast.Subscript) and isinstance(x.value, (ast.Attribute, ast.Name)):
                out.add(norm(x.value) + "[")
                if isinstance(x.value, ast.Attribute):
                    out.add(norm(x.value) + ".get(")
    return out


def _join(a: frozenset, b: frozenset) -> frozenset:
    """Facts holding on both incoming paths: common clauses, plus pairwise disjunctions of the clauses that
    hold on one side only (bounded), e.g. {force} | {not force, available} -> {force or available}."""
    common = a & b
    oa, ob = a - common, b - common
    extra = set()
    if oa and ob and len(oa) * len(ob) <= 36:
        for x in oa:
            for y in ob:
                u = x | y
                if len(u) > 3:
                    continue
                # drop tautologies (literal and its negation)
                if any((t, not p) in u for (t, p) in u):
                    continue
                extra.add(u)
    # keep disjunctions already known on the joined side (monotone: only shrink)
    return frozenset(common | extra)


class MustFacts:
    def __init__(self, g: CFG, normal_only: bool = True):
        self.g = g
        self.normal_only = normal_only
        self.inn: dict = {}
        self._solve()

    def _solve(self):
        g = self.g
        TOP = None
        inn = {n.id: TOP for n in g.nodes}
        inn[g.entry.id] = frozenset()
        order = g._rpo(g.entry.id, g.succ, set(range(len(g.nodes))))
        changed = True
        rounds = 0
        while changed and rounds < 50:
            rounds += 1
            changed = False
            for nid in order:
                if inn[nid] is TOP:
                    continue
                n = g.nodes[nid]
                kill = assigned_names(n)
                base = inn[nid]
                if kill:
                    base = frozenset(cl for cl in base if not (clause_names(cl) & kill))
                paths = written_paths(n)
                if paths:
                    base = frozenset(cl for cl in base if not any(_mentions(t, pth) for (t, _p) in cl for pth in paths))
                for (b, l) in g.succ[nid]:
                    if self.normal_only and l in ("exc", "excb"):
                        continue
                    out = base | frozenset(edge_facts(n, l))
                    if inn[b] is TOP:
                        inn[b] = out
                        changed = True
                    else:
                        new = _join(inn[b], out)
                        if new != inn[b]:
                            inn[b] = new
                            changed = True
        self.inn = {k: (v if v is not None else frozenset()) for k, v in inn.items()}

    def at(self, n: Node) -> frozenset:
        return self.inn.get(n.id, frozenset())

    def along(self, n: Node, label: str) -> frozenset:
        """Facts that hold along the out-edge (n, label): facts at n that survive n's writes, plus the edge's own facts."""
        base = self.at(n)
        kill = assigned_names(n)
        if kill:
            base = frozenset(cl for cl in base if not (clause_names(cl) & kill))
        paths = written_paths(n)
        if paths:
            base = frozenset(cl for cl in base if not any(_mentions(t, pth) for (t, _p) in cl for pth in paths))
        return base | frozenset(edge_facts(n, label))

    def holds(self, n: Node, pred) -> Optional[frozenset]:
        """First clause at node n all of whose literals satisfy pred(text, polarity)."""
        for cl in sorted(self.at(n), key=lambda c: sorted(c)):
            if cl and all(pred(t, p) for (t, p) in cl):
                return cl
        return None
