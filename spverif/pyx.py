"""Typed front end for the .pyx sources: runs the repository environment's own Cython compiler up to
and including type analysis (no code generation, nothing is written into /repo) and converts the typed
tree into Python `ast` nodes that carry the C type of every expression (`.ctype`) and the effective
`cdivision` directive on `%` / `//` nodes.

load(path) -> PyxModule: .functions {name: PyxFunc}, .directives (header comments), .source
"""
from __future__ import annotations

import ast
import os
import re
from typing import Optional

from .model import AnchorMissing, Inconclusive


class PyxFunc:
    def __init__(self, name, node: ast.FunctionDef, ret_type: str, arg_types: dict, kind: str, lineno: int, local_types: dict):
        self.name = name
        self.node = node
        self.ret_type = ret_type
        self.arg_types = arg_types
        self.kind = kind            # cpdef / cdef / def
        self.lineno = lineno
        self.local_types = local_types


class PyxModule:
    def __init__(self, path):
        self.path = path
        self.functions: dict = {}
        self.directives: dict = {}
        self.cdivision: bool = False
        self.source = ""


def header_directives(src: str) -> dict:
    out = {}
    for line in src.splitlines():
        m = re.match(r"#\s*cython:\s*(\w+)\s*=\s*(\S+)", line)
        if m:
            v = m.group(2)
            out[m.group(1)] = True if v == "True" else False if v == "False" else v
        elif line.strip() and not line.startswith("#"):
            break
    return out


def load(path: str) -> PyxModule:
    try:
        from Cython.Compiler import Main, Pipeline, ExprNodes, Nodes
        from Cython.Compiler.Main import CompilationOptions, CompilationSource, Context, default_options
    except ImportError as e:
        raise AnchorMissing(f"Cython front end not importable: {e}")
    if not os.path.exists(path):
        raise AnchorMissing(f"{path} not found")
    mod = PyxModule(path)
    with open(path) as f:
        mod.source = f.read()
    mod.directives = header_directives(mod.source)
    opts = CompilationOptions(default_options, language_level=3)
    cctx = Context.from_options(opts)
    name = os.path.splitext(os.path.basename(path))[0]
    source = CompilationSource(Main.FileSourceDescriptor(path, path), f"scriptplan._cython.{name}", os.getcwd())
    result = Main.create_default_resultobj(source, opts)
    pipeline = Pipeline.create_pyx_pipeline(cctx, opts, result)
    cut = [i for i, p in enumerate(pipeline) if type(p).__name__ == "AnalyseExpressionsTransform"]
    if not cut:
        raise AnchorMissing("Cython pipeline has no AnalyseExpressionsTransform stage")
    # Cython prints diagnostics to stderr; keep them out of the check's output
    import contextlib
    import io
    buf = io.StringIO()
    with contextlib.redirect_stderr(buf):
        try:
            err, tree = Pipeline.run_pipeline(pipeline[: cut[0] + 1], source)
        except Exception as e:                      # compile errors of a changed .pyx
            raise Inconclusive(f"{path}: Cython front end failed: {type(e).__name__}: {e}")
    if err is not None or tree is None:
        raise Inconclusive(f"{path}: Cython front end reported an error: {err} {buf.getvalue()[:300]}")
    mod.cdivision = bool(tree.directives.get("cdivision"))
    conv = _Conv(ExprNodes, Nodes, mod.cdivision)

    def visit(node):
        if isinstance(node, Nodes.CFuncDefNode):
            mod.functions[node.entry.name] = conv.func(node, "cpdef" if node.overridable else "cdef")
            return
        if isinstance(node, Nodes.DefNode) and getattr(node, "name", None) and not node.name.startswith("__pyx"):
            if node.name not in mod.functions:
                mod.functions[node.name] = conv.func(node, "def")
            return
        for a in getattr(node, "child_attrs", []) or []:
            c = getattr(node, a, None)
            for x in (c if isinstance(c, list) else [c]):
                if x is not None:
                    visit(x)
    visit(tree)
    return mod


class _Conv:
    def __init__(self, E, N, cdiv):
        self.E, self.N, self.cdiv = E, N, cdiv

    # ------------------------------------------------------------------ functions
    def func(self, node, kind) -> PyxFunc:
        N = self.N
        if isinstance(node, N.CFuncDefNode):
            name = node.entry.name
            args = [(a.name, str(a.type)) for a in node.type.args if not a.name.startswith("__pyx")]
            ret = str(node.return_type)
            # decorated `def f(..) -> cython.double` comes here as CFuncDefNode too
        else:
            name = node.name
            args = [(a.name, str(a.type)) for a in node.args]
            ret = "Python object"
        body = self.block(node.body)
        fd = ast.FunctionDef(name=name, args=ast.arguments(posonlyargs=[], args=[ast.arg(arg=a) for a, _t in args], kwonlyargs=[],
                                                           kw_defaults=[], defaults=[]), body=body or [ast.Pass()], decorator_list=[],
                             lineno=node.pos[1], col_offset=0)
        ast.fix_missing_locations(fd)
        for n in ast.walk(fd):
            for ch in ast.iter_child_nodes(n):
                ch._parent = n
        locs = {}
        scope = getattr(node, "local_scope", None)
        if scope is not None:
            for nm, entry in scope.entries.items():
                locs[nm] = str(entry.type)
        return PyxFunc(name, fd, ret, dict(args), kind, node.pos[1], locs)

    # ------------------------------------------------------------------ statements
    def block(self, node) -> list:
        N = self.N
        if node is None:
            return []
        if isinstance(node, N.StatListNode):
            out = []
            for s in node.stats:
                out += self.block(s)
            return out
        if isinstance(node, N.CompilerDirectivesNode):
            return self.block(node.body)
        return self.stmt(node)

    def stmt(self, s) -> list:
        N = self.N
        ln = s.pos[1]

        def L(n):
            n.lineno = ln
            n.col_offset = 0
            return n
        if isinstance(s, N.SingleAssignmentNode):
            return [L(ast.Assign(targets=[self.expr(s.lhs, store=True)], value=self.expr(s.rhs)))]
        if isinstance(s, N.CascadedAssignmentNode):
            return [L(ast.Assign(targets=[self.expr(x, store=True) for x in s.lhs_list], value=self.expr(s.rhs)))]
        if isinstance(s, N.InPlaceAssignmentNode):
            return [L(ast.AugAssign(target=self.expr(s.lhs, store=True), op=self.binop(s.operator), value=self.expr(s.rhs)))]
        if isinstance(s, N.ParallelAssignmentNode):
            out = []
            for x in s.stats:
                out += self.stmt(x)
            return out
        if isinstance(s, N.IfStatNode):
            node = None
            orelse = self.block(s.else_clause)
            for cl in reversed(s.if_clauses):
                node = L(ast.If(test=self.expr(cl.condition), body=self.block(cl.body) or [ast.Pass()], orelse=orelse))
                orelse = [node]
            return [node]
        if isinstance(s, N.WhileStatNode):
            return [L(ast.While(test=self.expr(s.condition), body=self.block(s.body) or [ast.Pass()], orelse=self.block(s.else_clause)))]
        if isinstance(s, N.ForInStatNode):
            it = s.iterator
            seq = getattr(it, "sequence", it)
            return [L(ast.For(target=self.expr(s.target, store=True), iter=self.expr(seq), body=self.block(s.body) or [ast.Pass()],
                              orelse=self.block(s.else_clause)))]
        if isinstance(s, N.ReturnStatNode):
            return [L(ast.Return(value=self.expr(s.value) if s.value is not None else None))]
        if isinstance(s, N.ExprStatNode):
            return [L(ast.Expr(value=self.expr(s.expr)))]
        if isinstance(s, N.PassStatNode):
            return []
        if isinstance(s, N.CVarDefNode):
            return []
        if isinstance(s, N.BreakStatNode):
            return [L(ast.Break())]
        if isinstance(s, N.ContinueStatNode):
            return [L(ast.Continue())]
        if isinstance(s, N.RaiseStatNode):
            return [L(ast.Raise(exc=self.expr(s.exc_type) if s.exc_type is not None else None, cause=None))]
        if isinstance(s, N.TryExceptStatNode):
            hs = []
            for c in s.except_clauses:
                pat = c.pattern
                typ = None
                if pat:
                    typ = self.expr(pat[0]) if len(pat) == 1 else ast.Tuple(elts=[self.expr(p) for p in pat], ctx=ast.Load())
                hs.append(ast.ExceptHandler(type=typ, name=None, body=self.block(c.body) or [ast.Pass()]))
            return [L(ast.Try(body=self.block(s.body) or [ast.Pass()], handlers=hs, orelse=self.block(s.else_clause), finalbody=[]))]
        if isinstance(s, (N.StatListNode, N.CompilerDirectivesNode)):
            return self.block(s)
        if isinstance(s, (N.CImportStatNode, N.FromCImportStatNode, N.FromImportStatNode, N.DefNode, N.CFuncDefNode)):
            return []
        raise Inconclusive(f"pyx statement kind {type(s).__name__} at line {ln} is outside the converter")

    # ------------------------------------------------------------------ expressions
    def binop(self, op: str):
        return {"+": ast.Add, "-": ast.Sub, "*": ast.Mult, "/": ast.Div, "//": ast.FloorDiv, "%": ast.Mod, "**": ast.Pow,
                "&": ast.BitAnd, "|": ast.BitOr, "^": ast.BitXor, "<<": ast.LShift, ">>": ast.RShift}[op]()

    def cmpop(self, op: str):
        return {"<": ast.Lt, "<=": ast.LtE, ">": ast.Gt, ">=": ast.GtE, "==": ast.Eq, "!=": ast.NotEq, "is": ast.Is, "is_not": ast.IsNot,
                "in": ast.In, "not_in": ast.NotIn}[op]()

    def expr(self, e, store=False):
        E = self.E
        # coercion / temp wrappers
        while type(e).__name__ in ("CoerceToPyTypeNode", "CoerceFromPyTypeNode", "CoerceToBooleanNode", "CoerceToTempNode", "PyTypeTestNode",
                                   "CloneNode", "NoneCheckNode", "CoerceIntToBytesNode", "CoerceToComplexNode", "ResultRefNode", "EvalWithTempExprNode",
                                   "ProxyNode"):
            nxt = getattr(e, "arg", None)
            if nxt is None:
                nxt = getattr(e, "expression", None) or getattr(e, "subexpression", None)
            if nxt is None:
                break
            e = nxt
        t = str(getattr(e, "type", ""))
        out = self._expr(e, store)
        out.ctype = t
        return out

    def _expr(self, e, store):
        E = self.E
        ctx = ast.Store() if store else ast.Load()
        nm = type(e).__name__
        if isinstance(e, E.NameNode):
            return ast.Name(id=e.name, ctx=ctx)
        if isinstance(e, E.IntNode):
            return ast.Constant(value=int(str(e.value).rstrip("LlUu") or 0, 0))
        if isinstance(e, E.FloatNode):
            return ast.Constant(value=float(e.value))
        if isinstance(e, E.BoolNode):
            return ast.Constant(value=bool(e.value))
        if isinstance(e, E.NoneNode):
            return ast.Constant(value=None)
        if nm in ("UnicodeNode", "StringNode", "BytesNode", "IdentifierStringNode"):
            return ast.Constant(value=str(e.value))
        if isinstance(e, E.AttributeNode):
            return ast.Attribute(value=self.expr(e.obj), attr=e.attribute, ctx=ctx)
        if isinstance(e, E.SimpleCallNode):
            args = e.args
            if args is None:
                at = getattr(e, "arg_tuple", None)
                args = at.args if at is not None else []
            return ast.Call(func=self.expr(e.function), args=[self.expr(a) for a in args], keywords=[])
        if isinstance(e, E.GeneralCallNode):
            args = [self.expr(a) for a in e.positional_args.args] if e.positional_args is not None else []
            kws = []
            kd = e.keyword_args
            if kd is not None and hasattr(kd, "key_value_pairs"):
                for kv in kd.key_value_pairs:
                    kws.append(ast.keyword(arg=str(kv.key.value), value=self.expr(kv.value)))
            return ast.Call(func=self.expr(e.function), args=args, keywords=kws)
        if nm == "PythonCapiCallNode" or nm == "PyMethodCallNode":
            fn = getattr(e, "function", None)
            return ast.Call(func=self.expr(fn) if fn is not None else ast.Name(id=nm, ctx=ast.Load()),
                            args=[self.expr(a) for a in getattr(e, "args", [])], keywords=[])
        if isinstance(e, E.TypecastNode):
            c = ast.Call(func=ast.Name(id="__cast__", ctx=ast.Load()), args=[self.expr(e.operand)], keywords=[])
            c.cast_to = str(e.type)
            c.cast_from = str(getattr(e.operand, "type", ""))
            return c
        if isinstance(e, E.PrimaryCmpNode):
            ops, comps = [self.cmpop(e.operator)], [self.expr(e.operand2)]
            c = e.cascade
            while c is not None:
                ops.append(self.cmpop(c.operator))
                comps.append(self.expr(c.operand2))
                c = c.cascade
            return ast.Compare(left=self.expr(e.operand1), ops=ops, comparators=comps)
        if isinstance(e, E.BoolBinopNode) or nm == "BoolBinopResultNode":
            if nm == "BoolBinopResultNode":
                return self.expr(e.arg, store)
            op = ast.And() if e.operator == "and" else ast.Or()
            vals = []
            for v in (e.operand1, e.operand2):
                x = self.expr(v)
                if isinstance(x, ast.BoolOp) and type(x.op) is type(op):
                    vals += x.values
                else:
                    vals.append(x)
            return ast.BoolOp(op=op, values=vals)
        if isinstance(e, E.NotNode):
            return ast.UnaryOp(op=ast.Not(), operand=self.expr(e.operand))
        if nm in ("UnaryMinusNode", "UnaryPlusNode", "TildeNode"):
            return ast.UnaryOp(op={"UnaryMinusNode": ast.USub, "UnaryPlusNode": ast.UAdd, "TildeNode": ast.Invert}[nm](), operand=self.expr(e.operand))
        if isinstance(e, E.BinopNode):
            b = ast.BinOp(left=self.expr(e.operand1), op=self.binop(e.operator), right=self.expr(e.operand2))
            if e.operator in ("%", "//", "/"):
                b.cdivision = bool(getattr(e, "cdivision", None)) if getattr(e, "cdivision", None) is not None else self.cdiv
            return b
        if isinstance(e, E.IndexNode):
            return ast.Subscript(value=self.expr(e.base), slice=self.expr(e.index), ctx=ctx)
        if isinstance(e, E.TupleNode):
            return ast.Tuple(elts=[self.expr(a, store) for a in e.args], ctx=ctx)
        if isinstance(e, E.ListNode):
            return ast.List(elts=[self.expr(a, store) for a in e.args], ctx=ctx)
        if isinstance(e, E.CondExprNode):
            return ast.IfExp(test=self.expr(e.condition), body=self.expr(e.true_val), orelse=self.expr(e.false_val))
        if nm == "DictNode":
            return ast.Dict(keys=[self.expr(kv.key) for kv in e.key_value_pairs], values=[self.expr(kv.value) for kv in e.key_value_pairs])
        if nm in ("SliceIndexNode",):
            return ast.Subscript(value=self.expr(e.base), slice=ast.Slice(lower=self.expr(e.start) if e.start is not None else None,
                                                                          upper=self.expr(e.stop) if e.stop is not None else None), ctx=ctx)
        inner = getattr(e, "arg", None)
        if inner is not None and nm.endswith("Node"):          # remaining coercion / clone wrappers
            return self.expr(inner, store)
        raise Inconclusive(f"pyx expression kind {nm} at line {e.pos[1]} is outside the converter")
